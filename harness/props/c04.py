"""C04 — rule selection is total and unambiguous.

Every run:
 (a) harness/translators/dump_rules.py regenerates lean/ColaVerif/Gen/RuleTable.lean (signatures,
     class hierarchy, lattice) from the live dispatcher of /repo's working tree;
 (b) Lean gate: ColaVerif.Properties.C04 (kernel evaluation of the model resolver on every lattice
     tuple, `decide +kernel`) is rebuilt and its axioms audited;
 (c) exhaustive correspondence: every public call form of the lattice is executed on real
     instances with plum's `Resolver.resolve` intercepted (the first resolution is recorded, then
     the call is aborted before the selected rule runs); classes of the intercepted arguments,
     truth values of the conditions and the outcome (signature | ambiguous | not found) must
     equal what the Lean model printed for that tuple (lean --run DriverC04.lean);
 (d) every tuple on which the REAL resolver fails is replayed as a plain public call; a call that
     raises AmbiguousLookupError / NotFoundLookupError is a VIOLATION (or KNOWN-FINDING when
     known_findings.json lists its clause); a broken gate / correspondence without such a call is
     reported with no-failing-input-found;
 (e) evidence.
"""
import copy
import importlib
import itertools
import json
import os
import sys
import time

import common

MODULE = "ColaVerif.Properties.C04"
PARTS = [f"ColaVerif.Properties.C04.Part{p}" for p in "ABCDEFG"]
TRANSLATOR = os.path.join(common.ROOT, "harness", "translators", "dump_rules.py")
LATTICE_JSON = os.path.join(common.WORK, "c04", "lattice.json")
ANNOTATIONS = ["SelfAdjoint", "PSD", "Stiefel", "Unitary"]


class _Stop(BaseException):
    """aborts the public call right after the first resolution"""


# ------------------------------------------------------------------------------------------
def load_translator():
    d = os.path.dirname(TRANSLATOR)
    if d not in sys.path:
        sys.path.insert(0, d)
    return importlib.import_module("dump_rules")


def run_lean_driver():
    """-> {fn: {(args ids, conds): (outcome string, n_matching)}}"""
    rc, so, se = common.sh(["lake", "env", "lean", "--run", "DriverC04.lean"], cwd=common.LEAN_DIR, timeout=900)
    if rc != 0:
        raise RuntimeError("DriverC04.lean failed:\n" + (so + se)[-2000:])
    res = {}
    order = {}
    for line in so.split("\n"):
        if not line.strip():
            continue
        name, key, out, nm = line.split("\t")
        a, c = key.split("|")
        ids = tuple(int(x) for x in a.split(",")) if a else ()
        excl = nm.endswith(" X")
        nm = int(nm.split()[0])
        p = out.split()
        o = ("U", int(p[1])) if p[0] == "U" else (p[0], None)
        res.setdefault(name, {})[(ids, int(c))] = (o, nm, excl)
        order.setdefault(name, []).append((ids, int(c)))
    return res, order


class Real:
    """the live side: interception of plum's resolver"""

    def __init__(self, D, m):
        import plum
        from plum.resolver import Resolver
        self.plum = plum
        self.Resolver = Resolver
        self.m = m
        self.D = D
        self.by_resolver = {}
        for name, fn in m.functions.items():
            f = fn["function"]
            f._resolve_pending_registrations()
            self.by_resolver[id(f._resolver)] = name
        self.bearable = plum._is_bearable

    def clear_caches(self):
        for fn in self.m.functions.values():
            fn["function"]._cache.clear()

    def intercept(self, thunk):
        """run thunk(); -> dict(fn, args, out=('U', idx)|('A', msg)|('N', msg)) or dict(error=...)"""
        rec = {}
        Resolver = self.Resolver
        orig = Resolver.resolve
        plum = self.plum

        def patched(rs, target):
            if rec:
                return orig(rs, target)
            rec["resolver"] = rs
            rec["args"] = target
            try:
                sig = orig(rs, target)
                rec["out"] = ("U", next(i for i, s in enumerate(rs.signatures) if s is sig))
            except plum.AmbiguousLookupError as ex:
                rec["out"] = ("A", str(ex))
            except plum.NotFoundLookupError as ex:
                rec["out"] = ("N", str(ex))
            raise _Stop()

        self.clear_caches()
        Resolver.resolve = patched
        try:
            thunk()
            if not rec:
                rec["error"] = "the call returned without any resolution"
        except _Stop:
            pass
        except Exception as ex:  # raised before the first resolution
            if "out" not in rec:
                rec["error"] = f"{type(ex).__name__}: {str(ex)[:200]}"
        finally:
            Resolver.resolve = orig
        if "resolver" in rec:
            rec["fn"] = self.by_resolver.get(id(rec["resolver"]), "?")
        return rec

    def key_of(self, rec):
        """(class ids, condition bits) of the intercepted arguments"""
        m = self.m
        fn = m.functions[rec["fn"]]
        args = rec["args"]
        ids = []
        for v in args:
            c = type(v)
            if c not in m.cid:
                return None, f"argument class {c} outside the class table"
            ids.append(m.cid[c])
        bits = 0
        for c in fn["conds"]:
            s = fn["live"][c["sig"]]
            ok = (len(s.types) == len(args) or (len(s.types) < len(args) and s.has_varargs)) and \
                all(self.bearable(v, t) for v, t in zip(args, s.expand_varargs(len(args))))
            if ok and s.condition(*args):
                bits |= 1 << fn["sigs"][c["sig"]]["cond"]
        return (tuple(ids), bits), None


def variants(D, m, kind):
    """instances of one operator kind that steer the conditions: the five annotation states of
    the property statement (none, SelfAdjoint, PSD, Stiefel, Unitary) through cola's wrappers,
    plus states forced by overwriting `annotations` where the kind fixes them itself (Identity is
    always Unitary+PSD ...), plus a Product with non-square factors.  -> list of (tag, instance)"""
    import cola
    import numpy as np
    out = []
    bases = [("", kind["inst"])]
    if kind["name"] == "Product":
        from cola.ops import Dense, Product
        bases.append(("nonsquare-factors ", Product(Dense(np.ones((3, 2))), Dense(np.ones((2, 3))))))
    for tag, inst in bases:
        out.append((tag + "as-built", inst, False))
        for a in ANNOTATIONS:
            A = getattr(cola, a)
            try:
                out.append((tag + f"cola.{a}(A)", A(inst), False))
            except Exception:
                o = copy.copy(inst)
                o.annotations = set(inst.annotations) | {A}
                out.append((tag + f"annotations|={{{a}}} (forced)", o, True))
        o = copy.copy(inst)
        o.annotations = set()
        out.append((tag + "annotations={} (forced)", o, True))
        o = copy.copy(inst)
        o.annotations = {cola.Unitary, cola.PSD}
        out.append((tag + "annotations={Unitary,PSD} (forced)", o, True))
    return out


def describe(m, fn, ids):
    return [m.class_names[i].split(".")[-1] if "[" not in m.class_names[i] else m.class_names[i].split("[")[0].split(".")[-1] + "[…]"
            for i in ids]


# ------------------------------------------------------------------------------------------
def correspondence(ctx, D, m, lean, stats):
    """(c): every public form item × steering variants"""
    R = Real(D, m)
    kinds = {k["name"]: k for k in m.kinds}
    var_cache = {}
    mismatches, failures, errors = [], [], []
    covered = {name: set() for name in m.functions}
    samples = []
    forced_only = {}
    for fo in m.forms:
        fn = m.functions[fo["fn"]]
        for it in fo["items"]:
            vals = [m.dom_inst[(d, lab)] for d, lab in zip(fo["doms"], it["labels"])]
            need = {fn["tuples"][ti] for ti in it["tuples"]}
            # positions that hold an operator kind, steered only when several condition states exist
            vsets = []
            for d, lab, v in zip(fo["doms"], it["labels"], vals):
                if len(need) > 1 and lab in kinds and d in ("K", "KARR", "SMUL", "NYS"):
                    if lab not in var_cache:
                        var_cache[lab] = variants(D, m, kinds[lab])
                    vsets.append(var_cache[lab])
                else:
                    vsets.append([("", v, False)])
            for combo in itertools.product(*vsets):
                args = [c[1] for c in combo]
                tag = " ".join(c[0] for c in combo if c[0])
                forced = any(c[2] for c in combo)
                rec = R.intercept(lambda: fo["call"](*args))
                stats["calls"] += 1
                where = {"form": fo["name"], "labels": it["labels"], "variant": tag}
                if "error" in rec and "out" not in rec:
                    errors.append(dict(where, error=rec["error"]))
                    continue
                if rec["fn"] != fo["fn"]:
                    mismatches.append(dict(where, why=f"first resolution was {rec['fn']}, expected {fo['fn']}"))
                    continue
                key, err = R.key_of(rec)
                if err:
                    mismatches.append(dict(where, why=err))
                    continue
                if key not in need:
                    mismatches.append(dict(where, why=f"intercepted tuple {key} is not among the lattice tuples {sorted(need)} of this call form"))
                    continue
                lo = lean[fo["fn"]].get(key)
                if lo is None:
                    mismatches.append(dict(where, why=f"tuple {key} missing from the Lean lattice"))
                    continue
                (lout, nmatch, excl) = lo
                real = rec["out"]
                real_c = (real[0], real[1] if real[0] == "U" else None)
                stats["evaluations"] += 1
                if nmatch >= 2:
                    stats["nontrivial"].add((fo["fn"], key))
                if not forced:
                    stats["natural"].add((fo["fn"], key))
                covered[fo["fn"]].add(key)
                if real_c != lout:
                    mismatches.append(dict(where, why=f"real resolver {real_c} vs Lean model {lout}", tuple=[list(key[0]), key[1]]))
                if real[0] != "U":
                    failures.append(dict(where, fn=fo["fn"], key=key, outcome=real[0], message=real[1][:600], forced=forced))
                elif len(samples) < 400 and nmatch >= 2 and stats["calls"] % 37 == 0:
                    samples.append({"call": fo["name"], "classes": describe(m, fn, key[0]), "conds": key[1],
                                    "selected": fn["sigs"][real[1]]["impl"], "signature": fn["sigs"][real[1]]["repr"]})
    uncovered = []
    for name, fn in m.functions.items():
        for t in fn["tuples"]:
            if t not in covered[name]:
                uncovered.append({"fn": name, "tuple": [list(t[0]), t[1]], "classes": describe(m, fn, t[0])})
    return mismatches, failures, errors, uncovered, samples


def real_call(D, m, form_name, labels, variant):
    """(d): the plain public call, nothing patched.  -> (call text, exception or None)"""
    fo = next(f for f in m.forms if f["name"] == form_name)
    kinds = {k["name"]: k for k in m.kinds}
    args = []
    vtags = variant
    for d, lab in zip(fo["doms"], labels):
        v = m.dom_inst[(d, lab)]
        if variant and lab in kinds and d in ("K", "KARR", "SMUL", "NYS"):
            for tag, inst, _ in variants(D, m, kinds[lab]):
                if tag == vtags:
                    v = inst
        args.append(v)
    text = f"{form_name}  with  " + ", ".join(f"{type(a).__module__}.{type(a).__qualname__}" for a in args) + (f"  [{variant}]" if variant else "")
    for fn in m.functions.values():
        fn["function"]._cache.clear()
    try:
        fo["call"](*args)
        return text, None
    except Exception as ex:  # noqa: BLE001
        return text, ex


def clause_of(m, fname, key, outcome):
    fn = m.functions[fname]
    D = sys.modules["dump_rules"]
    for c in fn["clauses"]:
        if D.clause_has(m, c["pats"], key[0]):
            return c["name"], c["what"]
    mir = D.mirror_resolve(m, fn, list(key[0]), key[1])
    impls = "+".join(fn["sigs"][i]["impl"].split(".")[-1] for i in (mir[1] if mir[0] == "A" else []))
    return f"{fname}-{'ambiguous' if outcome == 'A' else 'not-found'}" + (f"-{impls}" if impls else ""), None


def restore_committed_table():
    """The library root imports the C04 modules, so a generated table on which the C04 theorems
    fail (a defective or mutated tree) would break `lake build ColaVerif` and with it the Lean gate
    of every other property.  After such a run put the committed copy back (it is regenerated by
    the next run of this check anyway); the failure itself has been reported above."""
    rel = "lean/ColaVerif/Gen/RuleTable.lean"
    rc, so, _ = common.sh(["git", "show", "HEAD:" + rel], cwd=common.ROOT)
    path = os.path.join(common.ROOT, rel)
    if rc == 0 and so and so != open(path).read():
        with open(path, "w") as f:
            f.write(so)
        print("note: C04 theorems fail on the regenerated rule table; restored the committed Gen/RuleTable.lean "
              "so that the rest of the library keeps building", flush=True)


# ------------------------------------------------------------------------------------------
def run(ctx):
    t0 = time.time()
    broken = []
    # (a) translator on the current working tree of /repo, in a fresh interpreter
    rc, so, se = common.sh(["/venv/bin/python", TRANSLATOR, "--quiet"], cwd=common.ROOT, timeout=900)
    if rc != 0:
        broken.append({"stage": "translator", "detail": (so + se)[-3000:]})
        common.violation(ctx, {"broken": "translator dump_rules.py failed on the current tree: the rule table cannot be regenerated",
                               "detail": (so + se)[-3000:]}, no_input=True)
        common.write_evidence(ctx, None, {"evaluations": 0, "distinct_nontrivial": 0, "exhaustive": False, "broken": broken})
        return
    tsum = json.loads(so.strip().split("\n")[-1])
    t_translate = time.time() - t0
    # (b) Lean gate
    gate, gate_err = None, None
    try:
        gate = common.lean_gate(ctx, MODULE)
        if ctx.thorough:
            rc, so, se = common.sh(["lake", "env", "leanchecker"] + PARTS, cwd=common.LEAN_DIR, timeout=3000)
            gate["checker_cmd"] += " && lake env leanchecker " + " ".join(PARTS)
            if rc != 0:
                raise common.LeanGateError("leanchecker rejected the part modules:\n" + (so + se)[-2000:])
    except common.LeanGateError as ex:
        gate_err = str(ex)
        # lean_gate builds the whole library; other modules are edited concurrently.  Only a failure
        # of the C04 modules themselves says something about C04.
        rc, out = common.lake_build([MODULE])
        if rc == 0 and "forbidden tokens" not in gate_err and "leanchecker" not in gate_err:
            raise RuntimeError("the Lean library does not build outside the C04 modules (machinery failure, not a C04 result):\n" + gate_err[-2000:])
        broken.append({"stage": "lean gate", "detail": gate_err[-3000:]})
    t_gate = time.time() - t0 - t_translate
    # the model's answer for every tuple (needs only the table and the model, not the theorems)
    rc, out = common.lake_build(["ColaVerif.Gen.RuleTable"])
    if rc != 0:
        raise RuntimeError("generated RuleTable.lean does not compile:\n" + out[-3000:])
    lean, _order = run_lean_driver()
    # (c) correspondence on real instances
    D = load_translator()
    m = D.load()
    js = json.load(open(LATTICE_JSON))
    if sorted(js["functions"]) != sorted(m.functions):
        raise RuntimeError("/repo changed during the check (set of dispatched functions); re-run")
    for name, fn in m.functions.items():
        if json.loads(json.dumps(fn["sigs"])) != js["functions"][name]["sigs"]:
            raise RuntimeError(f"/repo changed during the check: signatures of {name} differ between the translator run and now; re-run")
        if [[list(a), c] for a, c in fn["tuples"]] != js["functions"][name]["tuples"] or \
                set(lean.get(name, {})) != set(fn["tuples"]):
            raise RuntimeError(f"lattice of {name}: translator run, in-process model and Lean driver differ")
    if ctx.replay:
        rp = json.load(open(ctx.replay))
        if "form" in rp:
            text, ex = real_call(D, m, rp["form"], rp["labels"], rp.get("variant", ""))
            print(json.dumps({"replayed": text, "raised": None if ex is None else f"{type(ex).__name__}: {str(ex)[:300]}"}))
            import plum
            if isinstance(ex, (plum.AmbiguousLookupError, plum.NotFoundLookupError)):
                common.violation(ctx, dict(rp, replay_of=ctx.replay))
        else:
            print(json.dumps({"replayed": None, "note": "replay file names no input (broken gate / correspondence)"}))
        return
    stats = {"calls": 0, "evaluations": 0, "nontrivial": set(), "natural": set()}
    mismatches, failures, errors, uncovered, samples = correspondence(ctx, D, m, lean, stats)
    t_corr = time.time() - t0 - t_translate - t_gate
    if mismatches:
        broken.append({"stage": "correspondence", "count": len(mismatches), "first": mismatches[:10]})
    if errors:
        broken.append({"stage": "correspondence: public call failed before any resolution", "count": len(errors), "first": errors[:10]})
    if uncovered:
        broken.append({"stage": "correspondence: lattice tuples no real call reached", "count": len(uncovered), "first": uncovered[:10]})
    # model-side failures the real side did not show (cannot happen when the correspondence holds)
    lean_fail = [(n, k) for n, d in lean.items() for k, (o, _, _) in d.items() if o[0] != "U"]
    # (d) failing inputs: replay every distinct (function, candidate set) as a plain public call
    import plum
    known = common.known_clauses("C04")
    seen = {}
    for f in failures:
        clause, what = clause_of(m, f["fn"], f["key"], f["outcome"])
        if clause in seen:
            seen[clause]["count"] += 1
            if seen[clause]["confirmed"] or f["forced"]:
                continue
        text, ex = real_call(D, m, f["form"], f["labels"], f["variant"])
        confirmed = isinstance(ex, (plum.AmbiguousLookupError, plum.NotFoundLookupError))
        ent = seen.setdefault(clause, {"count": 1, "confirmed": False, "what": what})
        if confirmed and not ent["confirmed"]:
            ent.update(confirmed=True, payload={
                "clause": clause, "function": f["fn"], "form": f["form"], "labels": f["labels"], "variant": f["variant"],
                "classes": describe(m, m.functions[f["fn"]], f["key"][0]), "conditions": f["key"][1],
                "call": text, "exception": type(ex).__name__, "message": str(ex)[:1500],
                "what": what or "rule selection fails on an admitted argument tuple",
                "forced_annotations": f["forced"]})
    reported = 0
    for clause, ent in seen.items():
        if not ent["confirmed"]:
            continue
        if clause in known:
            common.known_finding(ctx, clause, f"{ent['payload']['call']} raises {ent['payload']['exception']} ({ent['count']} lattice calls)")
        else:
            ent["payload"]["failing_calls_in_class"] = ent["count"]
            common.violation(ctx, ent["payload"])
            reported += 1
    unconfirmed = [c for c, e in seen.items() if not e["confirmed"]]
    if unconfirmed:
        broken.append({"stage": "real resolver fails inside interception but the plain call does not raise a lookup error", "clauses": unconfirmed})
    if broken and not reported:
        # gate / correspondence broken and no real failing call explains it (a finding that is only
        # recorded in known_findings.json must also be declared in CLAUSES of dump_rules.py)
        common.violation(ctx, {"broken": [b["stage"] for b in broken], "detail": broken, "lean_model_failures": len(lean_fail)}, no_input=True)
    # rules that are never selected anywhere on the lattice (not a C04 defect; reported)
    selected = {n: {o[1] for (o, _, _) in d.values() if o[0] == "U"} for n, d in lean.items()}
    never = [f"{n}: signature {i} ({fn['sigs'][i]['repr']}) @ {fn['sigs'][i]['impl']}" + (" [conditional]" if fn["sigs"][i]["cond"] is not None else "")
             for n, fn in sorted(m.functions.items()) for i in range(len(fn["sigs"])) if i not in selected.get(n, set())]
    # (e) evidence
    lat = {name: len(fn["tuples"]) for name, fn in sorted(m.functions.items())}
    forms_n = {fo["name"]: len(fo["items"]) for fo in m.forms}
    cov = {
        "evaluations": stats["evaluations"],
        "distinct_nontrivial": len(stats["nontrivial"]),
        "distinct": sum(lat.values()),
        "exhaustive": True,
        "rule": ("complete enumeration: every public call form (FORMS in harness/translators/dump_rules.py) on every combination of "
                 "its admitted argument domains — operator kinds = every concrete LinearOperator subclass found by reflection "
                 "(one representative parametrisation per @parametric kind), admitted algorithm classes per function, omitted vs "
                 "explicit optional arguments, keyword vs positional — and, where a conditional rule can match, every truth value of "
                 "its condition, steered through the annotation wrappers cola.SelfAdjoint/PSD/Stiefel/Unitary (forced by overwriting "
                 "`annotations` only where the kind fixes them itself) and a Product with non-square factors.  Each call is run on "
                 "real instances with plum's Resolver.resolve intercepted and compared with the Lean model's answer for that tuple.  "
                 "distinct = lattice tuples (function, argument classes, condition bits); non-trivial = at least two registered "
                 "signatures match the tuple (measured by the Lean model)"),
        "lattice_sizes": lat,
        "public_form_items": forms_n,
        "public_calls_executed": stats["calls"],
        "tuples_reached_without_forcing": len(stats["natural"]),
        "functions": len(m.functions),
        "signatures": sum(len(fn["sigs"]) for fn in m.functions.values()),
        "classes": len(m.classes),
        "kinds": [k["name"] + (" (stub instance)" if k["stub"] else "") for k in m.kinds],
        "skipped_modules": [s[0] for s in m.skipped_modules],
        "active_clauses": {n: [c["name"] for c in fn["clauses"]] for n, fn in m.functions.items() if fn["clauses"]},
        "inactive_clauses": m.inactive_clauses,
        "real_resolver_failures": len(failures),
        "mismatches": len(mismatches),
        "uncovered": len(uncovered),
        "samples": samples[:12],
        "never_selected_on_lattice": never,
        "timing_s": {"translator": round(t_translate, 1), "lean_gate": round(t_gate, 1), "correspondence": round(t_corr, 1)},
        "translator": tsum,
        "trusted_base_extra": [
            "harness/translators/dump_rules.py: reflection of plum's registry into RuleTable.lean, and the lattice tables FORMS / ALGS / DOMAINS (the statement of which calls the documentation admits)",
            "beartype's is_bearable / TypeHint order on the hints that occur equals the subclass table (checked by the translator on every pair of classes and hints, and end to end by the correspondence)",
        ],
    }
    if broken:
        cov["broken"] = broken
    common.write_evidence(ctx, gate, cov, assumptions=[
        "Operator kinds that cannot be constructed on the NumPy backend (Jacobian, Hessian, ConvolveND, Kernel, FFT, AdaNysPrecond) are represented by stub instances of the real class; rule selection only inspects the class, `annotations` and, for Product, the factor shapes",
        "one representative parametrisation per @parametric kind (e.g. Product[Dense, Dense]): no registered hint is a parametrised class, so all parametrisations of a kind have the same superclasses among the hints",
        "registration order is the one produced by `import cola` followed by the remaining modules in sorted order (the candidate loop is order dependent)",
        "errors raised by the selected rule are outside C04: calls are aborted after rule selection",
    ])
    if gate_err is not None:
        restore_committed_table()
    print(json.dumps({"tuples": cov["distinct"], "evaluations": cov["evaluations"], "distinct_nontrivial": cov["distinct_nontrivial"],
                      "calls": stats["calls"], "mismatches": len(mismatches), "real_failures": len(failures),
                      "uncovered": len(uncovered), "errors": len(errors), "gate": (gate or {}).get("obligations"),
                      "gate_broken": gate_err is not None, "timing_s": cov["timing_s"]}))
