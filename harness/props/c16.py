"""C16 — svd returns a valid (truncated) singular value decomposition, pinv(A) @ b the minimum-norm
least-squares solution.

Three parties per case
  real  cola.linalg.svd.svd.svd / cola.linalg.inverse.pinv.pinv in-process (NumPy backend + harness shim)
  code  lean/ColaVerif/Model/Svd.lean run by lean/DriverC16.lean in EXACT rational arithmetic: rule selection
        (class through Op.core, Auto threshold), get_slice positions, argsort, which Gram operator, the
        kind trees / shapes / dtypes / annotations of the returned operators, the selected columns, the
        back-substitution U = (A @ V @ inv(Sigma)).to_dense() resp. V = (inv(Sigma) @ U.H @ A).to_dense().conj().T
        evaluated through the operator code model (Op.td) and, as the SPEC side, by the matrix formula;
        the operator each pinv rule builds (LSTSQSolve, PSD(Iter(A.H @ A, CG) + cons*I) @ A.H, reciprocals).
        LAPACK svd, lanczos_eigs, sqrt are PARAMETERS of the model: the harness obtains their values from the
        same library calls on the same inputs (deterministic) and hands them to the driver as exact dyadic
        rationals, so everything the model itself does (selection, slicing, products) is compared on identical data.
  spec  the property statement, evaluated with NumPy on the REAL outputs: orthonormal columns of U and V (1e-8),
        Sigma diagonal, real, non-negative; U Sigma V^H = A (all triplets, 1e-8 * sigma_max) or = the truncated SVD of
        np.linalg.svd on the k largest (which='LM') / k smallest (which='SM') singular values (Krylov rules, 1e-6);
        every declared annotation of U and V true; pinv(A) @ b = np.linalg.pinv(A) @ b (1e-8 relative; CG: TOL_CG).
        For the structural rules (exact Gaussian-rational payloads) the driver evaluates the property exactly.

Tolerances.  real vs code: selection-only paths (DenseSVD factors, Sigma, structural rules on real dtypes) are compared
EXACTLY; sliced Krylov factor 1e-12 (the real code multiplies Q @ Y in floating point, the model exactly);
back-substituted factor 1e-9; reciprocals 4 ulp.  CG: `CG(tol=1e-12)` stops at a relative residual 1e-12 of the normal
equations M x = A^H b, M = A^H A with cond(M) = (sigma_max/sigma_min)^2 <= 256, so |x - A^+ b| <= 256e-12 |x|; the
regulariser adds cons * A^H b with cons = 1e-15 * max(m, n) <= 8e-15 and |A^H b| <= sigma_max^2 |x| = 64 |x|: 5e-13 |x|.
TOL_CG = 1e-8 (relative to |x|) leaves a factor 30 for rounding in the recurrences.

The Diagonal rule of svd takes `xnp.abs` as a further parameter (values NumPy computed, handed to the driver); its diagonal
payloads have any sign / phase and zeros; when every modulus is exactly representable (real, imaginary, Pythagorean entries)
the driver evaluates the property EXACTLY, otherwise the numerical oracle decides and U is tied to 4 ulp.

Operator kinds (round 2).  `KindGen` builds a well-conditioned, full-rank instance (cond <= 16, checked numerically on the
represented matrix) of EVERY operator kind of the case language - Dense, no_dispatch, Triangular, Sparse, ScalarMul, Identity,
Diagonal, Tridiagonal, Permutation, Householder, Product (square factors, tall @ square, square @ wide, WIDE @ TALL and
wide @ square @ tall: square products of non-square factors, Diagonal @ Dense, ScalarMul @ Dense), Sum, Kronecker, KronSum,
BlockDiag (with multiplicities), Transpose / Adjoint (of Dense and of Product), Sliced, Concatenated (both axes), and the declared
PSD / SelfAdjoint / Unitary / Stiefel wrappers - and every one goes through the same three-way comparison for pinv (all four
algorithm arguments, against np.linalg.pinv of the driver's `den`) and svd (DenseSVD; Lanczos where the singular values are
separated).  `dispatch_stream` reads the LIVE plum tables of `pinv` and `svd` (signatures, precedences, conditions): every
signature the model does not know (MODELLED) is a broken correspondence, and the catalogue instances that match its types
AND its condition (evaluated by calling the live condition) are searched for a concrete failing input.

LOBPCG.  cola's `lobpcg` computes in single precision (float32, complex64 for complex operators;
lobpcg.py casts every product): the claim checked is the property at the SINGLE-precision tolerances (x SINGLE_FACTOR), for real
and complex operators, which in {'LM', 'SM'} (the rule passes largest = (which == 'LM')), k < n, through the full three-way
comparison.  k >= n is the recorded finding `lobpcg-k-ge-n` (known_findings.json; Model/Svd.lean: lobpcgClauses): excused per case
only when cols <= k AND the failure is exactly "n - 1 triplets returned"; the returned n - 1 triplets must satisfy the rest.

Contracts observed on the REAL library values, per case (round 3): the eigenvector operator the eigensolver returned is
well-formed and of the shape Product(Orthonormal(Dense Q), Dense Y) / Dense (`w_good`, `w_shape`; C16_lanczos_W_good derives
Op.Good from the shape), the eigenvalues it returned are real and ascending (`eigs_ascending`; Svd.EigsSorted), the singular
values np.linalg.svd returned are real, non-negative and descending (`lapack_descending`; Svd.LapackSorted).  The exact inputs
of the Lean witness theorems (Lemmas/SvdWitness.lean) run through the same comparison (`witness_cases`).

Partial Lanczos runs (max_iters < Gram size) return Ritz triplets, not singular triplets; what the property claims for them
and what is checked (at the same tolerances): orthonormal U and V, Sigma diagonal real non-negative, the residual identity
U Sigma V^H = A V V^H (tall / square) resp. U U^H A (wide), and sigma_min(A) <= Sigma <= sigma_max(A) (C16_krylov_tall_ritz).
Larger sizes (up to 60 x 40; thorough 120 x 80) run on the float side only (real code + oracle, no exact model run).

Reading of the property (documented, see Properties/C16.lean): DenseSVD ignores k and which and always returns all
min(m, n) triplets (then U Sigma V^H = A is required); "best rank-k approximation" is the truncated SVD on the k largest /
smallest singular values the eigensolver holds (C16_svd_krylov_tall_sorted; Eckart-Young itself is not re-proved); full rank is a hypothesis of the pinv statement (zeros on a
Diagonal / ScalarMul are outside: the code returns inf there).
"""
import collections
import importlib
import json
import random
import warnings
from fractions import Fraction

import numpy as np

import common
import oracle
import build
import treecheck

warnings.simplefilter("ignore")

MODULE = "ColaVerif.Properties.C16"
SUBMODULES = ["ColaVerif.Properties.C16.Witnesses"]    # round 5: wide branch / 'SM' / complex carrier / abs_contract witnesses
DRIVER = "DriverC16.lean"

# Recorded findings are read from /verif/known_findings.json through common.known_clauses (no provisional list).
# A property failure is excused ONLY if the failure string is attributed to a recorded clause (prefix "[clause] ") by a
# decidable predicate on the input evaluated in svd_oracle, AND the model lists that clause for the same case
# (Svd.lobpcgClauses: cols <= k, theorem C16_lobpcg_clauses).  Every other failure of the same case is a violation.
KGE = "lobpcg-k-ge-n"


def attributed(fail):
    """the recorded clause a failure string of svd_oracle is attributed to, or None"""
    if fail.startswith("[") and "] " in fail:
        return fail[1:fail.index("] ")]
    return None


NPROC = 6        # Lean driver processes (start-up dominated; the machine is shared)
NPROC_PLAN = 2

TOL_ORTH = 1e-8
TOL_FULL = 1e-8
TOL_TRUNC = 1e-6
TOL_PINV = 1e-8
TOL_CG = 1e-8
TOL_SLICED = 1e-12
TOL_BACK = 1e-9
SINGLE_FACTOR = 1e4   # float32 / complex64 operands: oracle tolerances 1e-4 (LAPACK single precision)

KIND16 = dict(treecheck.KIND)
KIND16.update({"IterativeOperatorWInfo": "iter", "LSTSQSolve": "lstsq"})


# ------------------------------------------------------------------ exact transport
def exq(x):
    x = float(x)
    if x == int(x):
        return int(x)
    f = Fraction(x)
    return {"q": [f.numerator, f.denominator]}


def exz(z):
    z = complex(z)
    if z.imag == 0:
        return exq(z.real)
    return [exq(z.real), exq(z.imag)]


def exmat(a):
    a = np.asarray(a)
    return [[exz(v) for v in row] for row in a]


def exvec(a):
    return [exz(v) for v in np.asarray(a)]


def fq(x):
    if isinstance(x, str):
        n, d = x.split("/")
        return float(Fraction(int(n), int(d)))
    return float(x)


def from_exact(m):
    """driver matrix ([[ [re, im] … ] … ]) -> complex ndarray (correctly rounded)"""
    if not m:
        return np.zeros((0, 0), dtype=np.complex128)
    return np.array([[complex(fq(z[0]), fq(z[1])) for z in row] for row in m], dtype=np.complex128).reshape(len(m), -1)


def skel16(op):
    name = type(op).__name__.split("[")[0]
    k = KIND16.get(name, "?" + name)
    kids = []
    if k in ("prod", "sum", "kron", "kronsum", "bdiag", "concat"):
        kids = list(op.Ms)
    elif k in ("T", "H", "slice", "iter"):
        kids = [op.A]
    return [k, treecheck.ann_list(op)] + [skel16(x) for x in kids]


def dtn(dtype):
    return build.dtname(np.dtype(dtype))


# ------------------------------------------------------------------ library handles
class Lib:
    def __init__(self):
        import shim  # noqa: F401
        import cola
        self.cola = cola
        self.svdmod = importlib.import_module("cola.linalg.svd.svd")
        self.pinvmod = importlib.import_module("cola.linalg.inverse.pinv")
        from cola.linalg.decompositions.decompositions import Lanczos, get_slice
        from cola.linalg.decompositions.lanczos import lanczos_eigs
        from cola.linalg.inverse.cg import CG
        import sys
        self.Lanczos, self.get_slice, self.lanczos_eigs, self.CG = Lanczos, get_slice, lanczos_eigs, CG
        self.LOBPCG = sys.modules["cola.linalg.eig.lobpcg"].LOBPCG
        self.lobpcg = sys.modules["cola.linalg.eig.lobpcg"].lobpcg
        self.Auto = cola.linalg.Auto

    def svd_alg(self, name, g):
        if name == "omitted":
            return None
        if name == "auto":
            return self.Auto()
        if name == "dense":
            return self.svdmod.DenseSVD()
        if name == "lanczos":
            return self.Lanczos(max_iters=g, tol=1e-12)
        if name == "lobpcg":
            return self.LOBPCG(max_iters=300)
        raise ValueError(name)

    def pinv_alg(self, name):
        if name == "omitted":
            return None
        if name == "auto":
            return self.Auto()
        if name == "lstsq":
            return self.pinvmod.LSTSQ()
        if name == "cg":
            return self.CG(tol=1e-12)
        raise ValueError(name)


LIB = None


def lib():
    global LIB
    if LIB is None:
        LIB = Lib()
    return LIB


# ------------------------------------------------------------------ generators
def unitary(g, n, cplx):
    B = g.standard_normal((n, n)) + (1j * g.standard_normal((n, n)) if cplx else 0)
    Q, Rr = np.linalg.qr(B)
    return Q


def make_matrix(g, m, n, cplx):
    """A = U0 diag(sigma) V0^H, sigma a geometric progression inside [0.5, 8] (well separated), full rank"""
    r = min(m, n)
    U0, V0 = unitary(g, m, cplx), unitary(g, n, cplx)
    hi, lo = g.uniform(4.0, 8.0), g.uniform(0.5, 1.0)
    sig = hi * (lo / hi) ** (np.arange(r) / max(r - 1, 1))
    A = (U0[:, :r] * sig) @ V0[:, :r].conj().T
    return A, sig, U0[:, :r], V0[:, :r]


WRAPPERS = ["dense", "generic", "sum", "prod", "T", "H"]


def make_operand(g, m, n, cplx, wrapper):
    """-> (case-language expression, nominal dense matrix)"""
    A, sig, U0, V0 = make_matrix(g, m, n, cplx)
    dt = "c128" if cplx else "f64"

    def dense(M):
        return ["dense", dt, int(M.shape[0]), int(M.shape[1]), exmat(M)]
    if wrapper == "dense":
        e = dense(A)
    elif wrapper == "generic":
        e = ["generic", dense(A)]
    elif wrapper == "sum":
        N = 0.25 * (g.standard_normal((m, n)) + (1j * g.standard_normal((m, n)) if cplx else 0))
        e = ["sum", dense(A / 2 + N), dense(A / 2 - N)]
    elif wrapper == "prod":
        e = ["prod", dense(U0 * np.sqrt(sig)), dense(np.sqrt(sig)[:, None] * V0.conj().T)]
    elif wrapper == "T":
        e = ["T", dense(A.T)]
    elif wrapper == "H":
        e = ["H", dense(A.conj().T)]
    else:
        raise ValueError(wrapper)
    return e


# ------------------------------------------------------------------ operator kinds (round 2)
COND_MAX = 16.0     # the generator's conditioning bound (the same as make_matrix: sigma in [0.5, 8])
SEP_MIN = 0.03      # Lanczos cases need separated singular values: min_i (s_i - s_{i+1}) / s_i >= SEP_MIN


def wc_mat(g, m, n, cplx, lo=1.0, hi=2.0):
    """dense m x n, singular values spread over [lo, hi] (jittered), random singular vectors"""
    r = min(m, n)
    U0, V0 = unitary(g, m, cplx), unitary(g, n, cplx)
    sig = hi * (lo / hi) ** (np.arange(r) / max(r - 1, 1)) * g.uniform(0.97, 1.03, r)
    return (U0[:, :r] * sig) @ V0[:, :r].conj().T


def hpd_mat(g, n, cplx, lo=1.0, hi=3.0):
    Q = unitary(g, n, cplx)
    ev = hi * (lo / hi) ** (np.arange(n) / max(n - 1, 1)) * g.uniform(0.97, 1.03, n)
    M = (Q * ev) @ Q.conj().T
    return (M + M.conj().T) / 2      # exactly Hermitian


def herm_indef_mat(g, n, cplx):
    Q = unitary(g, n, cplx)
    ev = np.linspace(2.0, 1.0, n) * g.uniform(0.97, 1.03, n) * np.where(np.arange(n) % 2 == 0, 1.0, -1.0)
    M = (Q * ev) @ Q.conj().T
    return (M + M.conj().T) / 2


def kdt(cplx):
    return "c128" if cplx else "f64"


def kdense(M, cplx):
    M = np.asarray(M)
    return ["dense", kdt(cplx), int(M.shape[0]), int(M.shape[1]), exmat(M)]


def shape_of_class(rng, cls, lo=2, hi=6):
    """(m, n) of the requested class"""
    if cls == "square":
        n = rng.randint(lo, hi)
        return n, n
    a, b = rng.randint(lo, hi - 1), rng.randint(1, 3)
    return (a + b, a) if cls == "tall" else (a, a + b)


# kind label -> shape classes it is generated in
KIND_TABLE = {
    "dense": ["tall", "wide", "square"], "generic": ["tall", "wide", "square"], "sparse": ["tall", "wide", "square"],
    "tri": ["square"], "scalar": ["square"], "eye": ["square"], "diag": ["square"], "tridiag": ["square"], "perm": ["square"],
    "house": ["square"],
    "prod-sq-sq": ["square"], "prod-tall-sq": ["tall"], "prod-sq-wide": ["wide"], "prod-tall-tall": ["tall"],
    "prod-wide-tall": ["square"], "prod-wide-sq-tall": ["square"], "prod-diag-dense": ["tall", "square"],
    "prod-scalar-dense": ["wide", "square"], "prod-dense-eye": ["tall"],
    "sum": ["tall", "wide", "square"], "sum-diag-dense": ["square"], "sum-3": ["square"],
    "kron": ["tall", "wide", "square"], "kron-diag-dense": ["square"], "kronsum": ["square"],
    "bdiag": ["tall", "wide", "square"], "bdiag-mult": ["tall", "square"],
    "T": ["tall", "wide", "square"], "H": ["tall", "wide", "square"], "T-prod": ["tall", "wide"], "H-sum": ["square"],
    "slice": ["tall", "wide", "square"], "concat0": ["tall", "square"], "concat1": ["wide", "square"],
    "ann-psd": ["square"], "ann-selfadjoint": ["square"], "ann-unitary": ["square"], "ann-stiefel": ["tall"],
    "ann-psd-kron": ["square"], "ann-psd-generic": ["square"],
}


class KindGen:
    """well-conditioned full-rank instances of every operator kind of the case language"""

    def __init__(self, rng, g):
        self.rng, self.g = rng, g

    def d(self, m, n, cplx, lo=1.0, hi=2.0):
        return kdense(wc_mat(self.g, m, n, cplx, lo, hi), cplx)

    def diag_entries(self, n, cplx):
        mag = np.linspace(3.0, 1.0, n) * self.g.uniform(0.95, 1.05, n) if n > 1 else np.array([2.0])
        ph = np.exp(1j * self.g.uniform(0, 2 * np.pi, n)) if cplx else np.where(self.g.random(n) < 0.5, 1.0, -1.0)
        return self.g.permutation(mag * ph)

    def expr(self, kind, cls, cplx):
        rng, g, d = self.rng, self.g, self.d
        dt = kdt(cplx)
        m, n = shape_of_class(rng, cls)
        if kind == "dense":
            return d(m, n, cplx, 0.6, 6.0)
        if kind == "generic":
            return ["generic", d(m, n, cplx, 0.8, 5.0)]
        if kind == "sparse":
            M = wc_mat(g, m, n, cplx, 1.0, 4.0)
            return ["sparse", dt, m, n, [[i, j, exz(M[i, j])] for i in range(m) for j in range(n)]]
        if kind == "tri":
            M = np.tril(0.35 * (g.standard_normal((n, n)) + (1j * g.standard_normal((n, n)) if cplx else 0)), -1) + np.diag(self.diag_entries(n, cplx))
            lower = rng.random() < 0.5
            M = M if lower else M.T
            return ["tri", dt, n, n, lower, exmat(M)]
        if kind == "scalar":
            c = complex(self.diag_entries(1, cplx)[0])
            return ["scalar", dt, exz(c), n]
        if kind == "eye":
            return ["eye", dt, n]
        if kind == "diag":
            return ["diag", dt, exvec(self.diag_entries(n, cplx))]
        if kind == "tridiag":
            be = self.diag_entries(n, cplx) + 2.0 * np.sign(np.real(self.diag_entries(n, cplx)) + 1e-9)
            al = 0.5 * (g.standard_normal(n - 1) + (1j * g.standard_normal(n - 1) if cplx else 0))
            ga = 0.5 * (g.standard_normal(n - 1) + (1j * g.standard_normal(n - 1) if cplx else 0))
            return ["tridiag", dt, exvec(al), exvec(be), exvec(ga)]
        if kind == "perm":
            p = list(range(n))
            rng.shuffle(p)
            return ["perm", dt, p]
        if kind == "house":
            v = g.standard_normal(n) + (1j * g.standard_normal(n) if cplx else 0)
            beta = float(g.uniform(0.4, 0.7) / np.real(np.vdot(v, v)))
            return ["house", dt, exvec(v), exq(beta)]
        if kind == "prod-sq-sq":
            return ["prod", d(n, n, cplx), d(n, n, cplx)]
        if kind == "prod-tall-sq":
            return ["prod", d(m, n, cplx), d(n, n, cplx)]
        if kind == "prod-sq-wide":
            return ["prod", d(m, m, cplx), d(m, n, cplx)]
        if kind == "prod-tall-tall":
            p = m - 1 if m - 1 > n else m
            return ["prod", d(m + 1, p, cplx), d(p, n, cplx)] if p > n else ["prod", d(m, n, cplx), d(n, n, cplx)]
        if kind == "prod-wide-tall":           # a SQUARE product of non-square factors (inner dimension larger)
            p = n + rng.randint(1, 3)
            return ["prod", d(n, p, cplx), d(p, n, cplx)]
        if kind == "prod-wide-sq-tall":
            p = n + rng.randint(1, 2)
            return ["prod", d(n, p, cplx), d(p, p, cplx, 1.0, 1.5), d(p, n, cplx)]
        if kind == "prod-diag-dense":
            return ["prod", ["diag", dt, exvec(self.diag_entries(m, cplx))], d(m, n, cplx)]
        if kind == "prod-scalar-dense":
            return ["prod", ["scalar", dt, exz(complex(self.diag_entries(1, cplx)[0])), m], d(m, n, cplx)]
        if kind == "prod-dense-eye":
            return ["prod", d(m, n, cplx, 0.8, 4.0), ["eye", dt, n]]
        if kind == "sum":
            A = wc_mat(g, m, n, cplx, 0.8, 5.0)
            N = 0.25 * (g.standard_normal((m, n)) + (1j * g.standard_normal((m, n)) if cplx else 0))
            return ["sum", kdense(A / 2 + N, cplx), kdense(A / 2 - N, cplx)]
        if kind == "sum-diag-dense":
            return ["sum", ["diag", dt, exvec(4.0 + np.abs(self.diag_entries(n, cplx)))], d(n, n, cplx, 0.5, 1.5)]
        if kind == "sum-3":
            return ["sum", kdense(hpd_mat(g, n, cplx), cplx), ["scalar", dt, 2, n], ["diag", dt, exvec(np.abs(self.diag_entries(n, cplx)))]]
        if kind == "kron":
            if cls == "square":
                a, b = rng.choice([(2, 2), (2, 3), (3, 2)])
                return ["kron", d(a, a, cplx), d(b, b, cplx)]
            (a, b), (c, e) = ((3, 2), (2, 1)) if rng.random() < 0.5 else ((2, 2), (3, 2))
            X, Y = ((a, b), (c, e)) if cls == "tall" else ((b, a), (e, c))
            return ["kron", d(X[0], X[1], cplx), d(Y[0], Y[1], cplx)]
        if kind == "kron-diag-dense":
            a, b = rng.choice([(2, 3), (3, 2), (2, 2)])
            return ["kron", ["diag", dt, exvec(self.diag_entries(a, cplx))], d(b, b, cplx)]
        if kind == "kronsum":
            a, b = rng.choice([(2, 2), (2, 3), (3, 2)])
            return ["kronsum", kdense(hpd_mat(g, a, cplx), cplx), kdense(hpd_mat(g, b, cplx, 1.0, 2.0), cplx)]
        if kind == "bdiag":
            if cls == "square":
                return ["bdiag", [d(2, 2, cplx), d(3, 3, cplx, 1.0, 2.5), ["diag", dt, exvec(self.diag_entries(2, cplx))]], [1, 1, 1]]
            X, Y = ((3, 2), (2, 1)) if cls == "tall" else ((2, 3), (1, 2))
            return ["bdiag", [d(X[0], X[1], cplx), d(Y[0], Y[1], cplx, 1.5, 2.5)], [1, 1]]
        if kind == "bdiag-mult":
            if cls == "square":
                return ["bdiag", [d(2, 2, cplx), ["scalar", dt, exz(complex(self.diag_entries(1, cplx)[0])), 1]], [2, 3]]
            return ["bdiag", [d(3, 2, cplx), d(2, 2, cplx, 1.2, 2.6)], [2, 1]]
        if kind == "T":
            return ["T", d(n, m, cplx, 0.7, 5.0)]
        if kind == "H":
            return ["H", d(n, m, cplx, 0.7, 5.0)]
        if kind == "T-prod":       # (B C)^T of shape m x n: B C is n x m
            p = max(m, n)
            return ["T", ["prod", d(n, p, cplx), d(p, m, cplx)]]
        if kind == "H-sum":
            return ["H", ["sum", d(n, n, cplx, 2.0, 4.0), ["diag", dt, exvec(0.3 * self.diag_entries(n, cplx))]]]
        if kind == "slice":
            M = wc_mat(g, m + 2, n + 1, cplx, 1.0, 3.0)
            return ["slice", kdense(M, cplx), {"s": [1, m + 1, None]}, {"s": [None, n, None]}]
        if kind == "concat0":
            a = rng.randint(1, m - 1)
            return ["concat", 0, d(a, n, cplx, 1.0, 3.0), d(m - a, n, cplx, 1.0, 3.0)]
        if kind == "concat1":
            a = rng.randint(1, n - 1)
            return ["concat", 1, d(m, a, cplx, 1.0, 3.0), d(m, n - a, cplx, 1.0, 3.0)]
        if kind == "ann-psd":
            return ["ann", "PSD", kdense(hpd_mat(g, n, cplx, 0.7, 5.0), cplx)]
        if kind == "ann-selfadjoint":
            return ["ann", "SelfAdjoint", kdense(herm_indef_mat(g, n, cplx), cplx)]
        if kind == "ann-unitary":
            return ["ann", "Unitary", kdense(unitary(g, n, cplx), cplx)]
        if kind == "ann-stiefel":
            return ["ann", "Stiefel", kdense(unitary(g, m, cplx)[:, :n], cplx)]
        if kind == "ann-psd-kron":
            return ["ann", "PSD", ["kron", kdense(hpd_mat(g, 2, cplx), cplx), kdense(hpd_mat(g, 3, cplx, 1.0, 2.0), cplx)]]
        if kind == "ann-psd-generic":
            return ["ann", "PSD", ["generic", kdense(hpd_mat(g, n, cplx), cplx)]]
        raise ValueError(kind)

    def instance(self, kind, cls, cplx, tries=40):
        """-> dict(kind, cls, cplx, op, cond, sep) with cond <= COND_MAX; the instance with the best separation of `tries`
        (stops at the first one with sep >= SEP_MIN); None if no candidate is well conditioned"""
        best = None
        for _ in range(tries):
            e = self.expr(kind, cls, cplx)
            try:
                Ad = np.asarray(build.Builder().build(e).to_dense())
            except Exception:  # noqa: BLE001
                continue
            if not finite(Ad) or min(Ad.shape) == 0:
                continue
            sv = np.linalg.svd(Ad, compute_uv=False)
            if sv[-1] <= 0 or sv[0] / sv[-1] > COND_MAX or sv[0] > 64 or sv[-1] < 1 / 64:
                continue
            sep = float(np.min((sv[:-1] - sv[1:]) / sv[:-1])) if len(sv) > 1 else 1.0
            cand = {"kind": kind, "cls": cls, "cplx": cplx, "op": e, "cond": float(sv[0] / sv[-1]), "sep": sep,
                    "shape": [int(Ad.shape[0]), int(Ad.shape[1])]}
            if best is None or sep > best["sep"]:
                best = cand
            if sep >= SEP_MIN:
                break
        return best

    def catalogue(self, thorough):
        out, missing = [], []
        for kind, classes in KIND_TABLE.items():
            cls_list = classes if thorough else [self.rng.choice(classes)]
            if not thorough and kind.startswith("prod"):
                cls_list = classes
            for cls in cls_list:
                for cplx in ((False, True) if thorough or kind.startswith(("prod", "ann")) else (self.rng.random() < 0.5,)):
                    inst = self.instance(kind, cls, cplx)
                    if inst is None:
                        missing.append([kind, cls, cplx])
                    else:
                        out.append(inst)
        return out, missing


def shape_list(rng, thorough):
    shapes = [(m, n) for m in range(2, 9) for n in range(2, 9)]
    if thorough:
        return shapes
    tall = [s for s in shapes if s[0] > s[1]]
    wide = [s for s in shapes if s[0] < s[1]]
    sq = [s for s in shapes if s[0] == s[1]]
    return rng.sample(tall, 6) + rng.sample(wide, 6) + rng.sample(sq, 3)


def svd_cases(ctx, rng, g):
    cases = []
    reps = 3 if ctx.thorough else 1
    for _ in range(reps):
        for (m, n) in shape_list(rng, ctx.thorough):
            for cplx in (False, True):
                wrapper = rng.choice(WRAPPERS) if rng.random() < 0.6 else "dense"
                e = make_operand(g, m, n, cplx, wrapper)
                r = min(m, n)
                ks = list(range(1, r + 1))
                if not ctx.thorough and len(ks) > 4:
                    ks = sorted(set(rng.sample(ks, 3) + [1, r]))
                for k in ks:
                    for which in ("LM", "SM"):
                        cases.append({"fn": "svd", "op": e, "k": k, "which": which, "alg": "lanczos", "wrapper": wrapper})
                # partial runs: max_iters = j < Gram size (Ritz triplets; what is claimed for them: see the module docstring)
                gsz = gram_size(m, n)
                if gsz > 1:
                    js = list(range(1, gsz)) if ctx.thorough else rng.sample(range(1, gsz), min(2, gsz - 1))
                    for j in js:
                        for k in sorted({1, j, rng.randint(1, j)}):
                            cases.append({"fn": "svd", "op": e, "k": k, "which": rng.choice(["LM", "SM"]), "alg": "lanczos", "max_iters": j,
                                          "wrapper": wrapper})
                # selection-free algorithms: one k / which each (DenseSVD ignores both; recorded in the docstring)
                for alg in ("omitted", "auto", "dense"):
                    cases.append({"fn": "svd", "op": e, "k": rng.choice(list(range(1, r + 1))), "which": rng.choice(["LM", "SM"]),
                                  "alg": alg, "wrapper": wrapper})
                if rng.random() < 0.15:
                    cases.append({"fn": "svd", "op": e, "k": rng.randint(1, r), "which": "XX", "alg": rng.choice(["lanczos", "dense"]),
                                  "wrapper": wrapper})
    # single precision: DenseSVD only (exact selection tie; oracle tolerances scaled by SINGLE_FACTOR)
    for (m, n) in rng.sample([(m, n) for m in range(2, 7) for n in range(2, 7)], 4 * reps):
        cplx = rng.random() < 0.5
        A, *_ = make_matrix(g, m, n, cplx)
        A = A.astype(np.complex64 if cplx else np.float32)
        e = ["dense", "c64" if cplx else "f32", m, n, exmat(A)]
        cases.append({"fn": "svd", "op": e, "k": rng.randint(1, min(m, n)), "which": "LM", "alg": rng.choice(["omitted", "auto", "dense"]),
                      "wrapper": "dense-single"})
    return cases


def kind_svd_cases(ctx, rng, cat):
    """svd on every operator kind: DenseSVD (one case), Lanczos full run for k = min(m, n) and one partial k (LM / SM) when the
    singular values are separated; structural Identity / Diagonal kinds under every algorithm"""
    cases = []
    for inst in cat:
        e, (m, n) = inst["op"], inst["shape"]
        r = min(m, n)
        w = "kind:" + inst["kind"]
        cases.append({"fn": "svd", "op": e, "k": rng.randint(1, r), "which": rng.choice(["LM", "SM"]), "alg": rng.choice(["omitted", "auto", "dense"]),
                      "wrapper": w})
        if inst["sep"] >= SEP_MIN:
            cases.append({"fn": "svd", "op": e, "k": r, "which": rng.choice(["LM", "SM"]), "alg": "lanczos", "wrapper": w})
            if r > 1:
                cases.append({"fn": "svd", "op": e, "k": rng.randint(1, r - 1), "which": rng.choice(["LM", "SM"]), "alg": "lanczos", "wrapper": w})
            if ctx.thorough and r > 2:
                j = rng.randint(1, r - 1)
                cases.append({"fn": "svd", "op": e, "k": rng.randint(1, j), "which": rng.choice(["LM", "SM"]), "alg": "lanczos", "max_iters": j,
                              "wrapper": w})
    return cases


def kind_pinv_cases(ctx, rng, cat):
    cases = []
    for inst in cat:
        for alg in ("omitted", "auto", "lstsq", "cg"):
            cases.append({"fn": "pinv", "op": inst["op"], "alg": alg, "wrapper": "kind:" + inst["kind"], "rhs_seed": rng.getrandbits(32)})
    return cases


def gz(rng, dt, nonzero=True, real_only=False):
    cplx = dt in ("c64", "c128") and not real_only
    while True:
        if cplx and rng.random() < 0.7:
            v = [rng.randint(-4, 4), rng.randint(-4, 4)]
            if v[1] == 0:
                v = v[0]
        else:
            v = rng.randint(-4, 4)
        if v != 0 and v != [0, 0] or not nonzero:
            return v


PYTHAG = [(3, 4), (4, 3), (-3, 4), (3, -4), (-4, -3), (6, 8), (5, 12), (-12, 5), (8, -6)]


def svd_diag_entry(rng, dt):
    """diagonal entries for the svd rule: any sign / phase, zeros; mostly with an exactly representable modulus"""
    u = rng.random()
    if dt in ("c64", "c128"):
        if u < 0.3:
            return rng.randint(-4, 4)
        if u < 0.5:
            return [0, rng.choice([-3, -2, -1, 1, 2, 3])]
        if u < 0.8:
            a, b = rng.choice(PYTHAG)
            return [a, b]
        return [rng.randint(-4, 4), rng.randint(-4, 4)]      # modulus irrational in general
    return rng.randint(-4, 4)


def structural_ops(rng, fn):
    """operands of the structural rules (exact small Gaussian-integer payloads, full rank)"""
    out = []
    for dt in ("f32", "f64", "c64", "c128"):
        n = rng.randint(1, 5)
        out.append(["eye", dt, n])
        out.append(["ann", "PSD", ["eye", dt, rng.randint(1, 4)]])
        n = rng.randint(1, 5)
        if fn == "svd":
            for _ in range(2):
                out.append(["diag", dt, [svd_diag_entry(rng, dt) for _ in range(rng.randint(1, 5))]])
        out.append(["diag", dt, [gz(rng, dt) for _ in range(n)]])
        out.append(["diag", dt, [rng.randint(1, 4) for _ in range(rng.randint(1, 5))]])
        out.append(["ann", "PSD", ["diag", dt, [rng.randint(1, 4) for _ in range(rng.randint(1, 4))]]])
        if fn == "pinv":
            out.append(["scalar", dt, gz(rng, dt), rng.randint(1, 4)])
            out.append(["ann", "SelfAdjoint", ["scalar", dt, rng.choice([-3, -2, 2, 3]), rng.randint(1, 4)]])
            p = list(range(rng.randint(1, 6)))
            rng.shuffle(p)
            out.append(["perm", dt, p])
            p = list(range(rng.randint(2, 5)))
            rng.shuffle(p)
            out.append(["ann", "Unitary", ["perm", dt, p]])
    return out


def svd_structural_cases(ctx, rng):
    cases = []
    for rep in range(3 if ctx.thorough else 1):
        for e in structural_ops(rng, "svd"):
            n = e[2] if e[0] == "eye" else (len(e[2]) if e[0] == "diag" else (e[2][2] if e[2][0] == "eye" else len(e[2][2])))
            for alg in ("omitted", "auto", "dense", "lanczos", "lobpcg"):
                cases.append({"fn": "svd", "op": e, "k": rng.randint(1, n), "which": rng.choice(["LM", "SM"]), "alg": alg,
                              "wrapper": "structural"})
    return cases


def pinv_cases(ctx, rng, g):
    cases = []
    reps = 3 if ctx.thorough else 1
    for _ in range(reps):
        for (m, n) in shape_list(rng, ctx.thorough):
            for cplx in (False, True):
                wrapper = rng.choice(WRAPPERS) if rng.random() < 0.6 else "dense"
                e = make_operand(g, m, n, cplx, wrapper)
                for alg in ("omitted", "auto", "lstsq", "cg"):
                    cases.append({"fn": "pinv", "op": e, "alg": alg, "wrapper": wrapper, "rhs_seed": rng.getrandbits(32)})
        # float32: kind tree / regulariser tie only (no numerical oracle: cons = 1e-6 * max(m, n) there)
        for (m, n) in rng.sample([(m, n) for m in range(2, 6) for n in range(2, 6)], 4):
            A, *_ = make_matrix(g, m, n, False)
            e = ["dense", "f32", m, n, exmat(A.astype(np.float32))]
            cases.append({"fn": "pinv", "op": e, "alg": "cg", "wrapper": "dense-f32", "rhs_seed": None})
            Ac, *_ = make_matrix(g, m, n, True)
            e = ["dense", "c64", m, n, exmat(Ac.astype(np.complex64))]
            cases.append({"fn": "pinv", "op": e, "alg": "cg", "wrapper": "dense-c64", "rhs_seed": None})
        for e in structural_ops(rng, "pinv"):
            for alg in ("omitted", "auto", "lstsq", "cg"):
                cases.append({"fn": "pinv", "op": e, "alg": alg, "wrapper": "structural", "rhs_seed": rng.getrandbits(32)})
    return cases


# ------------------------------------------------------------------ real runs
def err_obs(ex):
    return {"err": treecheck.err_class(ex), "msg": str(ex)[:200]}


def gram_size(m, n):
    return n if n <= m else m


def run_real_svd(case, A):
    L = lib()
    m, n = A.shape
    alg = L.svd_alg(case["alg"], case.get("max_iters") or gram_size(m, n))
    if alg is None:
        return L.svdmod.svd(A, case["k"], case["which"])
    return L.svdmod.svd(A, case["k"], case["which"], alg)


def factor_obs(X):
    D = np.asarray(X.to_dense())
    return {"rows": int(X.shape[0]), "cols": int(X.shape[1]), "dtype": dtn(X.dtype), "anns": treecheck.ann_list(X),
            "skel": skel16(X), "v": D}


def annotations_true(X, D, tol=None):
    bad = []
    TOL_ORTH = tol if tol is not None else globals()["TOL_ORTH"]
    r, c = D.shape
    for a in treecheck.ann_list(X):
        if a == "Stiefel":
            ok = np.abs(D.conj().T @ D - np.eye(c)).max(initial=0) <= TOL_ORTH
        elif a == "Unitary":
            ok = r == c and np.abs(D.conj().T @ D - np.eye(c)).max(initial=0) <= TOL_ORTH and np.abs(D @ D.conj().T - np.eye(r)).max(initial=0) <= TOL_ORTH
        elif a in ("SelfAdjoint", "PSD"):
            ok = r == c and np.abs(D - D.conj().T).max(initial=0) <= TOL_ORTH * max(1.0, np.abs(D).max(initial=0))
            if ok and a == "PSD" and r > 0:
                ok = np.linalg.eigvalsh((D + D.conj().T) / 2).min() >= -TOL_ORTH
        else:
            ok = False
        if not ok:
            bad.append(a)
    return bad


def is_partial(case, rule, m, n):
    """a Lanczos run that stops before the Gram dimension: Ritz triplets, not singular triplets"""
    return rule == "lanczos" and case.get("max_iters") is not None and case["max_iters"] < gram_size(m, n)


def svd_oracle(case, rule, Ad, U, S, V):
    """property statement on the REAL outputs; -> list of failure strings"""
    fails = []
    m, n = Ad.shape
    r = min(m, n)
    Ud, Sd, Vd = np.asarray(U.to_dense()), np.asarray(S.to_dense()), np.asarray(V.to_dense())
    krylov = rule in ("lanczos", "lobpcg")
    # LOBPCG computes in float32 whatever the dtype of the operator (lobpcg.py): single-precision claim
    single = Ad.dtype in (np.float32, np.complex64) or rule == "lobpcg"
    f = SINGLE_FACTOR if single else 1.0
    partial = is_partial(case, rule, m, n)
    kexp = case["k"] if krylov else r
    if rule == "lobpcg" and n <= case["k"] and Ud.shape == (m, n - 1) and Vd.shape == (n, n - 1) and Sd.shape == (n - 1, n - 1):
        # recorded finding lobpcg-k-ge-n, attributed by the predicate cols <= k on THIS case and by the exact failure class it
        # predicts (n - 1 triplets come back); everything else is still required of the n - 1 returned triplets
        fails.append(f"[{KGE}] {n - 1} singular triplets returned for k = {case['k']} >= n = {n}")
        kexp = n - 1
    if Ud.shape != (m, kexp) or Vd.shape != (n, kexp) or Sd.shape != (kexp, kexp):
        fails.append(f"shapes U{Ud.shape} S{Sd.shape} V{Vd.shape}, expected ({m},{kexp}) ({kexp},{kexp}) ({n},{kexp})")
        return fails
    if not (np.all(np.isfinite(Ud)) and np.all(np.isfinite(Sd)) and np.all(np.isfinite(Vd))):
        fails.append("non-finite entries")
        return fails
    if np.abs(Ud.conj().T @ Ud - np.eye(kexp)).max() > TOL_ORTH * f:
        fails.append("U columns not orthonormal: %.2e" % np.abs(Ud.conj().T @ Ud - np.eye(kexp)).max())
    if np.abs(Vd.conj().T @ Vd - np.eye(kexp)).max() > TOL_ORTH * f:
        fails.append("V columns not orthonormal: %.2e" % np.abs(Vd.conj().T @ Vd - np.eye(kexp)).max())
    off = Sd - np.diag(np.diag(Sd))
    dg = np.diag(Sd)
    if np.abs(off).max(initial=0) != 0:
        fails.append("Sigma not diagonal")
    if np.abs(np.imag(dg)).max(initial=0) != 0 or np.real(dg).min(initial=0) < 0:
        fails.append("Sigma not non-negative real: %s" % np.array2string(dg, precision=4))
    rec = Ud @ Sd @ Vd.conj().T
    smax = max(1.0, np.linalg.norm(Ad, 2)) if Ad.size else 1.0
    if partial:
        # Ritz triplets: the residual identity and the Ritz bounds (nothing is claimed about the truncated SVD)
        tall = n <= m
        want = (Ad @ Vd @ Vd.conj().T) if tall else (Ud @ Ud.conj().T @ Ad)
        err = np.abs(rec - want).max(initial=0)
        if err > TOL_FULL * smax * f:
            fails.append("partial run: U Sigma V^H differs from %s: %.2e" % ("A V V^H" if tall else "U U^H A", err))
        sv = np.linalg.svd(Ad, compute_uv=False)
        dgr = np.real(dg)
        if dgr.size and (dgr.max() > sv[0] * (1 + TOL_FULL) or dgr.min() < sv[-1] * (1 - TOL_FULL)):
            fails.append("partial run: Ritz singular values outside [sigma_min, sigma_max]: %s" % np.array2string(dgr, precision=6))
    elif krylov and kexp < r:
        u, s, vh = np.linalg.svd(Ad)
        sel = slice(0, kexp) if case["which"] == "LM" else slice(r - kexp, r)
        want = (u[:, sel] * s[sel]) @ vh[sel]
        err = np.abs(rec - want).max()
        if err > TOL_TRUNC * smax * f:
            fails.append("U Sigma V^H differs from the truncated SVD (%s, k=%d): %.2e" % (case["which"], kexp, err))
    else:
        err = np.abs(rec - Ad).max(initial=0)
        if err > (TOL_TRUNC if krylov else TOL_FULL) * smax * f:
            fails.append("U Sigma V^H differs from A: %.2e" % err)
    for nm, X, D in (("U", U, Ud), ("V", V, Vd)):
        bad = annotations_true(X, D, TOL_ORTH * f)
        if bad:
            fails.append(f"declared annotation(s) {bad} of {nm} false")
    return fails


def close(a, b, tol):
    a, b = np.asarray(a), np.asarray(b)
    if a.shape != b.shape:
        return False
    if a.size == 0:
        return True
    if not (np.all(np.isfinite(a)) and np.all(np.isfinite(b))):
        return False
    if tol == 0:
        return bool(np.array_equal(a, b))
    return bool(np.abs(a - b).max() <= tol * max(1.0, np.abs(b).max()))


def ulp_tol(dt):
    return 4 * (2.0 ** -23 if dt in ("f32", "c64") else 2.0 ** -52)


def finite(*arrs):
    return all(np.all(np.isfinite(np.asarray(a))) for a in arrs)


# ------------------------------------------------------------------ engine
class Engine:
    def __init__(self, ctx):
        self.ctx = ctx
        self.known = {k: v["what"] for k, v in common.known_clauses(ctx.prop).items()}
        self.stats = collections.Counter()
        self.dist = collections.Counter()
        self.distinct = set()
        self.samples = []
        self.stale_reported = set()
        self.maxerr = collections.defaultdict(float)

    # ---- bookkeeping
    MAX_VIOLATIONS = 5

    def violate(self, payload, no_input=False):
        """VIOLATION line + replay file; after MAX_VIOLATIONS only counted (one defect fails many cases)"""
        kind = "no-input" if no_input else "input"
        if self.stats["violations-printed-" + kind] >= self.MAX_VIOLATIONS:
            self.stats["violations-not-printed"] += 1
            return
        self.stats["violations-printed-" + kind] += 1
        common.violation(self.ctx, payload, no_input=no_input)

    def account(self, case, status, nontrivial):
        self.stats["evaluations"] += 1
        self.stats[status] += 1
        if nontrivial and status in ("ok", "known"):
            key = common.canon([case["fn"], case["op"], case.get("k"), case.get("which"), case["alg"], case.get("rhs_seed")])
            self.distinct.add(key)

    def judge(self, case, tie_problems, spec_fails, clauses, real_summary, ans):
        """three-way classification -> status"""
        ctx = self.ctx
        if not tie_problems and not spec_fails:
            return "ok"
        if not tie_problems and spec_fails:
            # exact excuse: EVERY failure is attributed (by svd_oracle's predicate on the input) to a clause that the model lists
            # for this case and that is recorded; one unattributed failure makes the case a violation
            att = [attributed(f) for f in spec_fails]
            if all(a is not None and a in clauses and a in self.known for a in att):
                for c in sorted(set(att)):
                    common.known_finding(ctx, c, self.known[c])
                return "known"
            self.violate({"case": strip(case), "real": real_summary, "spec_failures": spec_fails, "clauses": clauses,
                                   "why": "the real code agrees with the code model but violates the property and no recorded finding covers it",
                                   "replay_cmd": f"./check {ctx.prop} quick --replay <this file>"})
            return "violation"
        # real != code: the correspondence is broken
        if spec_fails:
            self.violate({"case": strip(case), "real": real_summary, "spec_failures": spec_fails,
                                   "real_vs_model": tie_problems, "model": trim(ans),
                                   "why": "the real code differs from the code model AND violates the property on this input",
                                   "replay_cmd": f"./check {ctx.prop} quick --replay <this file>"})
            return "violation"
        found = self.neighbourhood(case)
        if found is not None:
            c2, fails, summ = found
            self.violate({"case": strip(c2), "real": summ, "spec_failures": fails, "original_case": strip(case),
                                   "real_vs_model": tie_problems,
                                   "why": "correspondence broken on original_case; this neighbouring input violates the property",
                                   "replay_cmd": f"./check {ctx.prop} quick --replay <this file>"})
            return "violation"
        key = (case["fn"], tuple(p.split(":")[0] for p in tie_problems))
        if key not in self.stale_reported:
            self.stale_reported.add(key)
            self.violate({"case": strip(case), "real": real_summary, "real_vs_model": tie_problems, "model": trim(ans),
                                   "broken": "correspondence of the svd/pinv code model (the real code satisfies the property on this input "
                                             "and on its neighbourhood, but does not do what the model says)"}, no_input=True)
        return "stale-model"

    def neighbourhood(self, case):
        """real + oracle only, on variations of the failing-correspondence case"""
        L = lib()
        try:
            A = build.Builder().build(case["op"])
            Ad = np.asarray(A.to_dense())
        except Exception:  # noqa: BLE001
            return None
        m, n = Ad.shape
        if case["fn"] == "svd":
            sv = np.linalg.svd(Ad, compute_uv=False)
            separated = len(sv) < 2 or float(np.min((sv[:-1] - sv[1:]) / sv[:-1])) >= SEP_MIN
            for alg in (("lanczos",) if separated else ()) + ("dense", "omitted", "auto"):   # Lanczos: inside the generator's domain only
                for k in range(1, min(m, n) + 1):
                    for which in ("LM", "SM"):
                        c2 = dict(case, alg=alg, k=k, which=which)
                        try:
                            U, S, V = run_real_svd(c2, A)
                            rule = "lanczos" if alg == "lanczos" else "dense"
                            if type(A).__name__.startswith(("Identity", "Diagonal")):
                                rule = "structural"
                            fails = svd_oracle(c2, rule, Ad, U, S, V)
                        except Exception as ex:  # noqa: BLE001
                            fails = [f"raised {type(ex).__name__}: {str(ex)[:120]}"]
                        if fails:
                            return c2, fails, {"k": k, "which": which, "alg": alg}
        else:
            for alg in ("omitted", "auto", "lstsq", "cg"):
                c2 = dict(case, alg=alg, rhs_seed=case.get("rhs_seed") or 1)
                fails, summ = pinv_numeric(c2, A, Ad, None)
                if fails:
                    return c2, fails, summ
        return None

    # ---- svd
    def eval_svd(self, cases):
        L = lib()
        plans = oracle.run_driver([{"id": i, "call": "plan", "fn": "svd", "op": c["op"], "alg": c["alg"]} for i, c in enumerate(cases)],
                                  driver=DRIVER, nproc=NPROC_PLAN)
        work = []
        for i, c in enumerate(cases):
            plan = plans.get(i, {"error": "no answer"})
            if "error" in plan:
                self.ctx.notes.append(f"driver error (plan): {plan['error']}")
                self.account(c, "driver-error", False)
                continue
            rec = {"case": c, "plan": plan, "id": i}
            try:
                A = build.Builder().build(c["op"])
                rec["A"] = A
                rec["Ad"] = np.asarray(A.to_dense())
            except Exception as ex:  # noqa: BLE001
                self.ctx.notes.append(f"could not build operand: {ex}")
                self.account(c, "skipped", False)
                continue
            try:
                rec["real"] = run_real_svd(c, A)
            except Exception as ex:  # noqa: BLE001
                rec["real_err"] = err_obs(ex)
            dc = {"id": i, "call": "svd", "op": c["op"], "k": c["k"], "which": c["which"], "alg": c["alg"], "want_den": True}
            rule = plan["rule"]
            m, n = rec["Ad"].shape
            try:
                if rule == "diagonal":
                    dg = np.asarray(A.diag)
                    mg = np.abs(dg)
                    dc["abs"] = {"args": exvec(dg), "vals": exvec(mg)}
                    rec["inexact_abs"] = any(Fraction(float(a)) ** 2 != Fraction(float(np.real(z))) ** 2 + Fraction(float(np.imag(z))) ** 2
                                             for a, z in zip(mg, dg))
                elif rule == "dense":
                    U0, s0, Vh0 = np.linalg.svd(rec["Ad"], full_matrices=True)
                    rec["sigma_ties"] = len(set(np.asarray(s0).tolist())) < len(s0)
                    rec["s0"] = np.asarray(s0)
                    dc["lapack"] = {"U": exmat(U0), "s": exvec(s0), "V": exmat(Vh0.T.conj())}
                elif rule in ("lanczos", "lobpcg"):
                    if rule == "lobpcg":
                        # the eigensolver parameter: what lobpcg returns on the Gram operator (deterministic: local generator, seed 42)
                        vals, Vop = L.lobpcg(A.H @ A, max_iters=300, largest=(c["which"] == "LM"))
                        Vl = np.asarray(Vop.to_dense())
                        vals = np.asarray(vals)
                        sq = np.sqrt(np.where(np.real(vals) > 0, vals, 0))
                        rec["W"] = (vals, Vl, None)
                        if not finite(vals, Vl, sq):
                            rec["nonfinite_params"] = True
                            work.append((rec, None))
                            continue
                        dc["eigs"] = {"vals": exvec(vals), "V": exmat(Vl), "sq": exvec(sq)}
                        work.append((rec, dc))
                        continue
                    G = (A.H @ A) if plan["tall"] else (A @ A.H)
                    gsz = c.get("max_iters") or gram_size(m, n)
                    vals, W, _ = L.lanczos_eigs(G, max_iters=gsz, tol=1e-12)
                    Q, Y = np.asarray(W.Ms[0].to_dense()), np.asarray(W.Ms[1].to_dense())
                    sq = np.sqrt(vals)
                    rec["W"] = (vals, Q, Y)
                    if not finite(vals, Q, Y, sq):
                        rec["nonfinite_params"] = True
                        work.append((rec, None))
                        continue
                    dc["eigs"] = {"vals": exvec(vals), "Q": exmat(Q), "Y": exmat(Y), "ydt": dtn(Y.dtype), "sq": exvec(sq)}
            except Exception as ex:  # noqa: BLE001
                rec["param_err"] = f"{type(ex).__name__}: {str(ex)[:150]}"
                work.append((rec, None))
                continue
            work.append((rec, dc))
        answers = oracle.run_driver([dc for (_, dc) in work if dc is not None], driver=DRIVER, nproc=NPROC)
        for rec, dc in work:
            ans = answers.get(rec["id"], {"error": "no answer from the driver"}) if dc is not None else None
            self.judge_svd(rec, ans)

    def judge_svd(self, rec, ans):
        c, plan = rec["case"], rec["plan"]
        rule = plan["rule"]
        Ad = rec["Ad"]
        m, n = Ad.shape
        self.dist["svd:" + rule] += 1
        self.dist["shape:" + ("tall" if m > n else "wide" if m < n else "square")] += 1
        self.dist["dtype:" + plan["dtype"]] += 1
        self.dist["wrapper:" + c["wrapper"]] += 1
        if rule == "diagonal":
            dgv = np.asarray(rec["A"].diag)
            self.dist["diag-rule:" + ("negative-or-complex" if np.any(np.imag(dgv) != 0) or np.any(np.real(dgv) < 0) else "nonneg")] += 1
        if c["fn"] == "svd" and rule in ("lanczos",):
            self.dist["which:" + c["which"]] += 1
            self.dist["lanczos-run:" + ("partial" if is_partial(c, rule, m, n) else "full")] += 1
        nontrivial = c["wrapper"] != "structural"
        clauses = list((ans or {}).get("clauses", plan.get("clauses", [])))
        summ = {}
        # ---- real observation + oracle
        spec_fails = []
        if "real" in rec:
            U, S, V = rec["real"]
            try:
                fo = {"U": factor_obs(U), "S": factor_obs(S), "V": factor_obs(V)}
                summ = {k: {kk: vv for kk, vv in v.items() if kk != "v"} for k, v in fo.items()}
                summ["sigma"] = [complex(z).real if complex(z).imag == 0 else str(complex(z)) for z in np.diag(fo["S"]["v"])][:8]
                spec_fails = svd_oracle(c, rule, Ad, U, S, V)
            except Exception as ex:  # noqa: BLE001
                fo = None
                spec_fails = [f"densifying the result raised {type(ex).__name__}: {str(ex)[:120]}"]
        else:
            fo = None
            summ = dict(rec["real_err"])
            admissible_err = c["which"] not in ("LM", "SM") and rec["real_err"]["err"] == "not-implemented"
            if not admissible_err:
                spec_fails = [f"svd raised {rec['real_err']['err']}: {rec['real_err'].get('msg', '')}"]
        # ---- parameter problems (a failed oracle is never counted as ok)
        if rec.get("nonfinite_params") or rec.get("param_err"):
            if spec_fails:
                self.violate({"case": strip(c), "real": summ, "spec_failures": spec_fails,
                                            "why": "the property fails on this input (model parameters could not be obtained: %s)"
                                                   % (rec.get("param_err") or "non-finite eigensolver output")})
                self.account(c, "violation", nontrivial)
            else:
                self.account(c, "skipped", False)
            return
        if ans is None or "error" in ans:
            self.ctx.notes.append(f"driver error (svd): {(ans or {}).get('error')}")
            self.account(c, "driver-error", False)
            return
        # ---- real vs code
        tie = []
        if "den" in ans:
            dm = from_exact(ans["den"]).reshape(m, n)
            if not close(Ad, dm, 1e-12 if plan["dtype"] in ("f64", "c128") else 1e-5):
                tie.append("den: to_dense of the real operand differs from the represented matrix of the model")
        if "err" in ans:
            if fo is not None:
                tie.append(f"err: model raises {ans['err']}, real returned")
            elif rec["real_err"]["err"] != ans["err"]:
                tie.append(f"err: model {ans['err']}, real {rec['real_err']['err']}")
        elif fo is None:
            tie.append(f"err: real raised {rec['real_err']['err']} ({rec['real_err'].get('msg', '')[:80]}), model returns")
        else:
            for nm in ("U", "S", "V"):
                a, r_ = ans[nm], fo[nm]
                for key in ("rows", "cols", "dtype", "anns", "skel"):
                    if a[key] != r_[key]:
                        tie.append(f"{nm}.{key}: model {a[key]} real {r_[key]}")
                if not a.get("td_eq_den", True):
                    tie.append(f"{nm}.td_eq_den: the operator code model of to_dense differs from den")
                if (a["rows"], a["cols"]) == (r_["rows"], r_["cols"]):
                    code = from_exact(a["code"]).reshape(a["rows"], a["cols"])
                    if rule == "dense" and rec.get("sigma_ties") and nm in ("U", "V"):
                        continue    # exactly tied singular values: the column order inside a tie is np.argsort's (not specified)
                    if rule == "diagonal" and nm == "U":
                        tol = ulp_tol(a["dtype"])       # phase = d / |d|: one rounded division
                    elif rule in ("dense", "identity", "diagonal"):
                        tol = 0
                    elif nm == "S":
                        tol = 0
                    elif (nm == "V") == bool(ans.get("tall")):
                        tol = TOL_SLICED
                    else:
                        tol = TOL_BACK
                    if not close(r_["v"], code, tol):
                        d = np.abs(np.asarray(r_["v"]) - code).max() if code.size else 0
                        tie.append(f"{nm}.value: |real - model| = {d:.3e} (tolerance {tol})")
                    elif code.size and tol:
                        self.maxerr[f"svd {rule} {nm} real-vs-model"] = max(self.maxerr[f"svd {rule} {nm} real-vs-model"], float(np.abs(np.asarray(r_["v"]) - code).max()))
            if rule in ("lanczos", "lobpcg"):
                if not ans.get("back_eq", False):
                    tie.append("back_eq: operator code model of the back-substitution differs from the matrix formula")
                if not ans.get("back_good", False):
                    tie.append("back_good: the lazy product the rule densifies is not well-formed in the model")
                vals, Q, Y = rec["W"]
                # ---- the eigensolver's output the rule was handed (observations on the REAL values, decided by the driver exactly):
                # W_good (wf, no repeated slice index), the shape Svd.EigShape (from which C16_lanczos_W_good derives ALL of Op.Good,
                # HermOK included), and the ORDER conjunct of the strengthened contract Svd.EigsSorted (real, ascending)
                for key, what in (("w_good", "the eigenvector operator the eigensolver returned is not well-formed in the model (W_good)"),
                                  ("w_shape", "the eigenvector operator is not of the shape Product(Orthonormal(Dense), Dense) / Dense (EigShape)"),
                                  ("eigs_ascending", "the eigenvalues the real eigensolver returned are not real and ascending (EigsSorted.ascending)")):
                    if ans.get(key) is not True:
                        tie.append(f"contract:{key}: {what}")
                    else:
                        self.dist["contract-observed:" + key] += 1
                vr = np.asarray(vals)
                asc_py = bool(np.all(np.imag(vr) == 0) and np.all(np.diff(np.real(vr)) >= 0))
                if asc_py != ans.get("eigs_ascending"):
                    tie.append(f"contract:eigs_ascending: driver {ans.get('eigs_ascending')} python {asc_py}")
                sl = lib().get_slice(c["k"], c["which"])
                if list(range(len(vals)))[sl] != ans["pos"]:
                    tie.append(f"pos: model {ans['pos']} python {list(range(len(vals)))[sl]}")
                # which Gram operator: the eigenvector operator inside the sliced factor of the REAL output
                X = rec["real"][2] if ans["tall"] else rec["real"][0]
                try:
                    Wr = X.A
                    if rule == "lobpcg":
                        same = np.array_equal(np.asarray(Wr.to_dense()), Q)
                    else:
                        same = np.array_equal(np.asarray(Wr.Ms[0].to_dense()), Q) and np.array_equal(np.asarray(Wr.Ms[1].to_dense()), Y)
                    if not same:
                        tie.append("gram: the eigenvector operator inside the real output is not the eigensolver's output on the Gram operator the model names")
                    want_shape = ["dense", []] if rule == "lobpcg" else \
                        ["prod", [], ["dense", ["Unitary"] if Q.shape[0] == Q.shape[1] else ["Stiefel"]], ["dense", []]]
                    if skel16(Wr) != want_shape:
                        tie.append(f"contract:w_shape: the REAL eigenvector operator has the kind tree {skel16(Wr)}, expected {want_shape}")
                except Exception:  # noqa: BLE001
                    tie.append("gram: sliced factor of the real output has no eigenvector operator")
            if rule == "dense":
                s0 = rec["s0"]          # the values LAPACK returned to the real code (same call, full_matrices=True)
                # the ORDER conjunct of the strengthened LAPACK contract Svd.LapackSorted on the REAL values: real, >= 0, descending
                desc_py = bool(np.all(np.isreal(s0)) and np.all(np.real(s0) >= 0) and np.all(np.diff(np.real(s0)) <= 0))
                if ans.get("lapack_descending") is not True or not desc_py:
                    tie.append(f"contract:lapack_descending: the singular values np.linalg.svd returned are not real, non-negative and descending "
                               f"(driver {ans.get('lapack_descending')}, python {desc_py})")
                else:
                    self.dist["contract-observed:lapack_descending"] += 1
                if rec.get("sigma_ties"):
                    # np.argsort is not stable: on exact ties only the sorted VALUES are specified (compared exactly through S above)
                    self.dist["dense-svd:exactly-tied-singular-values"] += 1
                    if sorted(ans["idx"]) != list(range(len(s0))) or any(s0[a] > s0[b] for a, b in zip(ans["idx"], ans["idx"][1:])):
                        tie.append(f"idx: model {ans['idx']} is not an ascending permutation")
                elif list(np.argsort(s0)) != ans["idx"]:
                    tie.append(f"idx: model {ans['idx']} numpy {list(np.argsort(s0))}")
            if rule in ("identity", "diagonal") and not rec.get("inexact_abs"):
                drv = []
                if not ans["orthU"]:
                    drv.append("U not unitary (exact)")
                if not ans["orthV"]:
                    drv.append("V not unitary (exact)")
                if not ans["sigma_ok"]:
                    drv.append("Sigma not a non-negative real diagonal (exact)")
                if not ans["recon"]:
                    drv.append("U Sigma V^H != A (exact)")
                # code vs spec is decided by the driver on exact data; it must agree with the oracle on the real output
                if bool(drv) != bool(spec_fails):
                    tie.append(f"spec: exact evaluation {drv} vs numerical oracle {spec_fails}")
        st = self.judge(c, tie, spec_fails, clauses, summ, ans)
        if st == "ok" and len(self.samples) < 4 and nontrivial and rule == "lanczos" and m <= 4 and n <= 4 and "U" in ans:
            self.samples.append({"case": strip(c, keep_op=True), "model_answer": {"rule": rule, "tall": ans.get("tall"), "pos": ans.get("pos"),
                                                                                 "gram": ans.get("gram"), "U.skel": ans["U"]["skel"], "V.skel": ans["V"]["skel"]}})
        self.account(c, st, nontrivial)

    # ---- pinv
    def eval_pinv(self, cases):
        answers = oracle.run_driver([{"id": i, "call": "pinv", "op": c["op"], "alg": c["alg"], "want_den": True} for i, c in enumerate(cases)],
                                    driver=DRIVER, nproc=NPROC)
        for i, c in enumerate(cases):
            ans = answers.get(i, {"error": "no answer from the driver"})
            if "error" in ans:
                self.ctx.notes.append(f"driver error (pinv): {ans['error']}")
                self.account(c, "driver-error", False)
                continue
            try:
                A = build.Builder().build(c["op"])
                Ad = np.asarray(A.to_dense())
            except Exception as ex:  # noqa: BLE001
                self.ctx.notes.append(f"could not build operand: {ex}")
                self.account(c, "skipped", False)
                continue
            self.judge_pinv(c, ans, A, Ad)

    def judge_pinv(self, c, ans, A, Ad):
        L = lib()
        m, n = Ad.shape
        kind = ans["kind"]
        self.dist["pinv:" + kind] += 1
        self.dist["wrapper:" + c["wrapper"]] += 1
        clauses = list(ans.get("clauses", []))
        nontrivial = c["wrapper"] != "structural"
        tie, spec_fails, summ = [], [], {}
        ref = None
        if "den" in ans:
            # the represented matrix of the MODEL (exact `den`) is the reference of the oracle
            ref = from_exact(ans["den"]).reshape(m, n)
            if not close(Ad, ref, 1e-12 if Ad.dtype in (np.float64, np.complex128) else 1e-5):
                tie.append("den: to_dense of the real operand differs from the represented matrix of the model")
            if not np.iscomplexobj(Ad):
                ref = np.real(ref)
        P = None
        try:
            alg = L.pinv_alg(c["alg"])
            P = L.pinvmod.pinv(A) if alg is None else L.pinvmod.pinv(A, alg)
        except Exception as ex:  # noqa: BLE001
            eo = err_obs(ex)
            summ = dict(eo)
            spec_fails = [f"pinv raised {eo['err']}: {eo['msg']}"]
            if kind != "err":
                tie.append(f"err: real raised {eo['err']} ({eo['msg'][:80]}), model builds {kind}")
            elif ans["err"] != eo["err"]:
                tie.append(f"err: model {ans['err']} real {eo['err']}")
        if P is not None:
            summ = {"class": type(P).__name__.split("[")[0], "shape": [int(P.shape[0]), int(P.shape[1])], "dtype": dtn(P.dtype), "skel": skel16(P)}
            if kind == "err":
                tie.append(f"err: model raises {ans['err']}, real returned {summ['class']}")
            else:
                a = ans["B"] if kind == "op" else ans
                if [a["rows"], a["cols"]] != summ["shape"]:
                    tie.append(f"shape: model {[a['rows'], a['cols']]} real {summ['shape']}")
                if a["dtype"] != summ["dtype"]:
                    tie.append(f"dtype: model {a['dtype']} real {summ['dtype']}")
                if a["skel"] != summ["skel"]:
                    tie.append(f"skel: model {a['skel']} real {summ['skel']}")
                if kind == "op":
                    if ans["same"] != (P is A):
                        tie.append(f"same: model {ans['same']} real {P is A}")
                    if a["anns"] != treecheck.ann_list(P):
                        tie.append(f"anns: model {a['anns']} real {treecheck.ann_list(P)}")
                    code = from_exact(a["code"]).reshape(a["rows"], a["cols"])
                    Pd = np.asarray(P.to_dense())
                    tol = ulp_tol(a["dtype"])
                    if not (Pd.shape == code.shape and finite(Pd) and np.all(np.abs(Pd - code) <= tol * np.maximum(np.abs(code), 1e-300) + 0)):
                        tie.append("value: reciprocal rule differs from the model by more than 4 ulp")
                    if not ans["is_inverse"]:
                        spec_fails.append("the operator the rule builds is not the inverse (exact evaluation)")
                elif kind == "lstsq":
                    stored = from_exact(ans["stored"]).reshape(m, n)
                    if summ["class"] != "LSTSQSolve" or not hasattr(P, "A"):
                        tie.append(f"class: model builds LSTSQSolve, real returned {summ['class']}")
                    elif not close(np.asarray(P.A), stored, 1e-12):
                        tie.append("stored: LSTSQSolve.A differs from to_dense of the operand")
                elif kind == "cg":
                    try:
                        S = P.Ms[0] if summ["skel"][0] == "prod" else P
                        creal = complex(np.asarray(S.Ms[1].Ms[0].c))
                        cmod = complex(fq(ans["cons"][0]), fq(ans["cons"][1]))
                        rel = 2e-6 if a["dtype"] in ("f32", "c64") else 1e-15
                        if abs(creal - cmod) > rel * abs(cmod):
                            tie.append(f"cons: model {cmod} real {creal}")
                    except Exception as ex:  # noqa: BLE001
                        tie.append(f"cons: cannot read the regulariser of the real operator ({ex})")
            if c.get("rhs_seed") is not None:
                nf, nsumm = pinv_numeric(c, A, Ad, P, self.maxerr, ref=ref)
                spec_fails += nf
                summ.update(nsumm)
        st = self.judge(c, tie, spec_fails, clauses, summ, ans)
        if st == "ok" and len(self.samples) < 7 and kind == "cg" and m <= 3 and n <= 3 and nontrivial:
            self.samples.append({"case": strip(c, keep_op=True), "model_answer": {"kind": kind, "skel": ans["skel"], "cons": ans["cons"]}})
        self.account(c, st, nontrivial)

    def coverage(self):
        return {
            "evaluations": self.stats["evaluations"],
            "distinct_nontrivial": len(self.distinct),
            "outcomes": dict(self.stats),
            "distribution": dict(self.dist),
            "max_observed_error": {k: float(v) for k, v in self.maxerr.items()},
            "samples": self.samples,
        }


def pinv_numeric(c, A, Ad, P, maxerr=None, ref=None):
    """pinv(A) @ b on the REAL operator against np.linalg.pinv(A) @ b, for 1-D and 1-3 column right-hand sides"""
    L = lib()
    fails, summ = [], {}
    m, n = Ad.shape
    if P is None:
        try:
            alg = L.pinv_alg(c["alg"])
            P = L.pinvmod.pinv(A) if alg is None else L.pinvmod.pinv(A, alg)
        except Exception as ex:  # noqa: BLE001
            return [f"pinv raised {type(ex).__name__}: {str(ex)[:120]}"], {}
    g = np.random.default_rng(c["rhs_seed"])
    cplx = np.iscomplexobj(Ad)
    Pn = np.linalg.pinv((Ad if ref is None else ref).astype(np.complex128 if cplx else np.float64))
    single = Ad.dtype in (np.float32, np.complex64)
    tol = TOL_CG if c["alg"] == "cg" and type(P).__name__.startswith("Product") else TOL_PINV
    if single:
        tol = 1e-3
    for shp in [(m,), (m, 1), (m, int(g.integers(2, 4)))]:
        b = g.standard_normal(shp) + (1j * g.standard_normal(shp) if cplx else 0)
        b = b.astype(Ad.dtype)
        try:
            x = np.asarray(P @ b)
        except Exception as ex:  # noqa: BLE001
            fails.append(f"pinv(A) @ b raised {type(ex).__name__}: {str(ex)[:120]} for b of shape {shp}")
            continue
        want = Pn @ b
        if x.shape != want.shape:
            fails.append(f"pinv(A) @ b has shape {x.shape}, expected {want.shape}")
            continue
        if not finite(x):
            fails.append(f"pinv(A) @ b not finite for b of shape {shp}")
            continue
        err = float(np.abs(x - want).max() / max(np.abs(want).max(), 1e-300))
        if maxerr is not None:
            key = "pinv " + ("cg" if tol == TOL_CG else "f32" if single else "direct") + " relative error"
            maxerr[key] = max(maxerr[key], err)
        if err > tol:
            fails.append(f"pinv(A) @ b differs from the minimum-norm least-squares solution: relative error {err:.2e} > {tol:g} (b shape {shp})")
        summ["last_rel_err"] = err
    return fails, summ


def strip(case, keep_op=True):
    c = {k: v for k, v in case.items() if k not in ("id",)}
    return c


def trim(ans):
    if not isinstance(ans, dict):
        return ans
    s = json.dumps(ans)
    return ans if len(s) < 6000 else {k: v for k, v in ans.items() if k not in ("U", "S", "V", "B", "stored")}


# ------------------------------------------------------------------ primitive streams
def primitive_stream(ctx, eng):
    """get_slice positions and argsort of the model against Python / NumPy"""
    L = lib()
    cases, want = [], {}
    for n in range(0, 10):
        for k in range(-3, 13):
            for which in ("LM", "SM", "XX"):
                i = len(cases)
                cases.append({"id": i, "call": "slice", "n": n, "k": k, "which": which})
                try:
                    want[i] = {"pos": list(range(n))[L.get_slice(k, which)]}
                except Exception as ex:  # noqa: BLE001
                    want[i] = {"err": treecheck.err_class(ex)}
    g = np.random.default_rng(ctx.seed + 77)
    for _ in range(60 if not ctx.thorough else 400):
        n = int(g.integers(1, 12))
        v = g.permutation(np.round(g.standard_normal(n) * 8, 3) + np.arange(n) * 1e-3)
        if len(set(v.tolist())) < n:
            continue
        i = len(cases)
        cases.append({"id": i, "call": "argsort", "vals": exvec(v)})
        want[i] = {"idx": [int(t) for t in np.argsort(v)]}
    ans = oracle.run_driver(cases, driver=DRIVER, nproc=1)
    bad = []
    for c in cases:
        a = ans.get(c["id"], {})
        w = want[c["id"]]
        if any(a.get(k) != v for k, v in w.items()):
            bad.append({"case": c, "model": a, "python": w})
    eng.stats["primitive-cases"] += len(cases)
    if bad:
        common.violation(ctx, {"broken": "primitive stream: get_slice / argsort of the model against Python / NumPy", "first": bad[:3]}, no_input=True)
    return len(cases), len(bad)


def auto_threshold_stream(ctx, eng):
    """the Auto decision (prod(shape) <= 1e6) on both sides of the threshold, with operands that are cheap to apply"""
    L = lib()
    notes = []
    for n, want_svd, want_pinv in ((1000, "dense", "lstsq"), (1001, "lanczos", "cg")):
        d = [1 + (i % 7) for i in range(n)]
        e = ["generic", ["diag", "f64", d]]
        ans = oracle.run_driver([{"id": 0, "call": "plan", "fn": "svd", "op": e, "alg": "auto"},
                                 {"id": 1, "call": "plan", "fn": "pinv", "op": e, "alg": "omitted"}], driver=DRIVER, nproc=1)
        A = build.Builder().build(e)
        # pinv: lazily built, nothing is computed
        P = L.pinvmod.pinv(A)
        real_pinv = "lstsq" if type(P).__name__.startswith("LSTSQSolve") else "cg" if type(P).__name__.startswith("Product") else "?"
        real_svd = None
        if n == 1001 or ctx.thorough:
            U, S, V = L.svdmod.svd(A, 2, "LM", L.Auto(max_iters=6, tol=1e-7)) if n == 1001 else L.svdmod.svd(A, 2, "LM", L.Auto())
            real_svd = "lanczos" if U.shape[1] == 2 else "dense"
        model_svd, model_pinv = ans.get(0, {}).get("rule"), ans.get(1, {}).get("rule")
        notes.append({"n": n, "svd": [model_svd, real_svd], "pinv": [model_pinv, real_pinv]})
        prob = []
        if model_svd != want_svd or (real_svd is not None and real_svd != model_svd):
            prob.append(f"svd Auto at {n}x{n}: model {model_svd}, real {real_svd}")
        if model_pinv != want_pinv or real_pinv != model_pinv:
            prob.append(f"pinv Auto at {n}x{n}: model {model_pinv}, real {real_pinv}")
        if prob:
            common.violation(ctx, {"broken": "Auto threshold of the model", "detail": prob}, no_input=True)
        eng.stats["auto-threshold-cases"] += 2
    return notes


# ------------------------------------------------------------------ entry point
def run(ctx):
    gate, gate_err = None, None
    try:
        gate = dict(common.lean_gate(ctx, MODULE))
        for sub in SUBMODULES:
            g_ = common.lean_gate(ctx, sub)
            gate["obligations"] += g_["obligations"]
            gate["discharged"] += g_["discharged"]
            gate["theorems"] = sorted(set(gate["theorems"]) | set(g_["theorems"]))
            # one runnable line: the trailing shell comment of each part is dropped and written once at the end
            parts = [x.replace("   # kernel re-check + #print axioms audit", "") for x in
                     (gate["checker_cmd"], g_["checker_cmd"].split("cd lean && ", 1)[-1])]
            gate["checker_cmd"] = " && ".join(parts) + "   # kernel re-check + #print axioms audit"
    except common.LeanGateError as ex:
        gate_err = str(ex)
    eng = Engine(ctx)
    extra = {}
    if ctx.replay:
        rp = json.load(open(ctx.replay))
        c = rp.get("case") or rp.get("original_case")
        if c.get("float_only"):
            eval_float_only(eng, [c])
        elif c["fn"] == "svd":
            eng.eval_svd([c])
        else:
            eng.eval_pinv([c])
        print(json.dumps({"replayed": {k: v for k, v in c.items() if k != "op"}, "outcomes": dict(eng.stats)}))
    else:
        rng = random.Random(ctx.seed * 1000003 + 16)
        g = np.random.default_rng(rng.getrandbits(64))
        extra["primitive"] = primitive_stream(ctx, eng)
        cat, missing = KindGen(rng, g).catalogue(ctx.thorough)
        extra["kind_catalogue"] = {"instances": len(cat), "kinds": sorted({c["kind"] for c in cat}), "not_generated": missing,
                                   "max_cond": max(c["cond"] for c in cat), "separated_for_lanczos": sum(c["sep"] >= SEP_MIN for c in cat)}
        if missing:
            common.violation(ctx, {"broken": "kind catalogue: no well-conditioned instance could be generated", "kinds": missing}, no_input=True)
        extra["dispatch"] = dispatch_stream(ctx, eng, rng, cat)
        wsv, wpv = witness_cases()
        eng.eval_svd(wsv + svd_structural_cases(ctx, rng) + svd_cases(ctx, rng, g) + kind_svd_cases(ctx, rng, cat) + lobpcg_cases(ctx, rng, g))
        eng.eval_pinv(wpv + pinv_cases(ctx, rng, g) + kind_pinv_cases(ctx, rng, cat))
        eval_float_only(eng, large_cases(ctx, rng))
        extra["auto_threshold"] = auto_threshold_stream(ctx, eng)
        # exceptions are observations: a generated case that was not evaluated (operand not buildable, eigensolver parameters not
        # obtainable, driver error) is a generator / model defect, never "n/a"
        not_eval = eng.stats["skipped"] + eng.stats["driver-error"]
        if not_eval:
            common.violation(ctx, {"broken": f"{not_eval} generated cases were not evaluated (skipped {eng.stats['skipped']}, "
                                             f"driver-error {eng.stats['driver-error']})", "notes": list(ctx.notes)[-6:]}, no_input=True)
    if gate_err is not None and not ctx.violations:
        common.violation(ctx, {"broken": f"Lean gate of {MODULE}", "detail": gate_err[-3000:]}, no_input=True)
    cov = eng.coverage()
    cov.update(extra)
    cov["compare"] = "exact on selection-only paths (DenseSVD factors, Sigma, structural rules); documented tolerances elsewhere (module docstring)"
    cov["rule"] = ("svd: A = U0 diag(sigma) V0^H, random unitary U0, V0 (real / complex), sigma geometric in [0.5, 8], shapes 2..8 x 2..8 "
                   "(tall, wide, square), as Dense / no_dispatch / Sum / Product / Transpose / Adjoint operands; Lanczos(max_iters = Gram size, "
                   "tol 1e-12) for 1 <= k <= min(m, n) and which in {LM, SM}; omitted / Auto / DenseSVD; the Identity and Diagonal rules under "
                   "every algorithm; LOBPCG (real / complex, LM / SM, k < n) at single-precision tolerances + witnesses of the recorded finding lobpcg-k-ge-n; partial Lanczos runs "
                   "(max_iters < Gram size: orthonormality, residual identity, Ritz bounds); one well-conditioned instance (cond <= 16) of EVERY "
                   "operator kind of the case language (kind_catalogue) under svd and pinv; the live dispatch tables of pinv / svd against the "
                   "modelled rule set (dispatch); sizes up to 60 x 40 (thorough 120 x 80) on the float side only. pinv: the same operands with {omitted, Auto, LSTSQ, CG(tol 1e-12)}, right-hand sides (m,), "
                   "(m, 1), (m, 2..3); Identity / ScalarMul / Diagonal / Permutation (plain and annotated, all four dtypes). distinct = canonical "
                   "JSON of (function, operand, k, which, algorithm, rhs seed); non-trivial = not a structural-rule operand")
    cov["trusted_base_extra"] = [
        "lean/DriverC16.lean (JSON transport, the table instance of get_precision, sqrt as a lookup table of the values NumPy computed)",
        "LAPACK svd / lstsq, lanczos_eigs, lobpcg, the CG solver are parameters of the model; their contracts are hypotheses of the C16 theorems "
        "(named in `assumptions`; Lean witnesses in coverage.contracts.lean_witnesses)",
    ]
    cov["contracts"] = {
        "checked_per_case_on_real_values": {
            "w_good": "Krylov rules: wf && !dupSlice of the eigenvector operator the real eigensolver returned (driver, exact)",
            "w_shape": "Krylov rules: that operator has the shape Svd.EigShape - Product(Orthonormal(Dense Q), Dense Y) for lanczos_eigs, Dense for "
                       "lobpcg - in the model AND as kind tree of the real object; C16_lanczos_W_good derives all of Op.Good (HermOK included) from it",
            "eigs_ascending": "Krylov rules: the eigenvalues lanczos_eigs / lobpcg returned are real and ascending (order conjunct of Svd.EigsSorted; "
                              "driver exact + NumPy)",
            "lapack_descending": "DenseSVD: the singular values np.linalg.svd returned are real, >= 0, descending (order conjunct of Svd.LapackSorted)",
        },
        "observed_true": {k.split(":", 1)[1]: v for k, v in eng.dist.items() if k.startswith("contract-observed:")},
        "lean_witnesses": {
            "lapack_contract / LapackSorted / lt_contract": "C16_svd_dense_witness (3 x 2, [[-12, 9], [12, 16], [0, 0]])",
            "eigs_contract, sqrt_contract, inv_contract": "C16_svd_krylov_witness (k = n = 2), C16_svd_krylov_sorted_witness (k = 1 < n = 2)",
            "EigsSorted, EigShape (W = Product(Q, Y))": "C16_svd_krylov_sorted_witness",
            "ritz_contract": "C16_krylov_ritz_witness (one Ritz vector of a 2 x 2 Gram matrix, not an eigenvector)",
            "lstsq_contract": "C16_pinv_lstsq_witness (lstsq = multiplication by the exact pseudo-inverse of the 3 x 2 operand)",
            "A_good, A_real": "in every witness above (Dense operands)",
            "wide branch, 'SM' (round 5)": "C16_svd_krylov_wide_sm_witness ([[0, 1, 0], [2, 0, 0]], k = 1 < m = 2, 'SM', W = Product(Q, Y): the whole bundle of "
                                           "C16_svd_krylov_wide_sorted, conclusion evaluated)",
            "wide ritz_contract (round 5)": "C16_krylov_wide_ritz_witness ([[0, 5, 0], [2, 0, 0]], one Ritz vector, not an eigenvector)",
            "complex carrier (round 5)": "C16_krylov_wide_complex_witness ([[3, 4i]] over C, matrix level), C16_svd_diagonal_complex_witness (Diagonal(3+4i, -2, 0))",
            "abs_contract (round 5)": "C16_svd_diagonal_abs_witness (Witness.P.abs = |z| on R; Diagonal(-3, 0, 2))",
            "without a Lean witness": "the CG antecedents hsolve / hkrylov (C16_pinv_cg_value, C16_pinv_cg_full_rank); the MODEL-level Krylov theorems "
                                      "(svdKrylov on an operator tree) over a complex carrier",
        },
    }
    common.write_evidence(ctx, gate, cov, assumptions=[
        "theorems are about exact real/complex arithmetic; rounding is outside the model (tolerances in the module docstring)",
        "'best rank-k approximation' is read as the truncated SVD on the k largest ('LM') / smallest ('SM') singular values the eigensolver holds "
        "(C16_svd_krylov_tall_sorted / _wide_sorted: the order is part of the contract EigsSorted); Eckart-Young is not re-proved",
        "DenseSVD returns all min(m, n) triplets whatever k and which are; the property is read as U Sigma V^H = A there",
        "full rank is a hypothesis of the pinv statement (full_rank of C16_pinv_structural): zero entries of a Diagonal / ScalarMul (where the code "
        "returns inf) are outside",
        "PARAMETER CONTRACTS (hypotheses of the theorems, NOT proved; the real libraries meet them only to the tolerances of the oracle): "
        "lapack_contract / LapackSorted (np.linalg.svd: thin SVD, real non-negative descending values); eigs_contract / EigsSorted (lanczos_eigs, "
        "lobpcg: orthonormal eigenpairs of the Gram matrix, positive ascending eigenvalues) and ritz_contract (partial Lanczos runs: Galerkin "
        "condition); lstsq_contract (np.linalg.lstsq: minimum-norm least-squares solution); sqrt_contract, inv_contract, abs_contract, lt_contract "
        "(scalar primitives sqrt, reciprocal, modulus, < on reals); the CG antecedents hsolve / hkrylov of C16_pinv_cg_value / _full_rank (CG returns a "
        "Krylov-space solution of the normal equations). No Svd file imports a C12 / C14 module: none of these is derived from those families",
        "OPERAND HYPOTHESES: A_good (= Op.Good: wf, no repeated slice index, HermOK; C01 / C05) and A_real (real dtype => real payload) are "
        "hypotheses about the operand, guaranteed by the generator and re-checked per case (wf, td_eq_den, den vs to_dense); W_good is no longer "
        "assumed for the real eigensolver outputs: C16_lanczos_W_good proves it from the shape EigShape, which the driver decides per case (w_shape) "
        "together with wf && !dupSlice (w_good)",
        "LEAN WITNESSES exist for lapack_contract, LapackSorted, lt_contract, eigs_contract, EigsSorted, EigShape, ritz_contract, lstsq_contract, "
        "sqrt_contract, inv_contract, A_good, A_real, round 5: abs_contract, the wide branch (model and matrix level, 'SM'), a complex carrier at the "
        "matrix level and for svd(Diagonal) (coverage.contracts.lean_witnesses); NOT witnessed: the CG antecedents, the model-level Krylov rule over C",
        "the ORDER of the values the real libraries return is observed on every case (eigs_ascending, lapack_descending); a disorder is reported as "
        "a broken contract",
        "LOBPCG computes in single precision (lobpcg.py: float32 / complex64): its cases are checked at the single-precision tolerances (x 1e4), "
        "real and complex operators, which in {LM, SM}, k < n; k >= n is the recorded finding lobpcg-k-ge-n (known_findings.json), excused per case "
        "only when cols <= k (model: lobpcgClauses; oracle: the same predicate) AND the failure is exactly 'n - 1 triplets returned'; the n - 1 "
        "returned triplets must still satisfy everything else",
        "partial Lanczos runs (max_iters < Gram size) return Ritz triplets: checked are orthonormal factors, Sigma >= 0, the residual identity "
        "U Sigma V^H = A V V^H (resp. U U^H A) and the Ritz bounds, not the truncated SVD",
        "pinv through CG computes (cg(A^H A, A^H b) + cons * A^H b) with cons = get_precision(dtype) * max(m, n): the property holds up to "
        "cons * |A^H b| (float64: <= 5e-13 |x| on the generated inputs), checked with TOL_CG = 1e-8",
    ])


def witness_cases():
    """the exact inputs of the Lean witness theorems (Lemmas/SvdWitness.lean: C16_svd_dense_witness, C16_svd_krylov_witness,
    C16_svd_krylov_sorted_witness, C16_krylov_ritz_witness, C16_pinv_lstsq_witness; round 5, Properties/C16/Witnesses.lean: the
    wide / 'SM' / complex / Diagonal witnesses) through the same three-way comparison"""
    A2 = ["dense", "f64", 2, 2, [[0, 2], [1, 0]]]
    A3 = ["dense", "f64", 3, 2, [[-12, 9], [12, 16], [0, 0]]]
    B2 = ["dense", "f64", 2, 2, [[0, 2], [5, 0]]]
    sv = [{"fn": "svd", "op": A3, "k": 2, "which": "LM", "alg": "dense", "wrapper": "witness"},
          {"fn": "svd", "op": A2, "k": 2, "which": "LM", "alg": "lanczos", "wrapper": "witness"},
          {"fn": "svd", "op": A2, "k": 1, "which": "LM", "alg": "lanczos", "wrapper": "witness"},
          {"fn": "svd", "op": A2, "k": 1, "which": "SM", "alg": "lanczos", "wrapper": "witness"},
          {"fn": "svd", "op": B2, "k": 1, "which": "LM", "alg": "lanczos", "max_iters": 1, "wrapper": "witness"}]
    # round 5 (Properties/C16/Witnesses.lean): the WIDE branch with 'SM' (C16_svd_krylov_wide_sm_witness), a partial run on the wide
    # branch (C16_krylov_wide_ritz_witness), the complex wide operand (C16_krylov_wide_complex_witness), Diagonal with a negative and
    # a zero entry / complex entries (C16_svd_diagonal_abs_witness, C16_svd_diagonal_complex_witness)
    Aw = ["dense", "f64", 2, 3, [[0, 1, 0], [2, 0, 0]]]
    Bw = ["dense", "f64", 2, 3, [[0, 5, 0], [2, 0, 0]]]
    Ac = ["dense", "c128", 1, 2, [[3, [0, 4]]]]
    Dr = ["diag", "f64", [-3, 0, 2]]
    Dc = ["diag", "c128", [[3, 4], -2, 0]]
    sv += [{"fn": "svd", "op": Aw, "k": 1, "which": "SM", "alg": "lanczos", "wrapper": "witness"},
           {"fn": "svd", "op": Aw, "k": 1, "which": "LM", "alg": "lanczos", "wrapper": "witness"},
           {"fn": "svd", "op": Aw, "k": 2, "which": "SM", "alg": "lanczos", "wrapper": "witness"},
           {"fn": "svd", "op": Bw, "k": 1, "which": "LM", "alg": "lanczos", "max_iters": 1, "wrapper": "witness"},
           {"fn": "svd", "op": Ac, "k": 1, "which": "LM", "alg": "lanczos", "wrapper": "witness"},
           {"fn": "svd", "op": Ac, "k": 1, "which": "LM", "alg": "dense", "wrapper": "witness"},
           {"fn": "svd", "op": Dr, "k": 3, "which": "LM", "alg": "omitted", "wrapper": "witness"},
           {"fn": "svd", "op": Dc, "k": 3, "which": "SM", "alg": "omitted", "wrapper": "witness"}]
    pv = [{"fn": "pinv", "op": A3, "alg": alg, "wrapper": "witness", "rhs_seed": 16} for alg in ("lstsq", "cg", "omitted")]
    return sv, pv


def lobpcg_cases(ctx, rng, g):
    """LOBPCG through the same three-way comparison: real and complex operands, which in {LM, SM}, k < n (the stated
    single-precision claim), and witnesses of the recorded finding `lobpcg-k-ge-n`"""
    out = []
    shapes = [(6, 4), (5, 5), (4, 6), (8, 3)] + ([(7, 7), (3, 8), (8, 8), (6, 2)] if ctx.thorough else [])
    for (m, n) in shapes:
        for cplx in (False, True):
            wrapper = rng.choice(["dense", "generic", "sum", "prod", "T"])
            e = make_operand(g, m, n, cplx, wrapper)
            kmax = min(m, n - 1)
            for k in sorted({1, kmax, rng.randint(1, kmax)}):
                # 'SM' on a wide operand would select zero eigenvalues of the rank-deficient Gram operator A^H A: outside full rank
                for which in (("LM", "SM") if n <= m else ("LM",)):
                    out.append({"fn": "svd", "op": e, "k": k, "which": which, "alg": "lobpcg", "wrapper": wrapper})
    # the recorded finding (expected: the real code agrees with the model and violates the property -> KNOWN-FINDING)
    for cplx in (False, True):
        e = make_operand(g, 5, 5, cplx, "dense")
        out.append({"fn": "svd", "op": e, "k": 5, "which": "LM", "alg": "lobpcg", "wrapper": "dense"})
    return out


# ------------------------------------------------------------------ the live dispatch tables
# what Model/Svd.lean models: (class of the operator argument, class of the algorithm argument, has a condition)
MODELLED = {
    "pinv": {("LinearOperator", "Auto", False), ("LinearOperator", "CG", False), ("LinearOperator", "LSTSQ", False),
             ("Identity", "Algorithm", False), ("ScalarMul", "Algorithm", False), ("Diagonal", "Algorithm", False),
             ("Permutation", "Algorithm", False)},
    "svd": {("LinearOperator", "Auto", False), ("LinearOperator", "DenseSVD", False), ("LinearOperator", "Lanczos", False),
            ("LinearOperator", "LOBPCG", False), ("Identity", "Algorithm", False), ("Diagonal", "Algorithm", False)},
}


def hint_classes(h):
    import types
    import typing
    if isinstance(h, types.UnionType) or typing.get_origin(h) is typing.Union:
        out = []
        for a in typing.get_args(h):
            out += hint_classes(a)
        return out
    return [h] if isinstance(h, type) else []


def live_rules(fname):
    """the registered signatures of `fname`, read from the running plum dispatcher (as harness/translators/dump_rules.py does)"""
    import inspect
    import plum
    lib()          # imports cola.linalg.svd.svd (not imported by `import cola`)
    f = plum.dispatch.functions[fname]
    f._resolve_pending_registrations()
    out = []
    for sg in f._resolver.signatures:
        impl = inspect.unwrap(sg.implementation)
        out.append({"types": list(sg.types), "cond": sg.condition, "prec": sg.precedence,
                    "impl": f"{impl.__module__}:{impl.__code__.co_firstlineno}",
                    "op_classes": hint_classes(sg.types[0]), "alg_classes": hint_classes(sg.types[-1]),
                    "key": [(a.__name__, b.__name__, sg.condition is not None)
                            for a in hint_classes(sg.types[0]) for b in hint_classes(sg.types[-1])]})
    return out


def dispatch_stream(ctx, eng, rng, cat):
    """every live signature of pinv / svd: is it modelled, and how many catalogue instances (matching its types AND its condition)
    were exercised; an unmodelled signature is a broken correspondence - its matching instances are searched for a failing input"""
    L = lib()
    report = {}
    insts = []
    for inst in cat:
        try:
            A = build.Builder().build(inst["op"])
            insts.append((inst, A, np.asarray(A.to_dense())))
        except Exception:  # noqa: BLE001
            pass
    algs = {"pinv": [("omitted", None)] + [(a, L.pinv_alg(a)) for a in ("auto", "lstsq", "cg")],
            "svd": [("omitted", None)] + [(a, L.svd_alg(a, 8)) for a in ("auto", "dense", "lanczos", "lobpcg")]}
    for fname in ("pinv", "svd"):
        rules = live_rules(fname)
        rep = []
        seen = set()
        for rl in rules:
            keys = set(map(tuple, rl["key"]))
            seen |= keys
            modelled = bool(keys) and keys <= MODELLED[fname]
            matching = []
            for inst, A, Ad in insts:
                if not any(isinstance(A, c) for c in rl["op_classes"]):
                    continue
                for aname, alg in algs[fname]:
                    a_obj = alg if alg is not None else L.Auto()
                    if not any(isinstance(a_obj, c) for c in rl["alg_classes"]):
                        continue
                    try:
                        args = (A, a_obj) if fname == "pinv" else (A, 1, "LM", a_obj)
                        if rl["cond"] is not None and not rl["cond"](*args):
                            continue
                    except Exception:  # noqa: BLE001
                        continue
                    matching.append((inst, A, Ad, aname))
            rep.append({"signature": [getattr(t, "__name__", str(t)) for t in rl["types"]], "prec": int(rl["prec"]),
                        "condition": rl["cond"] is not None, "impl": rl["impl"], "modelled": modelled,
                        "catalogue_instances_matching": len(matching),
                        "kinds_matching": sorted({x[0]["kind"] for x in matching})[:12]})
            eng.stats["dispatch-signatures"] += 1
            if modelled:
                continue
            # ---- a rule the model does not know: search its domain for an input on which the real code violates the property
            eng.stats["dispatch-unmodelled"] += 1
            found = None
            order = sorted(matching, key=lambda x: (x[0]["kind"] not in ("prod-wide-tall", "prod-wide-sq-tall"), rng.random()))
            for inst, A, Ad, aname in order[:200]:
                if fname == "pinv":
                    c2 = {"fn": "pinv", "op": inst["op"], "alg": aname, "wrapper": "kind:" + inst["kind"], "rhs_seed": 1}
                    fails, summ = pinv_numeric(c2, A, Ad, None)
                else:
                    r = min(Ad.shape)
                    if aname in ("lanczos", "lobpcg") and inst["sep"] < SEP_MIN:
                        continue
                    if aname == "lobpcg" and r < 2:
                        continue
                    c2 = {"fn": "svd", "op": inst["op"], "k": r if aname != "lobpcg" else min(r, Ad.shape[1] - 1), "which": "LM", "alg": aname,
                          "wrapper": "kind:" + inst["kind"]}
                    try:
                        U, S, V = run_real_svd(c2, A)
                        plan_rule = {"omitted": "dense", "auto": "dense"}.get(aname, aname)
                        fails, summ = svd_oracle(c2, plan_rule, Ad, U, S, V), {}
                    except Exception as ex:  # noqa: BLE001
                        fails, summ = [f"raised {type(ex).__name__}: {str(ex)[:120]}"], {}
                if fails:
                    found = (c2, fails, summ)
                    break
            sig_txt = f"{fname}({', '.join(getattr(t, '__name__', str(t)) for t in rl['types'])})" + (" with a condition" if rl["cond"] is not None else "")
            if found is not None:
                c2, fails, summ = found
                eng.violate({"case": strip(c2), "real": summ, "spec_failures": fails,
                             "why": f"the live dispatch table has the rule {sig_txt} at {rl['impl']} which the model does not have; on this input "
                                    f"(it matches the rule's signature and condition) the real code violates the property",
                             "replay_cmd": f"./check {ctx.prop} quick --replay <this file>"})
            else:
                eng.violate({"broken": f"dispatch table of {fname}: the rule {sig_txt} at {rl['impl']} is not modelled "
                                       f"({len(matching)} catalogue instances match it; the property held on all of them)"}, no_input=True)
        for key in sorted(MODELLED[fname] - seen):
            eng.violate({"broken": f"dispatch table of {fname}: the modelled rule {key} is not registered in the live dispatcher"}, no_input=True)
        report[fname] = rep
    return report


# ------------------------------------------------------------------ larger sizes: float side only
def large_operand(case):
    gl = np.random.default_rng(case["gen"]["seed"])
    A, *_ = make_matrix(gl, case["gen"]["m"], case["gen"]["n"], case["gen"]["cplx"])
    L = lib()
    w = case["gen"]["wrapper"]
    D = L.cola.ops.Dense
    if w == "dense":
        return D(A), A
    if w == "sum":
        N = 0.25 * gl.standard_normal(A.shape)
        return D(A / 2 + N) + D(A / 2 - N), A
    if w == "prod":
        u, s, vh = np.linalg.svd(A, full_matrices=False)
        return D(u * np.sqrt(s)) @ D(np.sqrt(s)[:, None] * vh), A
    raise ValueError(w)


def large_cases(ctx, rng):
    shapes = [(20, 12), (12, 20), (30, 30), (40, 25), (25, 40), (60, 40)] + ([(80, 80), (120, 80), (50, 100)] if ctx.thorough else [])
    cases = []
    for (m, n) in shapes:
        for cplx in (False, True):
            gen = {"m": m, "n": n, "cplx": cplx, "seed": rng.getrandbits(32), "wrapper": rng.choice(["dense", "dense", "sum", "prod"])}
            r = min(m, n)
            for k, which in ((r, "LM"), (rng.randint(1, r - 1), "LM"), (rng.randint(1, r - 1), "SM")):
                cases.append({"fn": "svd", "float_only": True, "gen": gen, "k": k, "which": which, "alg": "lanczos", "wrapper": "large"})
            for j in sorted({rng.randint(2, r // 2), rng.randint(r // 2, r - 1)}):
                cases.append({"fn": "svd", "float_only": True, "gen": gen, "k": rng.randint(1, j), "which": rng.choice(["LM", "SM"]), "alg": "lanczos",
                              "max_iters": j, "wrapper": "large"})
            cases.append({"fn": "svd", "float_only": True, "gen": gen, "k": 1, "which": "LM", "alg": "dense", "wrapper": "large"})
            for alg in ("lstsq", "cg"):
                cases.append({"fn": "pinv", "float_only": True, "gen": gen, "alg": alg, "wrapper": "large", "rhs_seed": rng.getrandbits(32)})
    return cases


def eval_float_only(eng, cases):
    """real code + oracle on inputs too large for the exact model run; counted separately (`ok-float`)"""
    for c in cases:
        A, Ad_nominal = large_operand(c)
        Ad = np.asarray(A.to_dense())
        m, n = Ad.shape
        if c["fn"] == "svd":
            rule = c["alg"]
            try:
                U, S, V = run_real_svd(c, A)
                fails = svd_oracle(c, rule, Ad_nominal, U, S, V)
            except Exception as ex:  # noqa: BLE001
                fails = [f"svd raised {type(ex).__name__}: {str(ex)[:120]}"]
            eng.dist["float-only:svd-" + rule + ("-partial" if is_partial(c, rule, m, n) else "")] += 1
        else:
            fails, _ = pinv_numeric(c, A, Ad, None, eng.maxerr, ref=Ad_nominal)
            eng.dist["float-only:pinv-" + c["alg"]] += 1
        eng.stats["evaluations"] += 1
        if fails:
            eng.stats["violation"] += 1
            eng.violate({"case": strip(c), "spec_failures": fails,
                         "why": "the real code violates the property on this input (float side only: the operand is regenerated from `gen`)",
                         "replay_cmd": f"./check {eng.ctx.prop} quick --replay <this file>"})
        else:
            eng.stats["ok-float"] += 1
