"""C06, float-side stream: inv / solve on the real code at sizes the exact (Gaussian-rational) stream cannot reach.

For every dispatch path of cola/linalg/inverse/inv.py (Dense -> LU / Cholesky, Triangular, Diagonal, ScalarMul, Identity,
Permutation, Kronecker, BlockDiag, Product (square members: member-wise; non-square members: algorithm), the classes without a
rule (Sum, Transpose, Adjoint, no_dispatch, Sparse), CG, GMRES, Auto / omitted) operators of extent 9..200 with a prescribed
2-norm condition number (up to 1e6 in double, 1e3 in single precision) are built, `inv(A, alg) @ b`, `solve(A, b, alg)` and (direct
paths) `xl @ inv(A)` are run in-process and compared with

  (1) a RESIDUAL claim with a derived bound: per column  ||b - A x||_2 <= delta(path) * ||x||_2, the residual evaluated in
      80-bit extended precision (np.longdouble) from the payloads (never from cola's to_dense), and
  (2) a high-precision REFERENCE solve (LAPACK solve + iterative refinement with extended-precision residuals):
      ||x - x_ref||_2 <= delta * ||x||_2 / sigma_min(A) + 1e-9 ||x_ref||_2 * [reference accuracy].

delta(path) is a bound on the 2-norm of the backward perturbation, composed along the rules that fire (u = unit roundoff of
the working precision, gamma_k = k u / (1 - k u), factor 4 for complex arithmetic, factor 2 for blocked LAPACK variants):
  Identity, Permutation      0
  ScalarMul c, Diagonal d    8 u |c|,  8 u max|d|                 (reciprocal, then one multiplication)
  Triangular T               8 gamma_n ||T||_F                    ((T + dT) x = b, |dT| <= gamma_n |T|; Higham, ASNA 2nd ed., Thm 8.5)
  LU on the dense form A     8 gamma_3n || |L||U| ||_F            (Thm 9.4, L, U recomputed with scipy.linalg.lu)
  Cholesky on A              8 gamma_(3n+1) || |L||L^H| ||_F      (Thm 10.4)
  CG(tol), k iterations      eta/(1-eta) ||A||_2, eta = 2 tol + 50 k u kappa_2(A)
                             (exit test of run_cg: every column's recursive residual <= tol ||r0|| + tol = 2 tol in the
                             normalised system, C12_stop; the second term bounds the drift of the recursive residual)
  GMRES(max_iters >= n)      eta/(1-eta) ||A||_2, eta = 100 n u kappa_2(A)      (full Krylov space; HEURISTIC constant, not derived: the
                             backward error of a Gram-Schmidt GMRES is O(n^2 u) in theory, measured ~1e-3 of this bound)
  Unitary(A), plain Algorithm  eps_Q + 2 gamma_n sqrt(n), eps_Q = ||I - A A^H||_2 measured (the rule returns A^H: the declaration
                             is true only up to the rounding of the payload; one product with A^H)
  densification of Sum / non-square Product before a factorisation: + u ||A||_F, + gamma_k || |A1||A2| ||_F
  Product / Kronecker M1..Mk prod_i (||Mi||_2 + delta_i) - prod_i ||Mi||_2      (sequential solves, exact composition)
  BlockDiag                  max_i delta_i
The structure of the returned operator (kind tree, shape, dtype) is compared with the Lean rule model (`"call":"skel"` of
DriverC06.lean, payloads omitted).  A case whose claim cannot be evaluated (eta >= 1/2, driver answer missing) is counted as
not compared with the reason."""
import collections
import time

import numpy as np
import scipy.linalg

LD, CLD = np.longdouble, np.clongdouble
UNIT = {"f32": 2.0 ** -24, "f64": 2.0 ** -53, "c64": 2.0 ** -24, "c128": 2.0 ** -53}
NPDT = {"f32": np.float32, "f64": np.float64, "c64": np.complex64, "c128": np.complex128}
GENERIC_WRAPS = [None, None, None, "sum", "T", "H", "generic", "sparse", "nsprod"]
PATHS = ["lu", "lu", "chol", "chol", "tri", "tri", "diag", "scalar", "eye", "perm", "kron", "kron", "bdiag", "bdiag", "prod", "prod",
         "nsprod", "wrapped", "cg", "cg", "gmres", "composite", "composite", "composite-iter", "unitary"]
CG_TOL, CG_ITERS = 1e-8, 4000


def cplx(dt):
    return dt in ("c64", "c128")


def gam(k, u):
    return k * u / (1.0 - k * u)


class FloatGen:
    def __init__(self, rng):
        self.rng = rng
        self.rs = np.random.RandomState(rng.randrange(2 ** 31 - 1))

    # ---- payloads
    def orth(self, n, c):
        M = self.rs.randn(n, n) + (1j * self.rs.randn(n, n) if c else 0)
        return np.linalg.qr(M)[0]

    def sing(self, n, kappa):
        if n == 1:
            return np.array([1.0])
        s = np.logspace(0, -np.log10(kappa), n)
        return s * self.rng.choice([1.0, 4.0, 0.25])

    def general(self, n, kappa, c):
        return (self.orth(n, c) * self.sing(n, kappa)) @ self.orth(n, c).conj().T

    def hpd(self, n, kappa, c):
        Q = self.orth(n, c)
        G = (Q * self.sing(n, kappa)) @ Q.conj().T
        G = (G + G.conj().T) / 2
        if c:
            G[np.diag_indices(n)] = G[np.diag_indices(n)].real
        return G

    def dt(self, single, c=None):
        c = self.rng.random() < 0.35 if c is None else c
        return ("c64" if c else "f32") if single else ("c128" if c else "f64")

    def cast(self, a, dt):
        return np.ascontiguousarray(np.asarray(a).astype(NPDT[dt]) if cplx(dt) else np.asarray(a).real.astype(NPDT[dt]))

    # ---- leaves
    def struct_leaf(self, n, kappa, single, kind=None):
        rng = self.rng
        dt = self.dt(single)
        kind = kind or rng.choice(["eye", "scalar", "diag", "perm", "tri", "tri"])
        if kind == "eye":
            return {"k": "eye", "dt": dt, "n": n}
        if kind == "scalar":
            c = rng.uniform(0.25, 4.0) * rng.choice([1, -1])
            if cplx(dt) and rng.random() < 0.5:
                c = c * np.exp(1j * rng.uniform(0, 6.28))
            return {"k": "scalar", "dt": dt, "n": n, "c": NPDT[dt](c)}
        if kind == "diag":
            d = self.sing(n, kappa) * self.rs.choice([1.0, -1.0], size=n)
            if cplx(dt):
                d = d * np.exp(1j * self.rs.uniform(0, 6.28, size=n))
            self.rs.shuffle(d)
            return {"k": "diag", "dt": dt, "n": n, "d": self.cast(d, dt)}
        if kind == "perm":
            p = list(range(n))
            rng.shuffle(p)
            return {"k": "perm", "dt": dt, "n": n, "p": p}
        lower = rng.random() < 0.5
        R = np.linalg.qr(self.general(n, kappa, cplx(dt)))[1]      # upper triangular, the singular values of the draw
        a = np.tril(R.T) if lower else np.triu(R)
        return {"k": "tri", "dt": dt, "n": n, "lower": lower, "a": self.cast(a, dt)}

    def generic_leaf(self, n, kappa, single, psd, wrap="any", c=None):
        rng = self.rng
        dt = self.dt(single, c)
        cx = cplx(dt)
        if wrap == "any":
            wrap = rng.choice(GENERIC_WRAPS)
        M = self.hpd(n, kappa, cx) if psd else self.general(n, kappa, cx)
        node = {"k": "dense", "dt": dt, "n": n, "psd": psd, "wrap": wrap}
        if wrap in (None, "generic", "sparse"):
            node["a"] = self.cast(M, dt)
        elif wrap == "T":
            node["a"] = self.cast(M.T, dt)
        elif wrap == "H":
            node["a"] = self.cast(M.conj().T, dt)
        elif wrap == "sum":
            a1 = self.cast(0.5 * M + 0.1 * np.linalg.norm(M, 2) * (self.rs.randn(n, n) if not psd else np.eye(n)), dt)
            node["a1"], node["a2"] = a1, self.cast(M - a1.astype(np.complex128 if cx else np.float64), dt)
        elif wrap == "nsprod":
            Q = self.orth(n, cx)
            col = self.rs.randn(n, 1)
            node["a1"] = self.cast(np.hstack([Q, col]), dt)
            node["a2"] = self.cast(np.vstack([Q.conj().T @ M, np.zeros((1, n))]), dt)
        return node

    def unitary_leaf(self, n, single):
        dt = self.dt(single)
        return {"k": "dense", "dt": dt, "n": n, "psd": False, "unitary": True, "wrap": None, "a": self.cast(self.orth(n, cplx(dt)), dt)}

    # ---- trees
    def factor(self, n):
        ds = [d for d in range(2, n) if n % d == 0]
        if not ds:
            return [n, 1] if self.rng.random() < 0.5 else [1, n]
        d = self.rng.choice(ds)
        rest = [n // d]
        if self.rng.random() < 0.3 and len([e for e in range(2, n // d) if (n // d) % e == 0]) > 0:
            rest = self.factor(n // d)
        out = [d] + rest
        self.rng.shuffle(out)
        return out

    def blocks(self, n):
        for _ in range(40):
            nb = self.rng.choice([1, 2, 2, 3])
            parts, left = [], n
            for i in range(nb):
                m = self.rng.choice([1, 1, 2, 3])
                if left < m:
                    break
                s = self.rng.randint(1, max(1, left // m)) if i < nb - 1 else (left // m if left % m == 0 else 0)
                if s == 0:
                    break
                parts.append((s, m))
                left -= s * m
            if left == 0 and parts:
                return parts
        return [(n, 1)]

    def tree(self, n, depth, kappa, single, psd, p_generic=0.5, wraps="any", kind=None):
        rng = self.rng
        if kind is None and (depth <= 0 or n == 1 or rng.random() < 0.2):
            if rng.random() < p_generic:
                return self.generic_leaf(n, kappa, single, psd, wrap=(None if psd and rng.random() < 0.6 else wraps))
            return self.struct_leaf(n, kappa, single)
        kind = kind or rng.choice(["prod", "kron", "bdiag"])
        if kind == "prod":
            m = rng.choice([2, 2, 3])
            kk = kappa ** (1.0 / m)
            return {"k": "prod", "n": n, "kids": [self.tree(n, depth - 1, kk, single, psd, p_generic, wraps) for _ in range(m)]}
        if kind == "kron":
            fs = self.factor(n)
            kk = kappa ** (1.0 / len(fs))
            return {"k": "kron", "n": n, "kids": [self.tree(f, depth - 1, kk, single, psd, p_generic, wraps) for f in fs]}
        parts = self.blocks(n)
        return {"k": "bdiag", "n": n, "kids": [self.tree(s, depth - 1, kappa, single, psd, p_generic, wraps) for (s, _) in parts],
                "mults": [m for (_, m) in parts]}

    def size(self, lo=9, hi=200):
        r = self.rng.random()
        if r < 0.15:
            return self.rng.choice([100, 128, 199, 200])
        if r < 0.5:
            return self.rng.randint(lo, min(hi, 48))
        return self.rng.randint(lo, hi)

    def case(self, path, quick=True):
        rng = self.rng
        single = rng.random() < 0.2
        kmax = 3.0 if single else 6.0
        kappa = 10 ** rng.uniform(0, kmax)
        if rng.random() < 0.15:
            kappa = 10 ** kmax
        n = self.size()
        alg = rng.choice(["omitted", "Auto", "LU"])
        any_alg = rng.choice(["omitted", "Auto", "LU", "Cholesky", "CG", "GMRES"])
        if path == "lu":
            A = self.generic_leaf(n, kappa, single, rng.random() < 0.2, wrap=None)
            if A["psd"]:
                alg = "LU"                                    # explicit LU on a PSD-declared operator
        elif path == "chol":
            A = self.generic_leaf(n, kappa, single, True, wrap=rng.choice([None, None, "sum", "generic"]))
            alg = rng.choice(["omitted", "Auto", "Cholesky"])
        elif path in ("tri", "diag", "scalar", "eye", "perm"):
            A = self.struct_leaf(n, kappa, single, kind=path)
            alg = any_alg
        elif path in ("kron", "bdiag", "prod"):
            psd = rng.random() < 0.35
            A = self.tree(n, 1 if rng.random() < 0.7 else 2, kappa, single, psd, kind=path)
            alg = rng.choice(["omitted", "Auto", "LU"] + (["Cholesky", "Cholesky"] if psd else []))
        elif path == "nsprod":
            A = self.generic_leaf(n, kappa, single, False, wrap="nsprod")
        elif path == "wrapped":
            A = self.generic_leaf(n, kappa, single, False, wrap=rng.choice(["sum", "T", "H", "generic", "sparse"]))
        elif path == "cg":
            single = False
            kappa = 10 ** rng.uniform(0, 3)
            A = self.generic_leaf(n, kappa, False, True, wrap=rng.choice([None, None, "sum", "generic"]))
            alg = "CG"
        elif path == "gmres":
            single = False
            n = rng.randint(9, 24 if quick else 40)
            kappa = 10 ** rng.uniform(0, 2)
            A = self.generic_leaf(n, kappa, False, False, wrap=rng.choice([None, None, "sum", "T", "generic"]))
            alg = "GMRES"
        elif path == "unitary":
            A = self.unitary_leaf(n, single)
            alg = rng.choice(["Other", "Other", "LU", "omitted"])
        elif path == "composite-iter":
            single = False
            n = rng.randint(9, 60)
            kappa = 10 ** rng.uniform(0, 2)
            A = self.tree(n, 1, kappa, False, True, p_generic=0.7, wraps=None)
            alg = "CG"
        else:
            psd = rng.random() < 0.3
            A = self.tree(n, 2, kappa, single, psd)
            alg = rng.choice(["omitted", "Auto", "LU"] + (["Cholesky"] if psd else []))
        n = A["n"]
        bdt = self.dt(single)
        k = rng.choice([0, 1, 2, 3])                          # 0: 1-D right-hand side
        b = self.rs.randn(n, max(k, 1)) + (1j * self.rs.randn(n, max(k, 1)) if cplx(bdt) else 0)
        xl = self.rs.randn(rng.choice([1, 2]), n) + (1j * self.rs.randn(1, n) if cplx(bdt) else 0)
        return {"path": path, "tree": A, "alg": alg, "kappa_target": kappa, "single": single, "bdt": bdt, "vec": k == 0,
                "b": self.cast(b, bdt), "xl": self.cast(xl, bdt), "gmres_iters": n}


# ---------------------------------------------------------------------------------------------- three views of a tree
def expr(t):
    """case-language expression WITHOUT payloads (rule selection does not read them)"""
    k = t["k"]
    if k == "eye":
        return ["eye", t["dt"], t["n"]]
    if k == "scalar":
        return ["scalar", t["dt"], 2, t["n"]]
    if k == "diag":
        return ["diag", t["dt"], [1] * t["n"]]
    if k == "perm":
        return ["perm", t["dt"], list(t["p"])]
    if k == "tri":
        return ["tri", t["dt"], t["n"], t["n"], bool(t["lower"]), []]
    if k == "dense":
        # a class without an inv rule: the selection reads its declarations, shape and dtype only
        e = ["dense", t["dt"], t["n"], t["n"], []]
        if t.get("unitary"):
            e = ["ann", "Unitary", e]
        return ["ann", "PSD", e] if t["psd"] else e
    if k == "prod":
        return ["prod"] + [expr(x) for x in t["kids"]]
    if k == "kron":
        return ["kron"] + [expr(x) for x in t["kids"]]
    if k == "bdiag":
        return ["bdiag", [expr(x) for x in t["kids"]], list(t["mults"])]
    raise ValueError(k)


def build(t):
    """the real cola operator"""
    import cola
    from cola import ops
    k = t["k"]
    if k == "eye":
        return ops.Identity(shape=(t["n"], t["n"]), dtype=NPDT[t["dt"]])
    if k == "scalar":
        return ops.ScalarMul(NPDT[t["dt"]](np.asarray(t["c"]).reshape(())[()]), shape=(t["n"], t["n"]), dtype=NPDT[t["dt"]])
    if k == "diag":
        return ops.Diagonal(t["d"])
    if k == "perm":
        return ops.Permutation(np.array(t["p"], dtype=np.int64), dtype=NPDT[t["dt"]])
    if k == "tri":
        return ops.Triangular(t["a"], lower=bool(t["lower"]))
    if k == "dense":
        w = t["wrap"]
        if w is None:
            A = ops.Dense(t["a"])
        elif w == "T":
            A = ops.Transpose(ops.Dense(t["a"]))
        elif w == "H":
            A = ops.Adjoint(ops.Dense(t["a"]))
        elif w == "generic":
            A = cola.fns.no_dispatch(ops.Dense(t["a"]))
        elif w == "sparse":
            ii, jj = np.nonzero(np.ones_like(t["a"], dtype=bool))
            A = ops.Sparse(np.ascontiguousarray(t["a"][ii, jj]), ii.astype(np.int64), jj.astype(np.int64), shape=t["a"].shape)
        elif w == "sum":
            A = ops.Sum(ops.Dense(t["a1"]), ops.Dense(t["a2"]))
        elif w == "nsprod":
            A = ops.Product(ops.Dense(t["a1"]), ops.Dense(t["a2"]))
        else:
            raise ValueError(w)
        if t.get("unitary"):
            A = cola.Unitary(A)
        return cola.PSD(A) if t["psd"] else A
    if k == "prod":
        return ops.Product(*[build(x) for x in t["kids"]])
    if k == "kron":
        return ops.Kronecker(*[build(x) for x in t["kids"]])
    if k == "bdiag":
        return ops.BlockDiag(*[build(x) for x in t["kids"]], multiplicities=list(t["mults"]))
    raise ValueError(k)


def wide(a):
    a = np.asarray(a)
    return a.astype(CLD) if np.iscomplexobj(a) else a.astype(LD)


def leaf_matrix(t, ld):
    """the represented matrix of a leaf from its payloads (extended precision if ld)"""
    cv = wide if ld else (lambda a: np.asarray(a).astype(np.complex128 if np.iscomplexobj(a) else np.float64))
    k, n = t["k"], t["n"]
    if k == "eye":
        return cv(np.eye(n))
    if k == "scalar":
        return cv(np.eye(n)) * cv(np.asarray(t["c"]))
    if k == "diag":
        return np.diag(cv(t["d"]))
    if k == "perm":
        return cv(np.eye(n)[t["p"]])                # Permutation(p) @ X = X[p]
    if k == "tri":
        return cv(t["a"])
    w = t["wrap"]
    if w in (None, "generic", "sparse"):
        return cv(t["a"])
    if w == "T":
        return cv(t["a"]).T
    if w == "H":
        return cv(t["a"]).conj().T
    if w == "sum":
        return cv(t["a1"]) + cv(t["a2"])
    return cv(t["a1"]) @ cv(t["a2"])


def apply(t, X, ld=True):
    """A @ X from the payloads, factor by factor (extended precision): the specification side of the residual"""
    k = t["k"]
    if k in ("eye", "scalar", "diag", "perm", "tri", "dense"):
        return leaf_matrix(t, ld) @ X
    if k == "prod":
        for x in reversed(t["kids"]):
            X = apply(x, X, ld)
        return X
    if k == "bdiag":
        out, off = [], 0
        for x, m in zip(t["kids"], t["mults"]):
            for _ in range(m):
                out.append(apply(x, X[off:off + x["n"]], ld))
                off += x["n"]
        return np.concatenate(out, axis=0)
    if k == "kron":
        dims = [x["n"] for x in t["kids"]]
        cols = X.shape[1]
        T = X.reshape(dims + [cols])
        for ax, x in enumerate(t["kids"]):
            T = np.moveaxis(T, ax, 0)
            sh = T.shape
            T = apply(x, T.reshape(sh[0], -1), ld).reshape(sh)
            T = np.moveaxis(T, 0, ax)
        return T.reshape(-1, cols)
    raise ValueError(k)


def dense64(t):
    k = t["k"]
    if k in ("eye", "scalar", "diag", "perm", "tri", "dense"):
        return leaf_matrix(t, False)
    ms = [dense64(x) for x in t["kids"]]
    if k == "prod":
        out = ms[0]
        for m in ms[1:]:
            out = out @ m
        return out
    if k == "kron":
        out = ms[0]
        for m in ms[1:]:
            out = np.kron(out, m)
        return out
    blocks = []
    for m, mult in zip(ms, t["mults"]):
        blocks += [m] * mult
    return scipy.linalg.block_diag(*blocks)


# ---------------------------------------------------------------------------------------------- the plan and its budget
def is_psd_declared(t):
    return t["k"] == "dense" and t["psd"]


def plan(t, alg):
    """which rule fires where (mirror of the rule table, CHECKED against the Lean model's kind tree on every case)"""
    k = t["k"]
    if k in ("eye", "scalar", "diag", "perm", "tri"):
        return {"p": k, "t": t}
    if k == "prod":
        return {"p": "prod", "kids": [plan(x, alg) for x in reversed(t["kids"])]}
    if k == "kron":
        return {"p": "kron", "kids": [plan(x, alg) for x in t["kids"]]}
    if k == "bdiag":
        return {"p": "bdiag", "kids": [plan(x, alg) for x in t["kids"]], "mults": t["mults"]}
    eff = alg
    if alg == "Other":
        return {"p": "unitary", "t": t} if t.get("unitary") else {"p": "error", "err": "not-found"}
    if alg in ("omitted", "Auto"):
        eff = "Cholesky" if is_psd_declared(t) else "LU"          # at most 200^2 <= 10^6 entries
    if eff in ("Cholesky", "CG") and not is_psd_declared(t):
        return {"p": "error", "err": "error:AssertionError"}
    return {"p": {"LU": "lu", "Cholesky": "chol", "CG": "cg", "GMRES": "gmres"}[eff], "t": t}


def plan_error(pl):
    if pl["p"] == "error":
        return pl["err"]
    for x in pl.get("kids", []):
        e = plan_error(x)
        if e:
            return e
    return None


def plan_skel(pl):
    """kinds only, in the format of the driver's invSkel with the annotation lists dropped"""
    p = pl["p"]
    if p in ("eye", "scalar", "diag", "perm"):
        return [p]
    if p == "tri":
        return ["triinv"]
    if p == "lu":
        return ["prod", ["triinv"], ["triinv"], ["perm"]]
    if p == "chol":
        return ["prod", ["triinv"], ["triinv"]]
    if p == "unitary":
        return ["dense"]
    if p == "cg":
        return ["iter:CG"]
    if p == "gmres":
        return ["iter:GMRES"]
    return [p] + [plan_skel(x) for x in pl["kids"]]


def kinds_only(sk):
    return [sk[0]] + [kinds_only(x) for x in sk[2:]]


def direct(pl):
    return pl["p"] not in ("cg", "gmres") and all(direct(x) for x in pl.get("kids", []))


def has_composite_default_rmatmat(pl):
    return pl["p"] in ("kron", "bdiag") or any(has_composite_default_rmatmat(x) for x in pl.get("kids", []))


class NotComparable(Exception):
    pass


def budget(pl, u, info):
    """(||M||_2, delta): delta bounds the 2-norm of the backward perturbation of the solve with M along this plan"""
    p = pl["p"]
    if p in ("prod", "kron"):
        bs = [budget(x, u, info) for x in pl["kids"]]
        nrm = float(np.prod([b[0] for b in bs]))
        return nrm, float(np.prod([b[0] + b[1] for b in bs])) - nrm
    if p == "bdiag":
        bs = [budget(x, u, info) for x in pl["kids"]]
        return max(b[0] for b in bs), max(b[1] for b in bs)
    t = pl["t"]
    n = t["n"]
    if p in ("eye", "perm"):
        return 1.0, 0.0
    if p == "scalar":
        return float(abs(t["c"])), 8 * u * float(abs(t["c"]))
    if p == "diag":
        return float(np.abs(t["d"]).max()), 8 * u * float(np.abs(t["d"]).max())
    M = leaf_matrix(t, False)
    nrm = float(np.linalg.norm(M, 2))
    if p == "tri":
        return nrm, 8 * gam(n, u) * float(np.linalg.norm(M, "fro"))
    if p == "unitary":
        eps_q = float(np.linalg.norm(np.eye(n) - M @ M.conj().T, 2))
        return nrm, 1.01 * (eps_q + 8 * gam(n, u) * np.sqrt(n))
    # densification before a factorisation (the iterative solvers multiply instead)
    dform = 0.0
    if t.get("wrap") == "sum":
        dform = u * float(np.linalg.norm(M, "fro"))
    elif t.get("wrap") == "nsprod":
        a1, a2 = np.abs(t["a1"]).astype(np.float64), np.abs(t["a2"]).astype(np.float64)
        dform = 4 * gam(n + 1, u) * float(np.linalg.norm(a1 @ a2, "fro"))
    if p == "lu":
        _, L, U = scipy.linalg.lu(M)
        info["growth"] = max(info.get("growth", 0.0), float(np.abs(U).max() / max(np.abs(M).max(), 1e-300)))
        return nrm, 8 * gam(3 * n, u) * float(np.linalg.norm(np.abs(L) @ np.abs(U), "fro")) + dform
    if p == "chol":
        try:
            L = np.linalg.cholesky((M + M.conj().T) / 2)
        except np.linalg.LinAlgError as ex:
            raise NotComparable("the payload is not numerically positive definite") from ex
        return nrm, 8 * gam(3 * n + 1, u) * float(np.linalg.norm(np.abs(L) @ np.abs(L.conj().T), "fro")) + dform
    s = np.linalg.svd(M, compute_uv=False)
    kap = float(s[0] / s[-1])
    if p == "cg":
        eta = 2 * CG_TOL + 50 * info.get("cg_iters", CG_ITERS) * u * kap
    else:
        eta = 100 * n * u * kap
    info["eta"] = max(info.get("eta", 0.0), eta)
    if eta >= 0.5:
        raise NotComparable(f"no residual claim for eta = {eta:.2g} >= 1/2")
    return nrm, eta / (1 - eta) * nrm


# ---------------------------------------------------------------------------------------------- real side + comparison
def alg_opts(name, n):
    """keyword arguments of the algorithm object of a float-side case (sent to the driver, whose model threads them to the
    solver objects: C06_solver_options)"""
    return {"CG": {"tol": CG_TOL, "max_iters": CG_ITERS}, "GMRES": {"tol": 1e-10, "max_iters": n}}.get(name, {})


def make_alg(name, n):
    from cola.linalg import Auto, LU, Cholesky, CG, GMRES
    from cola.linalg.algorithm_base import Algorithm
    if name == "Other":
        return type("PlainAlgorithm", (Algorithm, ), {})()
    kw = alg_opts(name, n)
    return {"omitted": None, "Auto": Auto(), "LU": LU(), "Cholesky": Cholesky(), "CG": CG(**kw) if name == "CG" else None,
            "GMRES": GMRES(**kw) if name == "GMRES" else None}[name]


def colnorm(v):
    return np.sqrt((np.abs(v.astype(CLD if np.iscomplexobj(v) else LD)) ** 2).sum(axis=0)).astype(np.float64)


def reference(c, A64, B2):
    """LAPACK solve + iterative refinement with extended-precision residuals"""
    x = np.linalg.solve(A64, B2.astype(A64.dtype if np.iscomplexobj(A64) or not np.iscomplexobj(B2) else np.complex128))
    for _ in range(3):
        r = wide(B2) - apply(c["tree"], wide(x))
        x = x + np.linalg.solve(A64, r.astype(x.dtype))
    return x


def run_case(c, model, rskel, err_class, solver_check=None):
    """-> (status, detail, measures); status: ok | ok-error | violation | stale-model | not-compared
    solver_check(B, code) -> None | text: the solver objects inside the real result vs the model's (options included)"""
    import cola
    t, algname = c["tree"], c["alg"]
    n = t["n"]
    pl = plan(t, algname)
    perr = plan_error(pl)
    meas = {"n": n, "path": c["path"], "alg": algname}
    # --- the real call
    try:
        A = build(t)
        alg = make_alg(algname, c["gmres_iters"])
        B = cola.linalg.inv(A) if alg is None else cola.linalg.inv(A, alg)
        real_err = None
    except Exception as ex:  # noqa: BLE001
        real_err, real_msg = err_class(ex), str(ex)[:200]
    # --- structure: Lean rule model vs real (and the plan used for the budget vs the model)
    if model is None or "error" in model:
        struct_note = "no model answer (%s)" % ((model or {}).get("error", "driver not available"))
    else:
        struct_note = None
        code = model["code"]
        if "err" in code:
            if real_err == code["err"]:
                return "ok-error", code["err"], meas
            if real_err:
                return "violation", f"raised {real_err} ({real_msg}); the rule table predicts {code['err']}", meas
            return "stale-model", f"the rule model predicts {code['err']} but inv returned an operator", meas
        if perr:
            return "not-compared", "harness plan predicts an error but the Lean model does not: plan out of date", meas
        if kinds_only(code["skel"]) != plan_skel(pl):
            return "not-compared", "the plan used for the bound differs from the Lean model's kind tree: plan out of date", meas
    if real_err:
        if perr and real_err == perr:
            return "ok-error", perr, meas
        return "violation", f"inv raised {real_err}: {real_msg}", meas
    if perr:
        return "stale-model", f"the rule table predicts {perr} but inv returned an operator", meas
    if struct_note is None:
        code = model["code"]
        got = {"shape": [int(B.shape[0]), int(B.shape[1])], "dtype": str(np.dtype(B.dtype)), "skel": rskel(B)}
        want = {"shape": [code["rows"], code["cols"]], "dtype": str(np.dtype(NPDT[code["dtype"]])), "skel": code["skel"]}
        struct_problem = None
        if got != want:
            # keep going: the values decide whether this is a failing input (violation) or only an out-of-date rule model
            struct_problem = f"structure of the returned operator: real {got}, rule model {want}"
        elif solver_check is not None:
            sd = solver_check(B, code)
            if sd is not None:
                return "violation", "the solver objects inside inv(A, alg) do not carry the caller's options: " + sd, meas
        meas["structure"] = "compared"
    else:
        struct_problem = None
        meas["structure"] = struct_note
    # --- values
    u = 2.0 ** -24 if c["single"] else 2.0 ** -53
    info = {}
    try:
        nrm, delta = budget(pl, u, info)
    except NotComparable as ex:
        return "not-compared", str(ex), meas
    b2 = c["b"]
    b = b2[:, 0] if c["vec"] else b2
    A64 = dense64(t)
    sv = np.linalg.svd(A64, compute_uv=False)
    smin, kap = float(sv[-1]), float(sv[0] / sv[-1])
    meas.update({"kappa": kap, "delta_over_norm": delta / max(nrm, 1e-300), "growth": info.get("growth")})
    xref = reference(c, A64, b2)
    problems = []
    obs = []
    try:
        obs.append(("inv(A) @ b", np.asarray(B @ b)))
        obs.append(("solve(A, b)", np.asarray(cola.linalg.solve(A, b) if alg is None else cola.linalg.solve(A, b, alg))))
    except Exception as ex:  # noqa: BLE001
        return "violation", [f"the product raised {err_class(ex)}: {str(ex)[:200]}"] + ([struct_problem] if struct_problem else []), meas
    worst = 0.0
    for name, x in obs:
        if x.shape != b.shape:
            problems.append(f"{name}: shape {x.shape}, expected {b.shape}")
            continue
        if not np.all(np.isfinite(x)):
            problems.append(f"{name}: non-finite values")
            continue
        x2 = x.reshape(n, -1)
        r = wide(b2) - apply(t, wide(x2))
        rn, xn = colnorm(r), colnorm(x2)
        bound = delta * xn + 4 * u * colnorm(b2)          # + the final rounding of the result to the working precision
        ratio = float((rn / np.maximum(bound, 1e-300)).max())
        worst = max(worst, ratio)
        if ratio > 1.0:
            problems.append(f"{name}: residual {rn.tolist()} exceeds the derived bound {bound.tolist()} (delta {delta:.3g}, kappa {kap:.3g})")
        fe = colnorm(x2.astype(np.complex128) - xref.astype(np.complex128))
        fbound = bound / smin * (1 + 1e-6) + 1e-9 * colnorm(xref) * max(1.0, kap * 1e-7)
        if float((fe / np.maximum(fbound, 1e-300)).max()) > 1.0:
            problems.append(f"{name}: differs from the refined reference solve by {fe.tolist()} > {fbound.tolist()}")
    if direct(pl) and not has_composite_default_rmatmat(pl):
        xl2 = c["xl"][0:1] if c["vec"] else c["xl"]
        xl = xl2[0] if c["vec"] else xl2
        try:
            y = np.asarray(xl @ B)
            y2 = y.reshape(-1, n)
            # y (A + dA) = xl  <=>  (A + dA)^T y^T = xl^T : the same budget (transposed solves)
            rt = wide(xl2).T - apply_T(t, wide(y2).T)
            rn, yn = colnorm(rt), colnorm(y2.T)
            bound = delta * yn + 4 * u * colnorm(xl2.T)
            ratio = float((rn / np.maximum(bound, 1e-300)).max())
            worst = max(worst, ratio)
            if y.shape != xl.shape or not np.all(np.isfinite(y)) or ratio > 1.0:
                problems.append(f"xl @ inv(A): residual {rn.tolist()} exceeds the derived bound {bound.tolist()}")
        except Exception as ex:  # noqa: BLE001
            problems.append(f"xl @ inv(A) raised {err_class(ex)}: {str(ex)[:160]}")
    meas["worst_ratio"] = worst
    if problems:
        return "violation", problems + ([struct_problem] if struct_problem else []), meas
    if struct_problem:
        return "stale-model", struct_problem, meas
    return "ok", None, meas


def apply_T(t, X):
    """A^T @ X in extended precision"""
    k = t["k"]
    if k in ("eye", "scalar", "diag", "perm", "tri", "dense"):
        return leaf_matrix(t, True).T @ X
    if k == "prod":
        for x in t["kids"]:
            X = apply_T(x, X)
        return X
    if k == "bdiag":
        out, off = [], 0
        for x, m in zip(t["kids"], t["mults"]):
            for _ in range(m):
                out.append(apply_T(x, X[off:off + x["n"]]))
                off += x["n"]
        return np.concatenate(out, axis=0)
    dims = [x["n"] for x in t["kids"]]
    cols = X.shape[1]
    T = X.reshape(dims + [cols])
    for ax, x in enumerate(t["kids"]):
        T = np.moveaxis(T, ax, 0)
        sh = T.shape
        T = apply_T(x, T.reshape(sh[0], -1)).reshape(sh)
        T = np.moveaxis(T, 0, ax)
    return T.reshape(-1, cols)


def describe(t):
    k = t["k"]
    if k == "dense":
        return ("PSD(" if t["psd"] else "(") + {None: "Dense", "T": "Transpose(Dense)", "H": "Adjoint(Dense)", "generic": "no_dispatch(Dense)",
                                               "sparse": "Sparse", "sum": "Sum(Dense, Dense)", "nsprod": "Product(Dense n x (n+1), Dense (n+1) x n)"}[t["wrap"]] \
            + f")[{t['dt']},{t['n']}]"
    if k in ("prod", "kron", "bdiag"):
        return {"prod": "Product", "kron": "Kronecker", "bdiag": "BlockDiag"}[k] + "(" + ", ".join(describe(x) for x in t["kids"]) + \
            (f"; multiplicities={t['mults']}" if k == "bdiag" else "") + ")"
    return {"eye": "Identity", "scalar": "ScalarMul", "diag": "Diagonal", "perm": "Permutation", "tri": "Triangular"}[k] + f"[{t['dt']},{t['n']}]"


def dump(c):
    """replayable form of a case: payload arrays as nested lists"""
    def enc(o):
        if isinstance(o, dict):
            return {k: enc(v) for k, v in o.items()}
        if isinstance(o, (list, tuple)):
            return [enc(v) for v in o]
        if isinstance(o, np.ndarray):
            if np.iscomplexobj(o):
                return {"__c": [o.real.tolist(), o.imag.tolist()], "dt": str(o.dtype)}
            return {"__r": o.tolist(), "dt": str(o.dtype)}
        if isinstance(o, np.generic):
            return enc(np.asarray(o))
        return o
    return enc(c)


def undump(o):
    if isinstance(o, dict):
        if "__c" in o:
            return (np.array(o["__c"][0]) + 1j * np.array(o["__c"][1])).astype(o["dt"])
        if "__r" in o:
            return np.array(o["__r"]).astype(o["dt"])
        return {k: undump(v) for k, v in o.items()}
    if isinstance(o, list):
        return [undump(v) for v in o]
    return o
