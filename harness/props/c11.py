"""C11 — cholesky and plu return structured factors that reproduce the operator.

Streams: positive-definite operator trees (cholesky AND plu: plu of a positive-definite tree is part of the property
too) and non-singular operator trees (plu) over Dense, Identity, Diagonal, ScalarMul, Kronecker (2-3 factors of
unequal size), BlockDiag with multiplicities, declaration wrappers (PSD / SelfAdjoint on Hermitian (positive-definite)
dense leaves and fallback nodes, PSD on positive-definite composites, PSD / SelfAdjoint / Unitary on Identity) and
nestings, real and complex (complex Hermitian leaves carry non-real off-diagonal entries), single and double precision.
For every case three things are compared:

  real  cola.linalg.decompositions.decompositions.cholesky / plu, in process
  code  Lean code model (Op.cholRule / Op.pluRule at the exact Gaussian-rational parameters GDecomp.params)
  spec  the represented matrix `den A` from the Lean driver and the defining properties of the factorisation

real vs code: error class, kind trees with annotations (treecheck.skel), kind trees with sizes / multiplicities /
lower flags, dtypes, shapes, and the factor MATRICES wherever they are determined by the input (Cholesky factors are
unique; PLU factors of trees without a dense leaf are (I, I, A) factor by factor; PLU factors of trees WITH dense
leaves are unique as soon as the permutation is fixed (both sides return a unit lower-triangular L), so L and U are
compared whenever the real P equals the model's P exactly).  Otherwise dense PLU leaves are compared through the
defining properties only (the model's pivot order need not be LAPACK's).
real vs spec: L lower / U upper triangular (exact zeros), P a permutation matrix (exact 0/1), products against `den A`
AND against the nominal matrix computed by numpy from the case (np.kron / block-diagonal assembly; the driver's `den A`
must equal it exactly), exactly for real-dtype trees without dense leaves, else relative tolerance 1e-9 double /
2e-4 single; kind tree of every factor = the tree promised for the input (`Op.promisedSkel`), no dense array in
factors of structured inputs.
code vs spec: computed exactly by the driver.
Outcomes other than `ok` / VIOLATION are exact and listed case by case in the evidence (`not_fully_compared`): `refused-ok` (real
and model fail in the same way — LinAlgError / NaN factor — AND the input is outside the property's quantifier by a predicate
evaluated on the input: a negative Diagonal / ScalarMul entry, a dense node that is not positive definite), `spec-only-ok` (the
exact model has no Gaussian-rational root — checked on the input — and the real result meets the specification), `skipped`
(a generated tree that is not square / well-formed).  The generator produces none of them.
When the real code differs from the code model but still meets the specification, a neighbourhood of the case (dense
leaves replaced by complex Hermitian positive-definite payloads with non-real off-diagonals, un-annotated / PSD /
SelfAdjoint, both calls) is searched for an input on which the real code contradicts the specification.
"""
import collections
import json
import os
import random
import sys
import warnings
from fractions import Fraction

import numpy as np

import build
import common
import oracle
import treecheck

warnings.simplefilter("ignore")
MODULE = "ColaVerif.Properties.C11"
DRIVER = "DriverC11.lean"

# Recorded findings are read from /verif/known_findings.json through common.known_clauses (C11: none at present).  No finding is
# provisional.  History: `plu(Diagonal | ScalarMul)` returned NaN factors for negative entries; fixed in /repo (7421396: the rule
# returns (I, I, A)); the code model mirrors the fixed rule and the driver reports no clause (`clausesOf` = []).

TOL = {"double": 1e-9, "single": 2e-4}
MAX_REPORTS = 5      # VIOLATION lines with a concrete failing input (replay files) per run; further ones are counted in the evidence
MAX_NOINPUT = 2      # VIOLATION lines `no-failing-input-found` per run (real differs from the code model, specification still met)
MAX_SHRINKS = 2      # failing inputs that are shrunk (each round re-runs the Lean driver)
OBS = collections.Counter()   # how the factor matrices of plu cases with dense leaves were compared (evidence)
SAME_P = "same permutation as the model: L and U compared with the model's"
OTHER_P = "other pivot order than the model: defining properties only"
PIVOT_NOTE = [None]            # set by real_vs_code for the case being classified
NOT_COMPARED = collections.Counter()   # evidence: every case that is not fully compared three-way, by exact reason
NOT_COMPARED_CASES = []                # ... and the cases themselves (first few), so that each one is justified individually
MAX_NEIGH = 3        # neighbourhood searches for a failing input around cases where real differs from the code model


# ------------------------------------------------------------------------------------------ exact payloads
def jq(f):
    f = Fraction(f)
    return int(f) if f.denominator == 1 else {"q": [f.numerator, f.denominator]}


def jz(re, im=0):
    return jq(re) if im == 0 else [jq(re), jq(im)]


def fr(x):
    if isinstance(x, dict):
        return Fraction(x["q"][0], x["q"][1])
    return Fraction(x)


def zc(v):
    if isinstance(v, list):
        return complex(float(fr(v[0])), float(fr(v[1])))
    return complex(float(fr(v)), 0.0)


def ans_mat(m):
    """driver matrix ([[[re, im]...]...] with ints or "n/d" strings) -> complex128 ndarray"""
    def f(x):
        if isinstance(x, str):
            n, d = x.split("/")
            return int(n) / int(d)
        return float(x)
    if not m:
        return np.zeros((0, 0), dtype=np.complex128)
    return np.array([[complex(f(z[0]), f(z[1])) for z in row] for row in m], dtype=np.complex128).reshape(len(m), -1)


# ------------------------------------------------------------------------------------------ generator
SQUARES = [Fraction(k, d) ** 2 for k in (1, 2, 3, 4, 5) for d in (1, 2)]          # perfect-square dyadics


class TreeGen:
    """positive-definite (pd: always for call = chol, on request for call = plu) / non-singular (call = plu) trees of
    exact size n.  Declarations are TRUE: PSD only on positive-definite nodes, SelfAdjoint only on Hermitian ones."""

    def __init__(self, rng, call, max_dim, pd=None):
        self.rng = rng
        self.call = call
        self.max_dim = max_dim
        self.pd = (call == "chol") if pd is None else (pd or call == "chol")

    def dtype(self, cplx):
        return self.rng.choice(["c64", "c128", "c128"]) if cplx else self.rng.choice(["f32", "f64", "f64"])

    # ---- leaves
    def pos_square(self):
        return self.rng.choice(SQUARES)

    def root_entry(self, cplx):
        """cholesky: a perfect-square dyadic (exact principal root); plu: any non-zero exact entry, negative and
        (under a complex dtype) non-real ones included — negative reals under a real dtype used to give NaN factors"""
        rng = self.rng
        if self.pd:
            return jz(self.pos_square())
        while True:
            a = Fraction(rng.randint(-5, 5), rng.choice([1, 1, 2, 4]))
            b = Fraction(rng.randint(-3, 3), rng.choice([1, 2])) if (cplx and rng.random() < 0.6) else Fraction(0)
            if a != 0 or b != 0:
                return jz(a, b)

    def dense_pd(self, n, cplx, dt):
        """A = L0 L0^H, L0 lower triangular with small Gaussian-integer entries and positive diagonal: exactly Hermitian
        positive definite with exact Cholesky factor L0; complex ones mostly with NON-REAL off-diagonal entries"""
        rng = self.rng
        want_nonreal = cplx and n >= 2 and rng.random() < 0.85
        for _ in range(200):
            L0 = [[0] * n for _ in range(n)]
            for i in range(n):
                for j in range(i):
                    L0[i][j] = complex(rng.randint(-2, 2), rng.randint(-2, 2) if cplx and rng.random() < 0.7 else 0)
                L0[i][i] = complex(rng.choice([1, 1, 2, 2, 3]), 0)
            L0 = np.array(L0, dtype=np.complex128).reshape(n, n)
            A = L0 @ L0.conj().T
            if want_nonreal and not np.any(A.imag != 0):
                continue
            if np.linalg.cond(A) <= (60 if dt in ("f32", "c64") else 400):
                return [[jz(int(round(z.real)), int(round(z.imag))) for z in row] for row in A]
        return [[(1 if i == j else 0) for j in range(n)] for i in range(n)]

    def dense_ns(self, n, cplx, dt):
        rng = self.rng
        for _ in range(200):
            M = np.array([[complex(rng.randint(-3, 3), rng.randint(-2, 2) if cplx and rng.random() < 0.6 else 0)
                           for _ in range(n)] for _ in range(n)], dtype=np.complex128).reshape(n, n)
            if np.linalg.matrix_rank(M) == n and np.linalg.cond(M) <= (30 if dt in ("f32", "c64") else 200):
                return [[jz(int(z.real), int(z.imag)) for z in row] for row in M]
        return [[(1 if i == j else 0) for j in range(n)] for i in range(n)]

    def dense_herm(self, n, cplx, dt):
        """Hermitian, non-singular, in general indefinite: M + M^H"""
        rng = self.rng
        for _ in range(200):
            M = np.array([[complex(rng.randint(-2, 2), rng.randint(-2, 2) if cplx and rng.random() < 0.7 else 0)
                           for _ in range(n)] for _ in range(n)], dtype=np.complex128).reshape(n, n)
            H = M + M.conj().T
            if np.linalg.matrix_rank(H) == n and np.linalg.cond(H) <= (30 if dt in ("f32", "c64") else 200):
                return [[jz(int(z.real), int(z.imag)) for z in row] for row in H]
        return [[(1 if i == j else 0) for j in range(n)] for i in range(n)]

    def declare(self, e, choices):
        a = self.rng.choice(choices)
        return e if a is None else ["ann", a, e]

    def leaf(self, n, cplx):
        rng = self.rng
        dt = self.dtype(cplx)
        if self.pd:
            pool = ["dense", "dense", "dense", "diag", "diag", "scalar", "eye"]
        else:
            # plu of a general tree: also Hermitian (indefinite) and Hermitian positive-definite dense members
            pool = ["dense", "dense", "dense", "diag", "diag", "scalar", "eye", "herm", "hpd"]
        k = rng.choice(pool + (["other"] if n >= 2 else []))
        if k == "hpd" or (k == "dense" and self.pd):
            # cola.PSD(A) / cola.SelfAdjoint(A): true declarations, must not change any factor
            return self.declare(["dense", dt, n, n, self.dense_pd(n, cplx, dt)], [None, None, "PSD", "PSD", "SelfAdjoint"])
        if k == "herm":
            return self.declare(["dense", dt, n, n, self.dense_herm(n, cplx, dt)], [None, "SelfAdjoint"])
        if k == "dense":
            return ["dense", dt, n, n, self.dense_ns(n, cplx, dt)]
        if k == "diag":
            return ["diag", dt, [self.root_entry(cplx) for _ in range(n)]]
        if k == "scalar":
            return ["scalar", dt, self.root_entry(cplx), n]
        if k == "eye":
            e = ["eye", dt, n]
            if rng.random() < 0.3:
                e = ["ann", rng.choice(["PSD", "SelfAdjoint", "Unitary"]), e]
            return e
        return self.other(n, cplx, dt)

    def other(self, n, cplx, dt):
        """classes without a structural rule (dense fallback): Product, Sum, Transpose, Triangular"""
        rng = self.rng
        if self.pd:
            # Product(Dense(L0), Dense(L0^H)) with L0 lower triangular: positive definite, exact factor L0
            L0 = [[0] * n for _ in range(n)]
            for i in range(n):
                for j in range(i):
                    L0[i][j] = (rng.randint(-1, 1), rng.randint(-1, 1) if cplx else 0)
                L0[i][i] = (rng.choice([1, 2]), 0)
            L0 = [[(v if isinstance(v, tuple) else (0, 0)) for v in row] for row in L0]
            a = [[jz(v[0], v[1]) for v in row] for row in L0]
            b = [[jz(L0[j][i][0], -L0[j][i][1]) for j in range(n)] for i in range(n)]
            return self.declare(["prod", ["dense", dt, n, n, a], ["dense", dt, n, n, b]], [None, None, None, "PSD", "SelfAdjoint"])
        k = rng.choice(["T", "tri", "prod", "sum"])
        m = self.dense_ns(n, cplx, dt)
        if k == "T":
            return ["T", ["dense", dt, n, n, m]]
        if k == "tri":
            lower = rng.random() < 0.5
            t = [[(m[i][j] if ((j <= i) if lower else (i <= j)) else 0) for j in range(n)] for i in range(n)]
            for i in range(n):
                t[i][i] = rng.choice([1, 2, -1, 3])
            return ["tri", dt, n, n, lower, t]
        if k == "prod":
            return ["prod", ["dense", dt, n, n, m], ["dense", dt, n, n, self.dense_ns(n, cplx, dt)]]
        # sum of a non-singular matrix and a multiple of the identity, kept only if non-singular
        M = np.array([[zc(v) for v in row] for row in m])
        for c in (4, 5, 7, 9):
            S = M + c * np.eye(n)
            if np.linalg.matrix_rank(S) == n and np.linalg.cond(S) <= 100:
                return ["sum", ["dense", dt, n, n, m], ["scalar", dt, c, n]]
        return ["dense", dt, n, n, m]

    # ---- composites
    def factorisations(self, n):
        out = []
        for a in range(1, n + 1):
            if n % a:
                continue
            b = n // a
            if a != b:
                out.append([a, b])
            for c in range(1, b + 1):
                if b % c == 0 and len({a, c, b // c}) == 3:
                    out.append([a, c, b // c])
        return out

    def tree(self, n, depth, cplx):
        rng = self.rng
        if depth <= 0 or n == 1 or rng.random() < 0.15:
            return self.leaf(n, cplx)
        forms = ["bdiag", "bdiag"]
        facs = self.factorisations(n)
        if facs:
            forms += ["kron", "kron", "kron"]
        f = rng.choice(forms)
        sub_c = cplx if rng.random() < 0.8 else not cplx           # mixed real / complex members sometimes
        if f == "kron":
            sizes = rng.choice(facs)
            e = ["kron"] + [self.tree(s, depth - 1, cplx if i else sub_c) for i, s in enumerate(sizes)]
        else:
            # n = sum mult_i * size_i
            parts = []
            rest = n
            while rest > 0 and len(parts) < 3:
                s = rng.randint(1, min(rest, 4))
                mmax = rest // s
                mlt = rng.randint(1, min(mmax, 3))
                if len(parts) == 2:          # last block takes the remainder
                    s, mlt = rest, 1
                    if rest > 4:
                        ds = [d for d in range(1, 5) if rest % d == 0]
                        s = rng.choice(ds)
                        mlt = rest // s
                parts.append((s, mlt))
                rest -= s * mlt
            if rest > 0:
                parts.append((rest, 1))
            e = ["bdiag", [self.tree(s, depth - 1, cplx if i else sub_c) for i, (s, _) in enumerate(parts)],
                 [mlt for (_, mlt) in parts]]
        if self.pd and rng.random() < 0.15:
            e = ["ann", "PSD", e]                         # cola.PSD(A): a true declaration, does not change the rule
        return e


def subexprs(e):
    yield e
    t = e[0]
    if t in ("kron", "prod", "sum"):
        for k in e[1:]:
            yield from subexprs(k)
    elif t == "bdiag":
        for k in e[1]:
            yield from subexprs(k)
    elif t in ("T", "H", "generic"):
        yield from subexprs(e[1])
    elif t == "ann":
        yield from subexprs(e[2])


def depth_of(e):
    t = e[0]
    if t in ("kron",):
        return 1 + max(depth_of(k) for k in e[1:])
    if t == "bdiag":
        return 1 + max(depth_of(k) for k in e[1])
    if t == "ann":
        return depth_of(e[2])
    return 0


def precision(e):
    dts = [s[1] for s in subexprs(e) if s[0] in ("dense", "tri", "scalar", "eye", "diag")]
    return "single" if any(d in ("f32", "c64") for d in dts) else "double"


def is_complex_tree(e):
    return any(s[1] in ("c64", "c128") for s in subexprs(e) if s[0] in ("dense", "tri", "scalar", "eye", "diag"))


def has_dense_leaf(e):
    """some node is factorised by LAPACK (dense fallback)"""
    def go(x):
        t = x[0]
        if t == "ann":
            return go(x[2])
        if t == "kron":
            return any(go(k) for k in x[1:])
        if t == "bdiag":
            return any(go(k) for k in x[1])
        return t not in ("eye", "diag", "scalar")
    return go(e)


def nominal(e):
    """the matrix the case denotes, assembled by numpy (complex128; every payload is a small dyadic Gaussian rational, so
    all sums and products below are exact) — a second, driver-independent reading of the specification `den A`.
    None for node kinds this file does not generate."""
    t = e[0]
    if t == "ann" or t == "generic":
        return nominal(e[2] if t == "ann" else e[1])
    if t in ("dense", "tri"):
        # Triangular is a Dense whose array is stored as given (`den` of a tri node is its array)
        return np.array([[zc(v) for v in row] for row in e[-1]], dtype=np.complex128).reshape(e[2], e[3])
    if t == "diag":
        return np.diag(np.array([zc(v) for v in e[2]], dtype=np.complex128))
    if t == "scalar":
        return zc(e[2]) * np.eye(e[3], dtype=np.complex128)
    if t == "eye":
        return np.eye(e[2], dtype=np.complex128)
    if t in ("T", "H"):
        M = nominal(e[1])
        return None if M is None else (M.T if t == "T" else M.conj().T)
    if t in ("kron", "prod", "sum"):
        Ms = [nominal(k) for k in e[1:]]
        if any(M is None for M in Ms):
            return None
        out = Ms[0]
        for M in Ms[1:]:
            out = np.kron(out, M) if t == "kron" else (out @ M if t == "prod" else out + M)
        return out
    if t == "bdiag":
        Ms = [nominal(k) for k in e[1]]
        if any(M is None for M in Ms):
            return None
        blocks = [M for M, mlt in zip(Ms, e[2]) for _ in range(mlt)]
        n, m = sum(b.shape[0] for b in blocks), sum(b.shape[1] for b in blocks)
        out = np.zeros((n, m), dtype=np.complex128)
        i = j = 0
        for b in blocks:
            out[i:i + b.shape[0], j:j + b.shape[1]] = b
            i, j = i + b.shape[0], j + b.shape[1]
        return out
    return None


def hermitian_leaves(e):
    """-> list of tags 'declaration|hpd or herm|nonreal or real-valued|position' of the Hermitian dense leaves (size >= 2) of
    the tree; position = root, kron, bdiag (multiplicity 1), bdiag-mult (multiplicity >= 2) of the nearest composite"""
    out = []

    def go(x, ann, pos):
        t = x[0]
        if t == "ann":
            go(x[2], x[1], pos)
        elif t == "kron":
            for k in x[1:]:
                go(k, None, "kron")
        elif t == "bdiag":
            for k, mlt in zip(x[1], x[2]):
                go(k, None, "bdiag-mult" if mlt >= 2 else "bdiag")
        elif t == "dense" and x[2] == x[3] and x[2] >= 2:
            M = nominal(x)
            if np.array_equal(M, M.conj().T):
                pdef = bool(np.linalg.eigvalsh(M).min() > 1e-9)
                nonreal = x[1] in ("c64", "c128") and bool(np.any(M.imag != 0))
                out.append(f"{ann or 'plain'}|{'hpd' if pdef else 'herm'}|{'nonreal' if nonreal else 'real-valued'}|{pos}")
    go(e, None, "root")
    return out


def neighbours(case):
    """variants of a case for the failing-input search: every dense leaf of size >= 2 replaced by a complex Hermitian
    positive-definite payload with non-real off-diagonals (well conditioned, exact: L0 L0^H), un-annotated / PSD /
    SelfAdjoint (all true declarations); positive-definite trees under both calls, others under plu only"""
    out, seen = [], {common.canon([case["call"], case["op"]])}
    for k, ann in enumerate([None, "PSD", "SelfAdjoint"]):
        G = TreeGen(random.Random(977 + k), "chol", 0)

        def go(x):
            t = x[0]
            if t == "ann":
                return go(x[2]) if x[2][0] == "dense" else ["ann", x[1], go(x[2])]
            if t == "kron":
                return ["kron"] + [go(y) for y in x[1:]]
            if t == "bdiag":
                return ["bdiag", [go(y) for y in x[1]], x[2]]
            if t == "dense" and x[2] == x[3] and x[2] >= 2:
                dt = "c64" if x[1] in ("f32", "c64") else "c128"
                leaf = ["dense", dt, x[2], x[2], G.dense_pd(x[2], True, dt)]
                return leaf if ann is None else ["ann", ann, leaf]
            return x
        op = go(case["op"])
        for call in (("chol", "plu") if (case.get("pd") or case["call"] == "chol") else ("plu",)):
            key = common.canon([call, op])
            if key not in seen:
                seen.add(key)
                out.append({"call": call, "op": op, "pd": bool(case.get("pd") or case["call"] == "chol")})
    return out


# ------------------------------------------------------------------------------------------ real side
def kinds(op):
    """kind tree with sizes / multiplicities / lower flags (the format of the driver's `kinds`)"""
    name = type(op).__name__.split("[")[0]
    n = int(op.shape[0])
    if name == "Identity":
        return ["eye", n]
    if name == "Diagonal":
        return ["diag", n]
    if name == "ScalarMul":
        return ["scalar", n]
    if name == "Product":
        ms = list(op.Ms)
        if len(ms) == 2 and type(ms[0]).__name__ == "ScalarMul" and type(ms[1]).__name__ == "Identity" \
                and ms[0].shape[0] == ms[1].shape[0]:
            return ["scalarEye", int(ms[0].shape[0])]
        return ["other"]
    if name == "Kronecker":
        return ["kron"] + [kinds(m) for m in op.Ms]
    if name == "BlockDiag":
        return ["bdiag", [kinds(m) for m in op.Ms], [int(x) for x in op.multiplicities]]
    if name == "Triangular":
        return ["tri", bool(op.lower), n]
    if name == "Permutation":
        return ["perm", int(len(op.perm))]
    return ["other"]


def dense_free(op):
    name = type(op).__name__.split("[")[0]
    if name in ("Identity", "Diagonal", "ScalarMul", "Permutation"):
        return True
    if name in ("Product", "Kronecker", "BlockDiag"):
        return all(dense_free(m) for m in op.Ms)
    return False


def structure_kept(promised, got):
    """the property's reading of "the factors keep the structure of the input": composite nodes are mirrored factor by
    factor (same arity, same multiplicities), a structured leaf (Identity / Diagonal / ScalarMul) stays a structured leaf
    of the same size; where the input is dense the factor may be any single operator"""
    k = promised[0]
    if k == "kron":
        return got[0] == "kron" and len(got) == len(promised) and all(structure_kept(p, g) for p, g in zip(promised[1:], got[1:]))
    if k == "bdiag":
        return got[0] == "bdiag" and got[2] == promised[2] and len(got[1]) == len(promised[1]) and \
            all(structure_kept(p, g) for p, g in zip(promised[1], got[1]))
    if k in ("eye", "diag", "scalar", "scalarEye"):
        return got[0] in ("eye", "diag", "scalar", "scalarEye") and got[1] == promised[1]
    return True


def run_real(case):
    import cola  # noqa: F401
    dm = sys.modules["cola.linalg.decompositions.decompositions"]
    try:
        A = build.Builder().build(case["op"])
        res = dm.cholesky(A) if case["call"] == "chol" else dm.plu(A)
        facs = [res] if case["call"] == "chol" else list(res)
        out = {"factors": []}
        for F in facs:
            D = np.asarray(F.to_dense())
            out["factors"].append({"skel": treecheck.skel(F), "kinds": kinds(F), "dtype": build.dtname(F.dtype),
                                   "rows": int(F.shape[0]), "cols": int(F.shape[1]), "dense": D, "dense_free": dense_free(F)})
        if any(not np.all(np.isfinite(f["dense"])) for f in out["factors"]):
            out["nan"] = True
        return out
    except Exception as ex:  # noqa: BLE001
        n = type(ex).__name__
        return {"err": "linalg-error" if n == "LinAlgError" else "error:" + n, "msg": str(ex)[:200]}


def close(X, Y, tol, exact):
    if X.shape != Y.shape:
        return False
    if exact:
        return bool(np.array_equal(X, Y))
    scale = max(1.0, float(np.abs(Y).max()) if Y.size else 1.0)
    return bool(np.all(np.abs(X - Y) <= tol * scale))


def is_perm_matrix(P):
    if P.ndim != 2 or P.shape[0] != P.shape[1]:
        return False
    if not np.all((P == 0) | (P == 1)):
        return False
    return bool(np.all((P == 1).sum(axis=0) == 1) and np.all((P == 1).sum(axis=1) == 1))


def real_vs_spec(case, ans, real):
    """-> dict of the defining properties evaluated on the REAL factors against the driver's `den A`"""
    A = ans_mat(ans["den"])
    N = nominal(case["op"])
    n = ans["rows"]
    tol = TOL[precision(case["op"])]
    exact = (not has_dense_leaf(case["op"])) and (not is_complex_tree(case["op"]))
    fs = real["factors"]
    out = {"shape": all(f["rows"] == n and f["cols"] == n for f in fs) and ans["cols"] == n}
    if not out["shape"]:
        return out
    D = [f["dense"].astype(np.complex128) for f in fs]
    if case["call"] == "chol":
        L = D[0]
        out["lower"] = bool(np.all(np.triu(L, 1) == 0))
        out["product"] = close(L @ L.conj().T, A, tol, exact)
        if N is not None:
            out["product_nominal"] = close(L @ L.conj().T, N, tol, exact)
    else:
        P, L, U = D
        out["perm"] = is_perm_matrix(P)
        out["lower"] = bool(np.all(np.triu(L, 1) == 0))
        out["upper"] = bool(np.all(np.tril(U, -1) == 0))
        out["product"] = close(P @ L @ U, A, tol, exact)
        if N is not None:
            out["product_nominal"] = close(P @ L @ U, N, tol, exact)
    out["structure"] = len(fs) == len(ans["promised"]) and all(structure_kept(p, f["kinds"]) for p, f in zip(ans["promised"], fs))
    out["denseFree"] = (not ans["structOnly"]) or all(f["dense_free"] for f in fs)
    return out


def real_vs_code(case, ans, real):
    """-> (agrees, first differing key)"""
    code = ans["code"]
    if not code["ok"]:
        if code["err"] == "nan":
            return ("nan" in real), "nan"
        if code["err"] == "linalg-error":
            return real.get("err") == "linalg-error", "err"
        return False, "model-error:" + code["err"]
    if "err" in real:
        return False, "err"
    if "nan" in real:
        return False, "nan"
    tol = TOL[precision(case["op"])]
    unique = case["call"] == "chol" or not has_dense_leaf(case["op"])
    if not unique and len(real["factors"]) == 3 and len(code["factors"]) == 3:
        # a non-singular A has exactly one factorisation A = P L U with a GIVEN permutation P, L unit lower and U upper
        # triangular; scipy.linalg.lu and the model's LU both return a unit lower L, so the factors must agree as soon as
        # the permutations do (pivot orders may differ on ties, then only the defining properties are compared)
        Pr, Pc = real["factors"][0]["dense"], ans_mat(code["factors"][0]["den"])
        unique = Pr.shape == Pc.shape and bool(np.array_equal(Pr.astype(np.complex128), Pc))
        # EXACT predicate on the two results: the real permutation matrix equals the model's entry by entry, or not
        PIVOT_NOTE[0] = SAME_P if unique else OTHER_P
    exact = (not has_dense_leaf(case["op"])) and (not is_complex_tree(case["op"]))
    for i, (fr_, fc) in enumerate(zip(real["factors"], code["factors"])):
        for k in ("skel", "kinds", "dtype", "rows", "cols"):
            if fr_[k] != fc[k]:
                return False, f"factor{i}.{k}"
        if unique and not close(fr_["dense"].astype(np.complex128), ans_mat(fc["den"]), tol, exact):
            return False, f"factor{i}.matrix"
    return True, None


def rule_leaves(e):
    """the nodes the structural rules of cholesky / plu hand to a leaf rule: Identity / Diagonal / ScalarMul leaves and the
    nodes that take the dense fallback (through Kronecker / BlockDiag members and declaration wrappers)"""
    t = e[0]
    if t == "ann":
        return rule_leaves(e[2])
    if t == "kron":
        return [x for k in e[1:] for x in rule_leaves(k)]
    if t == "bdiag":
        return [x for k in e[1] for x in rule_leaves(k)]
    return [e]


def gq(v):
    """payload scalar -> (re, im) as Fractions"""
    return (fr(v[0]), fr(v[1])) if isinstance(v, list) else (fr(v), Fraction(0))


def rat_sqrt(q):
    import math
    if q < 0:
        return None
    a, b = math.isqrt(q.numerator), math.isqrt(q.denominator)
    return Fraction(a, b) if a * a == q.numerator and b * b == q.denominator else None


def root_class(dt, v):
    """x ** 0.5 of one Diagonal / ScalarMul entry, read exactly on the INPUT:
    'pos-rational' / 'pos-irrational' (a positive real: inside CholPre; the principal root is / is not rational),
    'nan' (negative real under a real dtype: NumPy returns NaN), 'nonpos' (zero, or negative / non-real under a complex dtype: the
    root exists but the entry is not positive — outside CholPre, L L^H need not be A: C11_chol_pos_needed),
    'complex-under-real' (a payload the case language should not produce)"""
    re, im = gq(v)
    if dt in ("f32", "f64") and im != 0:
        return "complex-under-real"
    if im != 0 or re <= 0:
        return "nan" if (dt in ("f32", "f64") and re < 0) else "nonpos"
    return "pos-rational" if rat_sqrt(re) is not None else "pos-irrational"


def root_classes(e):
    """classes of the roots cholesky takes on this INPUT (entries of the Diagonal / ScalarMul leaves the rules reach)"""
    out = set()
    for x in rule_leaves(e):
        if x[0] == "diag":
            out |= {root_class(x[1], v) for v in x[2]}
        elif x[0] == "scalar":
            out.add(root_class(x[1], x[2]))
    return out


def fallback_not_pd(e):
    """some node that takes the dense fallback of cholesky is not Hermitian positive definite (what potrf sees: the Hermitian
    completion of the lower triangle): -> 'yes' | 'no' | 'borderline' (smallest eigenvalue within 1e-6 of 0, relative)"""
    verdict = "no"
    for x in rule_leaves(e):
        if x[0] in ("eye", "diag", "scalar"):
            continue
        M = nominal(x)
        if M is None:
            return "borderline"
        H = np.tril(M) + np.tril(M, -1).conj().T
        w = float(np.linalg.eigvalsh(H).min())
        s = max(1.0, float(np.abs(H).max()))
        if w < -1e-6 * s:
            return "yes"
        if w <= 1e-6 * s:
            verdict = "borderline"
    return verdict


def note_not_compared(reason, case):
    NOT_COMPARED[reason] += 1
    if len(NOT_COMPARED_CASES) < 12:
        NOT_COMPARED_CASES.append({"reason": reason, "case": {"call": case["call"], "op": case["op"]}})


def classify(case, ans, real):
    """-> (status, detail, spec_on_real); status in
    ok | refused-ok | spec-only-ok | known? | violation | stale-model | spec-mismatch | skipped | driver-error.
    refused-ok: real and code model fail in the same way (LinAlgError / NaN factor) AND the input predicate that puts the case
    outside the quantifier of the property holds.  spec-only-ok: the exact model has no answer (irrational root: predicate
    checked on the input); the real result is compared with the specification alone.  skipped: nothing is compared (a generated
    tree that is not square / well-formed) — listed case by case in the evidence."""
    PIVOT_NOTE[0] = None
    if "error" in ans:
        return "driver-error", ans["error"], None
    if not ans.get("wf", True) or ans["rows"] != ans["cols"]:
        note_not_compared("skipped: not a square well-formed operator", case)
        return "skipped", "not a square well-formed operator", None
    N = nominal(case["op"])
    if N is not None and not (N.shape == (ans["rows"], ans["cols"]) and np.array_equal(ans_mat(ans["den"]).reshape(N.shape), N)):
        return "spec-mismatch", "the driver's den A differs from the matrix numpy assembles from the case", None
    code = ans["code"]
    if not code["ok"] and code["err"] == "inexact":
        # the exact model has no Gaussian-rational root; justified only by the input predicate (an irrational root is taken)
        rcs = root_classes(case["op"])
        bad = sorted(rcs - {"pos-rational", "pos-irrational"})
        if case["call"] != "chol" or not (rcs - {"pos-rational"}):
            return "stale-model", "the model answers `inexact` but every Diagonal / ScalarMul entry reached by cholesky is a positive rational square", None
        if bad:
            # not positive definite factor by factor: outside CholPre, nothing is claimed (and the exact model has no answer)
            note_not_compared(f"skipped: outside CholPre, Diagonal / ScalarMul entries of class {bad} on the input (exact model: inexact)", case)
            return "skipped", "outside CholPre: " + ",".join(bad), None
        # all entries positive, some root irrational: the real result is compared with the specification alone
        if "factors" in real and "nan" not in real:
            rsd = real_vs_spec(case, ans, real)
            if all(rsd.values()):
                note_not_compared("spec-only-ok: irrational root of a positive entry, real compared with the specification only", case)
                return "spec-only-ok", "irrational root", rsd
            return "violation", f"real violates the specification on {[k for k, v in rsd.items() if not v]}", rsd
        return "violation", f"cholesky of a tree with positive Diagonal / ScalarMul entries does not return finite factors ({real.get('err')}: {real.get('msg', '')})", {"returns": False}
    if not code["ok"] and code["err"] in ("model-lu-failed", "not-square", "model:complex-payload-under-real-dtype"):
        # never an answer on a square well-formed tree of the case language: the driver's LU is total (a zero pivot column is
        # skipped), shapes were checked above, payloads of real dtypes are real
        return "stale-model", "the exact model fails on a square well-formed tree: " + code["err"], None
    if not code["ok"] and code["err"] == "nan" and case["call"] == "chol":
        # the root of a negative Diagonal / ScalarMul entry under a real dtype: NaN factor on both sides, and the input is not
        # positive definite factor by factor (outside CholPre) — all three must hold
        if "nan" not in real:
            return "stale-model", "model takes the root of a negative entry (NaN), real does not", None
        if "nan" not in root_classes(case["op"]):
            return "stale-model", "real and model return a NaN factor, but no Diagonal / ScalarMul entry of a real dtype is negative", None
        note_not_compared("refused-ok: NaN factor on both sides, negative Diagonal / ScalarMul entry on the input", case)
        return "refused-ok", "nan", None
    if not code["ok"] and code["err"] == "linalg-error":
        # potrf fails: real must raise LinAlgError as well, and a fallback node must fail to be positive definite on the input
        rc, _ = real_vs_code(case, ans, real)
        if not rc:
            return "stale-model", "model raises LinAlgError, real does not", None
        npd = fallback_not_pd(case["op"])
        if npd == "no":
            return "violation", "cholesky raises LinAlgError although every dense node is Hermitian positive definite", {"returns": False}
        note_not_compared(f"refused-ok: LinAlgError on both sides, a dense node is not positive definite on the input ({npd})", case)
        return "refused-ok", "linalg-error", None
    rc, kc = real_vs_code(case, ans, real)
    cs = all(ans["spec"].values())
    if "factors" in real and "nan" not in real:
        rsd = real_vs_spec(case, ans, real)
        rs = all(rsd.values())
    else:
        rsd = {"returns": False}
        rs = False
    if rc and cs and rs:
        if PIVOT_NOTE[0]:
            OBS[PIVOT_NOTE[0]] += 1          # counted once per fully compared case
        return "ok", "", rsd
    if rc and not cs:
        return "known?", list(ans.get("clauses", [])), rsd
    if not rs:
        bad = [k for k, v in rsd.items() if not v]
        msg = f"real violates the specification on {bad}"
        if "err" in real:
            msg += f" (raised {real['err']}: {real.get('msg', '')})"
        return "violation", msg, rsd
    return "stale-model", f"real satisfies the specification but differs from the code model on '{kc}'", rsd


def strip_real(real):
    out = {k: v for k, v in real.items() if k != "factors"}
    if "factors" in real:
        out["factors"] = [{k: (build.exact_mat(v) if k == "dense" and np.all(np.isfinite(v)) else (str(v.tolist()) if k == "dense" else v))
                           for k, v in f.items()} for f in real["factors"]]
    return out


# ------------------------------------------------------------------------------------------ engine
def evaluate(cases):
    ans = oracle.run_driver(cases, driver=DRIVER)
    out = []
    for c in cases:
        a = ans.get(c["id"], {"error": "no answer from driver"})
        real = run_real(c)
        st, det, rsd = classify(c, a, real)
        out.append((c, a, real, st, det, rsd))
    return out


def shrink(case):
    """greedy search for a smaller input on which the real code still contradicts the specification"""
    cur = case
    for _ in range(12):
        cands = [{"id": i, "call": cur["call"], "op": s} for i, s in enumerate(treecheck.shrink_candidates(cur["op"])[:40])]
        if not cands:
            break
        nxt = None
        try:
            for (c, a, real, st, det, rsd) in evaluate(cands):
                if st == "violation":
                    nxt = c
                    break
        except Exception:  # noqa: BLE001
            break
        if nxt is None:
            break
        cur = nxt
    return cur


def nontrivial(e):
    if depth_of(e) >= 1:
        return True
    core = e[2] if e[0] == "ann" else e
    if core[0] in ("prod", "sum", "T"):
        return True
    return core[0] in ("dense", "tri") and core[2] >= 2


def gen_cases(ctx, rng, n_cases):
    cases = []
    max_dim = 24 if not ctx.thorough else 36
    for i in range(n_cases):
        # 2 of 5: cholesky of a positive-definite tree, 2 of 5: plu of a general non-singular tree (with Hermitian and
        # Hermitian positive-definite dense members among the others), 1 of 5: plu of a positive-definite tree
        call, pd = [("chol", True), ("plu", False), ("chol", True), ("plu", False), ("plu", True)][i % 5]
        G = TreeGen(rng, call, max_dim, pd=pd)
        cplx = rng.random() < (0.6 if (pd and call == "plu") else 0.45)
        depth = rng.choice([0, 1, 1, 2, 2, 3] if not ctx.thorough else [0, 1, 1, 2, 2, 3, 3])
        if depth == 0:
            n = rng.randint(1, 5)
        else:
            n = rng.choice([2, 3, 4, 6, 6, 8, 8, 9, 10, 12, 12, 12, 15, 16, 18, 20, 24, 24] + ([30, 36] if ctx.thorough else []))
        cases.append({"id": i, "call": call, "op": G.tree(n, depth, cplx), "pd": pd})
    return cases


# complex Hermitian positive-definite payloads with non-real off-diagonals, H = L0 L0^H exactly:
# L0 = [[2, 0], [1-i, 3]];  L0 = [[2, 0, 0], [1-i, 1, 0], [2i, 1+i, 2]]
H2 = [[4, [2, 2]], [[2, -2], 11]]
H3 = [[4, [2, 2], [0, -4]], [[2, -2], 3, [-1, -3]], [[0, 4], [-1, 3], 10]]


CORPUS = [
    # fixed cases: one per rule, the unequal 3-factor Kronecker, multiplicities, nesting, negative entries under plu
    # (NaN factors before fix 7421396)
    {"call": "chol", "op": ["kron", ["diag", "f64", [4, 9]], ["ann", "PSD", ["eye", "f64", 3]],
                            ["bdiag", [["scalar", "c128", 4, 1], ["dense", "f64", 2, 2, [[4, 2], [2, 10]]]], [2, 1]]]},
    {"call": "chol", "op": ["bdiag", [["kron", ["dense", "c128", 2, 2, [[4, [0, 2]], [[0, -2], 2]]], ["scalar", "f64", {"q": [9, 4]}, 3]],
                                      ["diag", "f32", [1, {"q": [1, 4]}]]], [2, 3]]},
    {"call": "plu", "op": ["kron", ["diag", "f64", [4, 9]], ["dense", "f64", 3, 3, [[0, 2, 1], [1, 1, 0], [2, 0, 3]]], ["eye", "f32", 4]]},
    {"call": "plu", "op": ["bdiag", [["dense", "c128", 2, 2, [[[0, 1], 2], [1, [1, -1]]]], ["scalar", "c64", [0, 2], 2], ["eye", "f64", 1]], [2, 1, 3]]},
    {"call": "plu", "op": ["diag", "f64", [4, -9]]},
    {"call": "plu", "op": ["kron", ["scalar", "f32", -4, 2], ["dense", "f64", 3, 3, [[2, 1, 0], [1, 3, 1], [0, 1, 2]]]]},
    {"call": "plu", "op": ["diag", "c128", [4, -9, [0, 2]]]},
    # plu AND cholesky of complex Hermitian positive-definite dense operators with non-real off-diagonals, un-annotated /
    # PSD / SelfAdjoint, alone, in a Kronecker product with a Diagonal, in a BlockDiag with multiplicity 2, under a
    # PSD-declared composite, single precision
    {"call": "plu", "pd": True, "op": ["ann", "PSD", ["dense", "c128", 2, 2, H2]]},
    {"call": "plu", "pd": True, "op": ["ann", "PSD", ["dense", "c128", 3, 3, H3]]},
    {"call": "plu", "pd": True, "op": ["dense", "c128", 3, 3, H3]},
    {"call": "plu", "pd": True, "op": ["ann", "SelfAdjoint", ["dense", "c128", 3, 3, H3]]},
    {"call": "plu", "pd": True, "op": ["kron", ["ann", "PSD", ["dense", "c128", 3, 3, H3]], ["diag", "f64", [4, {"q": [1, 4]}]]]},
    {"call": "plu", "pd": True, "op": ["bdiag", [["ann", "PSD", ["dense", "c128", 2, 2, H2]], ["eye", "c128", 2]], [2, 1]]},
    {"call": "plu", "pd": True, "op": ["ann", "PSD", ["kron", ["scalar", "f64", {"q": [9, 4]}, 3], ["ann", "PSD", ["dense", "c64", 2, 2, H2]]]]},
    {"call": "plu", "pd": True, "op": ["bdiag", [["kron", ["ann", "SelfAdjoint", ["dense", "c128", 2, 2, H2]], ["diag", "c128", [1, 4, 9]]],
                                                 ["ann", "PSD", ["dense", "c128", 3, 3, H3]]], [1, 2]]},
    {"call": "chol", "pd": True, "op": ["ann", "PSD", ["dense", "c128", 3, 3, H3]]},
    {"call": "chol", "pd": True, "op": ["ann", "SelfAdjoint", ["dense", "c64", 2, 2, H2]]},
    {"call": "chol", "pd": True, "op": ["kron", ["ann", "PSD", ["dense", "c128", 3, 3, H3]], ["diag", "f64", [4, {"q": [1, 4]}]]]},
    {"call": "chol", "pd": True, "op": ["bdiag", [["ann", "PSD", ["dense", "c128", 2, 2, H2]], ["eye", "c128", 2]], [2, 1]]},
    {"call": "chol", "pd": True, "op": ["ann", "PSD", ["bdiag", [["kron", ["dense", "c128", 2, 2, H2], ["ann", "SelfAdjoint", ["dense", "c128", 3, 3, H3]]],
                                                                  ["scalar", "c128", 4, 2]], [2, 3]]]},
]


def run(ctx):
    gate, gate_err = None, None
    try:
        gate = common.lean_gate(ctx, MODULE)
    except common.LeanGateError as ex:
        gate_err = str(ex)
    known = {k: v["what"] for k, v in common.known_clauses(ctx.prop).items()}
    OBS.clear()
    NOT_COMPARED.clear()
    del NOT_COMPARED_CASES[:]
    stats = collections.Counter()
    hist = {"call": collections.Counter(), "root": collections.Counter(), "leaf_kinds": collections.Counter(),
            "dtype": collections.Counter(), "depth": collections.Counter(), "dim": collections.Counter(),
            "kron_arity": collections.Counter(), "max_mult": collections.Counter(), "herm": collections.Counter(),
            "pd_call": collections.Counter()}
    distinct, samples = set(), []
    reported, cover = collections.Counter(), collections.Counter()

    if ctx.replay:
        rp = json.load(open(ctx.replay))
        c = dict(rp.get("case") or rp.get("original_case"))
        c["id"] = 0
        cases = [c]
    else:
        rng = random.Random(ctx.seed * 104729 + 11)
        cases = [dict(c, id=i) for i, c in enumerate(CORPUS)]
        n = 875 if not ctx.thorough else 7500
        for c in gen_cases(ctx, rng, n):
            c["id"] = len(cases)
            cases.append(c)

    batch = 4000
    for b0 in range(0, len(cases), batch):
        for (c, a, real, st, det, rsd) in evaluate(cases[b0:b0 + batch]):
            stats["evaluations"] += 1
            stats[st if st != "known?" else "code!=spec"] += 1
            e = c["op"]
            hist["call"][c["call"]] += 1
            hist["root"][e[0]] += 1
            for s in subexprs(e):
                if s[0] in ("dense", "diag", "scalar", "eye", "tri", "prod", "sum", "T"):
                    hist["leaf_kinds"][s[0]] += 1
                if s[0] in ("dense", "diag", "scalar", "eye", "tri"):
                    hist["dtype"][s[1]] += 1
                if s[0] == "kron":
                    hist["kron_arity"][len(s) - 1] += 1
                if s[0] == "bdiag":
                    hist["max_mult"][max(s[2])] += 1
            hist["depth"][depth_of(e)] += 1
            if st == "ok":
                # what the positive-definite / Hermitian part of the stream covered (cases that were fully compared)
                hist["pd_call"][c["call"] + ("|positive-definite tree" if (c.get("pd") or c["call"] == "chol") else "|general tree")] += 1
                tags = set(hermitian_leaves(e))
                for tg in tags:
                    hist["herm"][c["call"] + "|" + tg] += 1
                if any(tg.startswith("PSD|hpd|nonreal|") for tg in tags):
                    cover[c["call"] + "_cases_with_PSD_declared_complex_nonreal_hpd_dense_leaf"] += 1
                if any("|hpd|nonreal|" in tg for tg in tags):
                    cover[c["call"] + "_cases_with_complex_nonreal_hpd_dense_leaf"] += 1
            if "rows" in a:
                hist["dim"][a["rows"]] += 1
            if st in ("ok", "known?") and nontrivial(e):
                distinct.add(common.canon([c["call"], e]))
            if st == "ok" and len(samples) < 4 and depth_of(e) >= 1 and len(json.dumps(c)) < 700:
                samples.append({"case": {"call": c["call"], "op": e}, "model_kinds": [f["kinds"] for f in a["code"]["factors"]],
                                "real_satisfies": rsd})
            if st == "known?":
                unknown = [cl for cl in det if cl not in known]
                if (not det or unknown) and reported["input"] >= MAX_REPORTS:
                    continue
                if not det or unknown:
                    reported["input"] += 1
                    common.violation(ctx, {"case": {"call": c["call"], "op": e}, "model": a.get("code"), "spec": a.get("spec"),
                                           "real": strip_real(real), "clauses": det,
                                           "why": "real = code model, but the result violates the specification and no recorded finding covers it"})
                else:
                    for cl in det:
                        common.known_finding(ctx, cl, known[cl])
            elif st == "violation":
                stats["real-contradicts-spec"] += 1
                if reported["input"] >= MAX_REPORTS:
                    continue                                   # further failing inputs are only counted
                reported["input"] += 1
                small = shrink(c) if (not ctx.replay and stats["shrunk"] < MAX_SHRINKS) else c
                stats["shrunk"] += 1
                (sc, sa, sreal, sst, sdet, srsd) = evaluate([dict(small, id=0)])[0]
                if sst != "violation":
                    sc, sa, sreal, sdet, srsd = c, a, real, det, rsd
                common.violation(ctx, {"case": {"call": sc["call"], "op": sc["op"]}, "detail": sdet, "spec_on_real": srsd,
                                       "expected_matrix": sa.get("den"), "promised_kinds": sa.get("promised"),
                                       "real": strip_real(sreal), "original_case": {"call": c["call"], "op": e},
                                       "replay_cmd": f"./check {ctx.prop} quick --replay <this file>"})
            elif st == "stale-model":
                stats["real!=code"] += 1
                broken = "correspondence stream of the code model: " + str(det)
                found = None
                if not ctx.replay and stats["neighbourhood-searches"] < MAX_NEIGH and reported["input"] < MAX_REPORTS:
                    # the real code meets the specification here but is not what the model describes: look for an input
                    # nearby on which it contradicts the specification
                    stats["neighbourhood-searches"] += 1
                    nb = [dict(x, id=i) for i, x in enumerate(neighbours(c))]
                    try:
                        for (nc, na, nreal, nst, ndet, nrsd) in (evaluate(nb) if nb else []):
                            if nst == "violation":
                                found = (nc, na, nreal, ndet, nrsd)
                                break
                    except Exception as ex:  # noqa: BLE001
                        ctx.notes.append(f"neighbourhood search failed: {type(ex).__name__}: {str(ex)[:200]}")
                if found is not None:
                    (nc, na, nreal, ndet, nrsd) = found
                    stats["failing-input-from-neighbourhood"] += 1
                    reported["input"] += 1
                    common.violation(ctx, {"case": {"call": nc["call"], "op": nc["op"]}, "detail": ndet, "spec_on_real": nrsd,
                                           "expected_matrix": na.get("den"), "promised_kinds": na.get("promised"),
                                           "real": strip_real(nreal), "original_case": {"call": c["call"], "op": e},
                                           "found_by": "neighbourhood search around original_case, where: " + broken,
                                           "replay_cmd": f"./check {ctx.prop} quick --replay <this file>"})
                elif reported["no-input"] < MAX_NOINPUT:
                    reported["no-input"] += 1
                    common.violation(ctx, {"case": {"call": c["call"], "op": e}, "model": a.get("code"), "real": strip_real(real),
                                           "broken": broken}, no_input=True)
            elif st == "spec-mismatch":
                stats["den!=nominal"] += 1
                if reported["no-input"] < MAX_NOINPUT:
                    reported["no-input"] += 1
                    common.violation(ctx, {"case": {"call": c["call"], "op": e}, "driver_den": a.get("den"),
                                           "numpy_nominal": build.exact_mat(nominal(e)),
                                           "broken": "specification oracle: " + str(det)}, no_input=True)
            elif st == "driver-error":
                ctx.notes.append(f"driver error on case {c.get('id')}: {det}")
                stats["driver-error-noted"] += 1

    if stats["driver-error"] and not ctx.violations:
        common.violation(ctx, {"broken": "Lean driver DriverC11.lean failed on some cases", "notes": ctx.notes[:5]}, no_input=True)
    if gate_err is not None and not ctx.violations:
        common.violation(ctx, {"broken": f"Lean gate of {MODULE}", "detail": gate_err[-3000:]}, no_input=True)
    if ctx.replay:
        print(json.dumps({"replayed": cases[0], "outcomes": dict(stats)})[:2000])
    cov = {
        "evaluations": stats["evaluations"],
        "distinct_nontrivial": len(distinct),
        "rule": "random positive-definite (cholesky, and 1 in 3 plu cases) / non-singular (plu) operator trees over Dense, Identity, "
                "Diagonal, ScalarMul, Kronecker (2-3 factors of pairwise different size), BlockDiag with multiplicities >= 1 (up to 21), "
                "true PSD/SelfAdjoint declarations on Hermitian (positive-definite) dense leaves (complex ones with non-real off-diagonals), on "
                "Product fallback nodes and on positive-definite composites, PSD/SelfAdjoint/Unitary on Identity, "
                "Product/Sum/Transpose/Triangular nodes (dense fallback), nesting depth <= 3, dimension <= "
                f"{36 if ctx.thorough else 24}, f32/f64/c64/c128 incl. mixed; distinct = canonical JSON of (call, expression); "
                "non-trivial = contains a Kronecker or BlockDiag node, or a dense / fallback node of size >= 2",
        "outcomes": dict(stats),
        "calls": dict(hist["call"]), "root_kinds": dict(hist["root"]), "leaf_kinds": dict(hist["leaf_kinds"]),
        "leaf_dtypes": dict(hist["dtype"]), "depths": {str(k): v for k, v in sorted(hist["depth"].items())},
        "dimensions": {str(k): v for k, v in sorted(hist["dim"].items())},
        "kron_arity": {str(k): v for k, v in sorted(hist["kron_arity"].items())},
        "max_multiplicity": {str(k): v for k, v in sorted(hist["max_mult"].items())},
        "tree_class_by_call": dict(hist["pd_call"]),
        "hermitian_dense_leaves": {"key": "call|declaration|hpd (positive definite) or herm (indefinite)|nonreal = complex dtype with non-real "
                                          "off-diagonal entries|position (root, kron, bdiag, bdiag-mult = multiplicity >= 2); counted per case, "
                                          "cases with outcome ok only",
                                   **{k: v for k, v in sorted(hist["herm"].items())}},
        "plu_cases_with_PSD_declared_complex_nonreal_hpd_dense_leaf": cover["plu_cases_with_PSD_declared_complex_nonreal_hpd_dense_leaf"],
        "chol_cases_with_PSD_declared_complex_nonreal_hpd_dense_leaf": cover["chol_cases_with_PSD_declared_complex_nonreal_hpd_dense_leaf"],
        "plu_cases_with_complex_nonreal_hpd_dense_leaf": cover["plu_cases_with_complex_nonreal_hpd_dense_leaf"],
        "chol_cases_with_complex_nonreal_hpd_dense_leaf": cover["chol_cases_with_complex_nonreal_hpd_dense_leaf"],
        "plu_dense_leaf_cases": dict(OBS),
        "samples": samples,
        "compare": "kind trees / dtypes / shapes / triangular zeros / permutation entries exactly; the driver's den A = the matrix numpy "
                   "assembles from the case, exactly; factor matrices and products (against both) exactly for "
                   "real-dtype trees without dense leaves, else relative tolerance 1e-9 (double) / 2e-4 (single); dense PLU leaves "
                   "through P L U = A, triangularity, permutation, and L, U against the model's whenever the real permutation equals the "
                   "model's (unit lower L: unique then; the model's pivot order need not be LAPACK's on ties)",
        "provisional_known": {},
        "not_fully_compared": {
            "meaning": "every case whose outcome is not `ok` (= real, code model and specification compared three-way) and not a VIOLATION, by exact "
                       "reason; refused-ok = real and model fail in the same way (LinAlgError / NaN factor) and the input predicate that puts the "
                       "case outside the property's quantifier holds; spec-only-ok = the exact model has no rational root (checked on the input), real "
                       "vs specification only; skipped = nothing compared.  The generator produces none of them; each is listed below",
            "by_reason": dict(NOT_COMPARED),
            "cases": NOT_COMPARED_CASES,
            "skipped": stats["skipped"], "refused-ok": stats["refused-ok"], "spec-only-ok": stats["spec-only-ok"],
        },
        "notes": ctx.notes[:5],
    }
    common.write_evidence(ctx, gate, cov, assumptions=[
        "contract `Op.Contracts P pos` (hypothesis `hP` of C11_chol, C11_chol_entrywise, C11_plu, C11_plu_entrywise, C11_structure_plu), field by "
        "field ASSUMED behaviour of the numerical primitives: `sqrt_sq` (x ** 0.5 squares back to x when it returns) and `sqrt_pos` (the root of "
        "a `pos` entry is `pos`) for NumPy's `x ** 0.5`; `chol` (when LAPACK potrf returns L: L lower triangular, L L^H = the Hermitian completion "
        "of the lower triangle); `lu` (when scipy.linalg.lu(p_indices=True) returns (p, L, U): p a permutation, L unit lower, U upper, "
        "L[p] U = A).  Proved for the driver's exact instance GDecomp.params (C11_contracts_instance) and EVALUATED at dense-fallback nodes by "
        "C11_chol_dense_witness, C11_chol_kron_witness, C11_plu_dense_witness; that NumPy's / LAPACK's / SciPy's own `x ** 0.5`, potrf, "
        "scipy.linalg.lu satisfy them is NOT proved: covered only by this correspondence stream with tolerance 1e-9 (double) / 2e-4 (single) "
        "on well-conditioned generated inputs",
        "precondition `Op.CholPre pos A` (hypothesis `hpre` of C11_chol*): Diagonal / ScalarMul entries reached by the structural rules are `pos`, "
        "members of Kronecker / BlockDiag recursively, every dense-fallback node is C01-`Good` (wf, dupSlice = false, HermOK) and `HermOn`; "
        "positive definite FACTOR BY FACTOR — a positive-definite Kronecker product of two negative-definite factors is not covered "
        "(C11_chol_hereditary_needed) and not generated",
        "precondition `Op.PluPre A` (hypothesis `hpre` of C11_plu*): every dense-fallback node is C01-`Good`",
        "totality premises, NOT derived from positive definiteness / non-singularity of den A: `Op.CholReturns P A` and `Op.RootsDefined P A` "
        "(C11_chol_total_partial), `Op.LuReturns P A` (C11_plu_total); all other theorems are conditional on the rule returning `.ok`",
        "IEEE rounding is outside the model: LAPACK paths are compared with a relative tolerance on well-conditioned generated inputs; the driver's "
        "LU pivot order (largest squared modulus, first maximum) need not be LAPACK's: where the real permutation differs from the model's (exact "
        "predicate, counted in plu_dense_leaf_cases) L and U are checked through the defining properties only",
    ])
    print(json.dumps({"outcomes": dict(stats), "distinct_nontrivial": len(distinct), "gate": (gate or {}).get("obligations")}))
