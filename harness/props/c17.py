"""C17 — randomised routines are deterministic in their key, neither read nor advance the process-wide
NumPy random state, and the Hutchinson estimator is unbiased and stops no later than max_iters.

Parties
  proof   lean/ColaVerif/Properties/C17.lean over Model/Rng.lean (random plumbing as programs over
          keyedNormal / unkeyedNormalFallbackKey0 / globalDraw / localGenerator) and Model/Hutch.lean
          (one evaluation of the Hutchinson loop body), tied to /repo by the GENERATED table
          Gen/RngSites.lean (harness/translators/scan_rng_sites.py, regenerated here on every run)
  real    cola in this process (NumPy backend + harness shim)
  model   lean/DriverC17.lean: `Hutch.est` (roll / mask / slice index arithmetic) on exact integer data
          against the real loop body with probes injected by replacing `np_fns.randn` IN THIS PROCESS,
          and `Rng.hutchProg` (loop condition, key chain) against the real iteration counts

Streams (all randomness from random.Random(ctx.seed) except stream (v), see there)
  (i)+(ii) scripts: user draws from numpy.random (randn / rand / normal / randint / seed / set_state) interleaved
          with cola calls; every cola call occurs twice (same operator, key, parameters; once on the same
          operator object and once on a rebuilt one) at different points of the script.  Checked:
          np.random.get_state() before == after EVERY call (also when the call raises); the two calls return
          bit-identical bytes (every array, to_dense() of returned operators, info dicts); the script re-run
          WITHOUT the cola calls yields bit-identical user draws.
  (iii)   Rademacher probes on diagonal operators (Diagonal, Dense holding a diagonal, Kronecker / sums of
          diagonals, ScalarMul): bit-exact main diagonal for dyadic data (and exactly one iteration), 1e-12
          relative for arbitrary doubles; plus the EXHAUSTIVE expectation: all 2^n sign patterns injected,
          integer operator, any offset k: the returned mean equals np.diag(A, k) exactly.
  (iv)    iterations <= max_iters, counted with an operator that counts its products, cross-checked with
          info['iterations'] - 1 (the info field counts evaluations of the loop condition).
  (v)     z-test of the estimate against the true (off-)diagonal with the standard error implied by the
          estimator's own variance (closed form from the operator: sum_{j != s} A[r,j]^2 (+ 2 A[r,s]^2 for
          normal probes)), threshold 6 sigma.  Correspondence tier, statistical.  The cases (operators AND
          keys) come from a FIXED seed set that does not depend on VERIF_SEED, so on an unchanged tree the
          outcome is deterministic (no false alarm possible once it passed; max |z| is recorded).  If the
          draws changed (other generator, other key chain) the false-alarm probability of one run is at most
          (#components tested) * 2e-9 by the Gaussian tail bound at 6 sigma with >= 2000 samples per
          component (about 1e-6 for the ~600 components); documented, not hidden.
  (L)     Lean correspondence: integer operators and injected integer probe blocks; real mean must equal the
          model's diag_sum / (iters * bs) bit for bit; the model loop fed with the observed `err > tol`
          decisions must make the same number of iterations, and the keys the real loop passes to randn must
          be the sha256 chain next_key^t(key0).
  (T)     site trace: a transparent counting wrapper around np_fns.randn records the source line of every
          caller during all streams; every observed line must be a site of the generated table.
"""
import hashlib
import importlib
import json
import logging
import os
import random
import sys
import threading
import time
import traceback
import warnings

import numpy as np

import common

MODULE = "ColaVerif.Properties.C17"
DRIVER = "DriverC17.lean"
MAX_VIOLATION_LINES = 5

# Genuine deviations found by this check and not (yet) listed in /verif/known_findings.json.
# PROVISIONAL: proposed entries, see the report; treated like known findings (exit 0 + KNOWN-FINDING line).
PROVISIONAL_KNOWN = {
    "capPositive": {
        "property": "C17", "clause": "capPositive",
        "call_site": "cola/linalg/trace/diagonal_estimation.py hutchinson_diag_estimate.cond "
                     "((state[0] == 0) | ((state[0] < max_iters) & (err(state) > tol)))",
        "what": "max_iters = 0: the loop condition forces a first iteration, the routine performs 1 > max_iters "
                "iterations (one product with A). For max_iters >= 1 the cap holds (theorem C17_cap_partial)."},
}

sys.path.insert(0, os.path.join(common.ROOT, "harness", "translators"))


# ------------------------------------------------------------------------------------------------
# cola, lazily (so that --help etc. stay fast) -----------------------------------------------------
class Lib:
    pass


L = Lib()


def load_cola():
    if getattr(L, "ready", False):
        return
    logging.disable(logging.WARNING)     # "Non keyed randn used" etc.
    warnings.simplefilter("ignore")
    import shim  # noqa: F401
    import cola
    from cola.backends import np_fns
    L.cola = cola
    L.np_fns = np_fns
    L.hutch = sys.modules["cola.linalg.trace.diagonal_estimation"]
    L.slq = importlib.import_module("cola.linalg.tbd.slq")
    L.rsvd = importlib.import_module("cola.linalg.tbd.randomized_svd")
    L.pre = importlib.import_module("cola.linalg.preconditioning.preconditioners")
    L.lobpcg = importlib.import_module("cola.linalg.eig.lobpcg")
    L.power = sys.modules.get("cola.linalg.eig.power_iteration") or importlib.import_module("cola.linalg.eig.power_iteration")
    L.lanczos = sys.modules["cola.linalg.decompositions.lanczos"]
    L.arnoldi = sys.modules["cola.linalg.decompositions.arnoldi"]
    L.orig_randn = np_fns.randn
    L.ready = True


# ------------------------------------------------------------------------------------------------
# site trace: transparent wrapper around np_fns.randn ------------------------------------------------
class Trace:
    def __init__(self):
        self.sites = {}       # "cola/...py:line" -> count
        self.unkeyed = {}     # same, calls with key None
        self.draws = 0

    def install(self):
        orig = L.orig_randn
        base = os.path.dirname(os.path.dirname(os.path.abspath(L.cola.__file__)))
        trace = self

        def randn(*shape, dtype=None, device=None, key=None):
            f = sys._getframe(1)
            rel = os.path.relpath(f.f_code.co_filename, base).replace(os.sep, "/")
            loc = f"{rel}:{f.f_lineno}"
            trace.sites[loc] = trace.sites.get(loc, 0) + 1
            if key is None:
                trace.unkeyed[loc] = trace.unkeyed.get(loc, 0) + 1
            trace.draws += 1
            return orig(*shape, dtype=dtype, device=device, key=key)

        randn.__c17_wrapper__ = True
        L.np_fns.randn = randn

    def uninstall(self):
        L.np_fns.randn = L.orig_randn


# ------------------------------------------------------------------------------------------------
# operators ----------------------------------------------------------------------------------------
DT = {"f64": np.float64, "f32": np.float32}


def gen_matrix(rng, n, sym, integer=False):
    if integer:
        M = [[rng.randint(-4, 4) for _ in range(n)] for _ in range(n)]
        if sym:
            M = [[M[min(i, j)][max(i, j)] for j in range(n)] for i in range(n)]
            for i in range(n):
                M[i][i] = abs(M[i][i]) + 4 * n
        return [[float(x) for x in r] for r in M]
    G = np.array([[rng.gauss(0, 1) for _ in range(n)] for _ in range(n)])
    if sym:
        S = G @ G.T / n + np.diag([1.0 + rng.random() for _ in range(n)])
        S = (S + S.T) / 2
        return S.tolist()
    return G.tolist()


def gen_op(rng, n, sym, dtype="f64", kinds=("dense", "diag", "kron", "sum")):
    kind = rng.choice(kinds)
    if kind == "kron":
        fac = [(a, n // a) for a in range(2, n) if n % a == 0]
        if not fac:
            kind = "dense"
        else:
            a, b = rng.choice(fac)
            return {"kind": "kron", "dtype": dtype, "Ms": [gen_op(rng, a, sym, dtype, ("dense", "diag")),
                                                           gen_op(rng, b, sym, dtype, ("dense", "diag"))]}
    if kind == "sum":
        return {"kind": "sum", "dtype": dtype, "Ms": [gen_op(rng, n, sym, dtype, ("dense",)),
                                                      gen_op(rng, n, sym, dtype, ("diag", "dense"))]}
    if kind == "diag":
        return {"kind": "diag", "dtype": dtype, "d": [0.5 + 2 * rng.random() for _ in range(n)]}
    return {"kind": "dense", "dtype": dtype, "sym": sym, "M": gen_matrix(rng, n, sym)}


def build(case):
    ops = L.cola.ops
    dt = DT[case["dtype"]]
    k = case["kind"]
    if k == "dense":
        return ops.Dense(np.array(case["M"], dtype=dt))
    if k == "diag":
        return ops.Diagonal(np.array(case["d"], dtype=dt))
    if k == "kron":
        return ops.Kronecker(*[build(m) for m in case["Ms"]])
    if k == "sum":
        return ops.Sum(*[build(m) for m in case["Ms"]])
    if k == "scalar":
        return ops.ScalarMul(dt(case["c"]), (case["n"], case["n"]), dtype=dt)
    raise ValueError(k)


def dense_of(case):
    k = case["kind"]
    dt = DT[case["dtype"]]
    if k == "dense":
        return np.array(case["M"], dtype=dt)
    if k == "diag":
        return np.diag(np.array(case["d"], dtype=dt))
    if k == "kron":
        out = np.ones((1, 1), dtype=dt)
        for m in case["Ms"]:
            out = np.kron(out, dense_of(m))
        return out
    if k == "sum":
        return sum(dense_of(m) for m in case["Ms"])
    if k == "scalar":
        return dt(case["c"]) * np.eye(case["n"], dtype=dt)
    raise ValueError(k)


def op_size(case):
    k = case["kind"]
    if k == "dense":
        return len(case["M"])
    if k == "diag":
        return len(case["d"])
    if k == "kron":
        return int(np.prod([op_size(m) for m in case["Ms"]]))
    if k == "sum":
        return op_size(case["Ms"][0])
    return case["n"]


def op_skel(case):
    k = case["kind"]
    if k in ("kron", "sum"):
        return k + "(" + ",".join(op_skel(m) for m in case["Ms"]) + ")"
    return f"{k}{op_size(case)}"


# ------------------------------------------------------------------------------------------------
# flattening results into bytes --------------------------------------------------------------------
def flat(x, out):
    LO = L.cola.ops.LinearOperator
    if isinstance(x, LO):
        out.append(("op", type(x).__name__.split("[")[0], tuple(x.shape)))
        flat(np.asarray(x.to_dense()), out)
    elif isinstance(x, np.ndarray):
        out.append(("arr", str(x.dtype), x.shape, np.ascontiguousarray(x).tobytes()))
    elif isinstance(x, (np.generic,)):
        out.append(("scalar", str(x.dtype), x.tobytes()))
    elif isinstance(x, (float, int, bool, complex, str, type(None))):
        out.append(("py", repr(x)))
    elif isinstance(x, dict):
        for kk in sorted(x):
            if kk in ("iteration_time", "pbar"):
                continue
            out.append(("key", kk))
            flat(x[kk], out)
    elif isinstance(x, (tuple, list)):
        out.append(("seq", len(x)))
        for y in x:
            flat(y, out)
    else:
        out.append(("obj", type(x).__name__))
    return out


def digest(x):
    items = flat(x, [])
    h = hashlib.sha256()
    for it in items:
        for part in it:
            h.update(part if isinstance(part, bytes) else repr(part).encode())
            h.update(b"|")
    return h.hexdigest()


# ------------------------------------------------------------------------------------------------
# routines -------------------------------------------------------------------------------------------
FUNS = {"log": np.log, "sqrt": np.sqrt, "exp01": lambda x: np.exp(0.1 * x)}


def gen_key(rng):
    r = rng.random()
    if r < 0.2:
        return None
    if r < 0.6:
        return rng.choice([0, 1, 2, 7, 42, 1234, 2**32 - 1])
    return rng.randrange(0, 2**32)


def r_hutch(A, key, p):
    m, info = L.hutch.hutchinson_diag_estimate(A, k=p["k"], tol=p["tol"], max_iters=p["max_iters"], rand=p["rand"], key=key)
    return [m, info]


def r_hutch_diag(A, key, p):
    alg = L.cola.linalg.Hutch(tol=p["tol"], max_iters=p["max_iters"], rand=p["rand"], key=key)
    return [L.cola.linalg.diag(A, p["k"], alg)]


def r_hutch_trace(A, key, p):
    alg = L.cola.linalg.Hutch(tol=p["tol"], max_iters=p["max_iters"], rand=p["rand"], key=key)
    return [L.cola.linalg.trace(A, alg)]


def r_slq(A, key, p):
    return [L.slq.stochastic_lanczos_quad(A, FUNS[p["fun"]], max_iters=p["max_iters"], tol=1e-6, vtol=p["vtol"], key=key)]


def r_logdet(A, key, p):
    c = L.cola
    return [c.linalg.logdet(c.PSD(A), c.linalg.Lanczos(key=key, max_iters=p["max_iters"]),
                            c.linalg.Hutch(key=key, max_iters=p["hutch_iters"], tol=0.05))]


def r_lanczos(A, key, p):
    Q, T, info = L.lanczos.lanczos(A, max_iters=p["max_iters"], tol=p["tol"], key=key)
    return [Q, T, info]


def r_arnoldi(A, key, p):
    Q, H, info = L.arnoldi.arnoldi(A, max_iters=p["max_iters"], tol=p["tol"], key=key)
    return [Q, H, info]


def r_eig_lanczos(A, key, p):
    c = L.cola
    e, V = c.linalg.eig(c.SelfAdjoint(A), p["k"], alg=c.linalg.Lanczos(key=key, max_iters=p["max_iters"]))
    return [e, V]


def r_eig_arnoldi(A, key, p):
    c = L.cola
    e, V = c.linalg.eig(A, p["k"], alg=c.linalg.Arnoldi(key=key, max_iters=p["max_iters"]))
    return [e, V]


def r_power(A, key, p):
    v, e, info = L.power.power_iteration(A, tol=p["tol"], max_iter=p["max_iter"], key=key)
    return [v, e, info]


def r_eig_power(A, key, p):
    c = L.cola
    e, V = c.linalg.eig(A, 1, "LM", L.power.PowerIteration(tol=p["tol"], max_iter=p["max_iter"], key=key))
    return [e, V]


def r_nystrom(A, key, p):
    P = L.pre.NystromPrecond(A, rank=p["rank"], key=key)
    return [P.U, P.Lambda, P]


def r_adanys(A, key, p):     # un-keyed
    P = L.pre.AdaNysPrecond(A, rank=p["rank"], bounds=(0.1, 0.5, 1.0))
    return [P.U, P.error, P.rank]


def r_selrank(A, key, p):    # un-keyed
    Lam, U, rank = L.pre.select_rank_adaptively(A, p["rank"], p["rank_max"], p["tol"])
    return [Lam, U, rank]


def r_rsvd(A, key, p):       # un-keyed
    return list(L.rsvd.randomized_svd(A, p["rank"]))


def r_lobpcg(A, key, p):     # local generator
    e, V = L.lobpcg.lobpcg(A, max_iters=p["max_iters"])
    return [e, V]


def p_hutch(rng, n):
    return {"k": rng.randint(-(n - 1), n - 1) if rng.random() < 0.75 else 0,
            "rand": rng.choice(["normal", "rademacher"]),
            "tol": rng.choice([0.0011, 0.003, 0.03, 0.1, 0.5, 2.0]),
            "max_iters": rng.choice([1, 1, 2, 3, 5, 10, 25]) if rng.random() < 0.95 else 0}


ROUTINES = {
    # name: (fn, keyed, needs symmetric PD, param generator, nmin, table routine it exercises)
    "hutchinson_diag_estimate": (r_hutch, True, False, p_hutch, 2),
    "diag(Hutch)": (r_hutch_diag, True, False, p_hutch, 2),
    "trace(Hutch)": (r_hutch_trace, True, False, lambda rng, n: dict(p_hutch(rng, n), k=0), 2),
    "stochastic_lanczos_quad": (r_slq, True, True, lambda rng, n: {"fun": rng.choice(list(FUNS)), "max_iters": rng.randint(2, n),
                                                                   "vtol": rng.choice([0.6, 0.4, 0.3])}, 2),
    "logdet(Lanczos,Hutch)": (r_logdet, True, True, lambda rng, n: {"max_iters": rng.randint(2, n), "hutch_iters": rng.randint(1, 4)}, 2),
    "lanczos": (r_lanczos, True, True, lambda rng, n: {"max_iters": rng.randint(1, n + 2), "tol": rng.choice([1e-7, 1e-3])}, 2),
    "arnoldi": (r_arnoldi, True, False, lambda rng, n: {"max_iters": rng.randint(1, n), "tol": rng.choice([1e-7, 1e-3])}, 2),
    "eig(Lanczos)": (r_eig_lanczos, True, True, lambda rng, n: {"k": rng.randint(1, n), "max_iters": rng.randint(2, n)}, 2),
    "eig(Arnoldi)": (r_eig_arnoldi, True, False, lambda rng, n: {"k": rng.randint(1, n), "max_iters": rng.randint(2, n)}, 3),
    "power_iteration": (r_power, True, True, lambda rng, n: {"tol": rng.choice([1e-6, 1e-3]), "max_iter": rng.choice([1, 5, 50])}, 2),
    "eig(PowerIteration)": (r_eig_power, True, True, lambda rng, n: {"tol": rng.choice([1e-6, 1e-3]), "max_iter": rng.choice([5, 50])}, 2),
    "NystromPrecond": (r_nystrom, True, True, lambda rng, n: {"rank": rng.randint(1, n)}, 2),
    "AdaNysPrecond": (r_adanys, False, True, lambda rng, n: {"rank": rng.randint(1, max(1, n // 2))}, 3),
    "select_rank_adaptively": (r_selrank, False, True, lambda rng, n: {"rank": 1, "rank_max": rng.randint(1, n), "tol": rng.choice([1e-1, 1e-3])}, 3),
    "randomized_svd": (r_rsvd, False, False, lambda rng, n: {"rank": rng.randint(1, n)}, 2),
    "lobpcg": (r_lobpcg, False, True, lambda rng, n: {"max_iters": rng.randint(1, 3)}, 4),
}
# weights: expensive routines less often
WEIGHT = {"AdaNysPrecond": 0.25, "select_rank_adaptively": 0.3, "lobpcg": 0.5}


def gen_call(rng, name=None):
    name = name or rng.choice(list(ROUTINES))
    while rng.random() > WEIGHT.get(name, 1.0):
        name = rng.choice(list(ROUTINES))
    fn, keyed, sym, pgen, nmin = ROUTINES[name]
    n = rng.randint(max(2, nmin), 12)
    dtype = "f32" if (rng.random() < 0.15 and name in ("hutchinson_diag_estimate", "lanczos", "power_iteration", "arnoldi")) else "f64"
    op = gen_op(rng, n, sym, dtype)
    return {"routine": name, "op": op, "key": gen_key(rng) if keyed else None, "params": pgen(rng, n)}


def do_call(call, A=None):
    """returns (digest or 'EXC:…', exception text)"""
    fn = ROUTINES[call["routine"]][0]
    A = A if A is not None else build(call["op"])
    try:
        with np.errstate(all="ignore"):
            out = fn(A, call["key"], call["params"])
        return digest(out), None
    except Exception as ex:   # the state must be unchanged on this path as well
        return "EXC:" + type(ex).__name__, f"{type(ex).__name__}: {ex}"


# ------------------------------------------------------------------------------------------------
# global state ---------------------------------------------------------------------------------------
def same_values(a, b):
    """exact equality of every entry (no tolerance); +0.0 and -0.0 are the same value (0 * -1 = -0.0 in the code)"""
    a, b = np.asarray(a), np.asarray(b)
    return a.shape == b.shape and a.dtype == b.dtype and bool(np.array_equal(a, b))


def st_eq(a, b):
    return a[0] == b[0] and np.array_equal(a[1], b[1]) and tuple(a[2:]) == tuple(b[2:])


def st_diff(a, b):
    d = []
    if not np.array_equal(a[1], b[1]):
        d.append(f"{int((a[1] != b[1]).sum())} of 624 key words differ")
    if a[2] != b[2]:
        d.append(f"pos {a[2]} -> {b[2]}")
    if tuple(a[3:]) != tuple(b[3:]):
        d.append(f"gauss cache {a[3:]} -> {b[3:]}")
    return "; ".join(d)


def user_step(step):
    kind, arg = step["user"], step["arg"]
    if kind == "randn":
        return np.random.randn(arg).tobytes()
    if kind == "rand":
        return np.random.rand(arg).tobytes()
    if kind == "normal":
        return np.random.normal(size=arg).tobytes()
    if kind == "randint":
        return np.random.randint(0, 1000, size=arg).tobytes()
    if kind == "seed":
        np.random.seed(arg)
        return b"seed"
    if kind == "permutation":
        return np.random.permutation(arg).tobytes()
    raise ValueError(kind)


def gen_user(rng):
    kind = rng.choice(["randn", "randn", "rand", "normal", "randint", "seed", "permutation"])
    if kind == "seed":
        return {"user": kind, "arg": rng.randrange(0, 2**32)}
    return {"user": kind, "arg": rng.randint(1, 7)}     # odd counts leave a cached gaussian behind


def gen_script(rng, ncalls=3):
    calls = [gen_call(rng) for _ in range(ncalls)]
    occ = [(i, rep) for i in range(ncalls) for rep in (0, 1)]
    rng.shuffle(occ)
    steps = [{"user": "seed", "arg": rng.randrange(0, 2**32)}]
    for (i, rep) in occ:
        for _ in range(rng.randint(0, 3)):
            steps.append(gen_user(rng))
        steps.append({"call": i, "rep": rep})
    for _ in range(rng.randint(1, 3)):
        steps.append(gen_user(rng))
    return {"calls": calls, "steps": steps}


def run_script(script, with_cola):
    """returns (user outputs, findings, per-call digests)"""
    user, findings, digs = [], [], {}
    ops = {}
    drew = script.setdefault("_drew", {}) if with_cola else {}
    for si, st in enumerate(script["steps"]):
        if "user" in st:
            user.append(user_step(st))
            continue
        if not with_cola:
            continue
        i, rep = st["call"], st["rep"]
        call = script["calls"][i]
        if rep == 0 or i not in ops:
            ops.setdefault(i, build(call["op"]))
            A = ops[i]
        else:
            A = ops[i] if (i % 2 == 0) else build(call["op"])    # same object / rebuilt equal operator
        d0 = L.trace.draws if getattr(L, "trace", None) else 0
        before = np.random.get_state()
        dg, exc = do_call(call, A)
        after = np.random.get_state()
        drew[i] = drew.get(i, 0) + ((L.trace.draws - d0) if getattr(L, "trace", None) else 1)
        if not st_eq(before, after):
            findings.append({"kind": "global-state-changed", "step": si, "call": call, "exception": exc,
                             "detail": st_diff(before, after)})
            np.random.set_state(before)    # keep going with the user's state to find further ones
        digs.setdefault(i, []).append((dg, exc))
    for i, lst in digs.items():
        if len(lst) == 2 and lst[0][0] != lst[1][0]:
            findings.append({"kind": "not-deterministic-in-key", "call": script["calls"][i],
                             "detail": f"first call {lst[0]}, second call {lst[1]}"})
    return user, findings, digs


def check_script(script):
    u1, f1, digs = run_script(script, True)
    u0, _, _ = run_script(script, False)
    if u0 != u1 and not f1:
        first = next(j for j, (a, b) in enumerate(zip(u0, u1)) if a != b)
        f1.append({"kind": "user-stream-changed", "detail": f"user draw #{first} differs from the run without cola calls"})
    return f1, digs


# ------------------------------------------------------------------------------------------------
class Stats:
    def __init__(self):
        self.evals = 0
        self.cases = set()
        self.nontrivial = set()
        self.by_routine = {}
        self.exc = {}
        self.samples = []
        self.interleavings = 0
        self.user_ops = 0
        self.op_kinds = {}
        self.viol_lines = 0
        self.suppressed = 0
        self.key_checked = 0
        self.key_insensitive = []


def report(ctx, S, payload):
    if S.viol_lines < MAX_VIOLATION_LINES:
        common.violation(ctx, payload)
        S.viol_lines += 1
    else:
        S.suppressed += 1
        ctx.violations.append("suppressed")


def stream_scripts(ctx, S, rng, nscripts, trace):
    for _ in range(nscripts):
        script = gen_script(rng, ncalls=rng.randint(2, 4))
        findings, digs = check_script(script)
        drew = script.pop("_drew", {})
        S.interleavings += 1
        S.user_ops += sum(1 for s in script["steps"] if "user" in s)
        for i, call in enumerate(script["calls"]):
            S.evals += 2
            cid = common.canon(call)
            S.cases.add(cid)
            r = call["routine"]
            S.by_routine[r] = S.by_routine.get(r, 0) + 2
            S.op_kinds[op_skel(call["op"]).split("(")[0].rstrip("0123456789")] = S.op_kinds.get(op_skel(call["op"]).split("(")[0].rstrip("0123456789"), 0) + 1
            res = digs.get(i, [("", None)])
            if res[0][1] is not None:
                S.exc[r + " " + res[0][1].split(":")[0]] = S.exc.get(r + " " + res[0][1].split(":")[0], 0) + 1
            if len(S.samples) < 6 and rng.random() < 0.05:
                S.samples.append({"routine": r, "op": op_skel(call["op"]), "key": call["key"], "params": call["params"]})
        # non-trivial: the call reached at least one draw site (wrapper count; lobpcg: unconditional local-generator site)
        for i, call in enumerate(script["calls"]):
            if drew.get(i, 0) > 0 or (call["routine"] == "lobpcg" and digs.get(i) and digs[i][0][1] is None):
                S.nontrivial.add(common.canon(call))
        for f in findings:
            report(ctx, S, dict(f, script=script, how="re-run with ./check C17 quick --replay <this file>"))
        # key sensitivity (diagnostic): a keyed routine that drew random numbers should not return the very same
        # bytes for a different key.  Not part of the property text; used as the concrete input when the theorem
        # C17_sites_key_honoured breaks (a dropped `key=`).
        call = script["calls"][0]
        if ROUTINES[call["routine"]][1] and call["key"] is not None and drew.get(0, 0) > 0 and digs.get(0) and digs[0][0][1] is None:
            other = dict(call, key=(call["key"] + 1) % 2**32)
            before = np.random.get_state()
            dg, exc = do_call(other)
            np.random.set_state(before)
            S.key_checked += 1
            if exc is None and dg == digs[0][0][0]:
                S.key_insensitive.append({"kind": "key-ignored", "call": call, "other_key": other["key"],
                                          "detail": "bit-identical results for two different keys although random numbers were drawn"})


# ------------------------------------------------------------------------------------------------
# (iii) Rademacher on diagonal operators, (iv) cap ---------------------------------------------------
def gen_diag_op(rng, n, dyadic):
    def val():
        return float(rng.randint(-64, 64)) / 8 if dyadic else rng.uniform(-3, 3)
    kind = rng.choice(["diag", "dense", "sum", "kron", "scalar"])
    if kind == "kron":
        fac = [(a, n // a) for a in range(2, n) if n % a == 0]
        if not fac:
            kind = "diag"
        else:
            a, b = rng.choice(fac)
            return {"kind": "kron", "dtype": "f64", "Ms": [{"kind": "diag", "dtype": "f64", "d": [val() for _ in range(a)]},
                                                         {"kind": "diag", "dtype": "f64", "d": [val() for _ in range(b)]}]}
    if kind == "diag":
        return {"kind": "diag", "dtype": "f64", "d": [val() for _ in range(n)]}
    if kind == "dense":
        return {"kind": "dense", "dtype": "f64", "sym": True, "M": np.diag([val() for _ in range(n)]).tolist()}
    if kind == "sum":
        return {"kind": "sum", "dtype": "f64", "Ms": [{"kind": "diag", "dtype": "f64", "d": [val() for _ in range(n)]},
                                                     {"kind": "dense", "dtype": "f64", "sym": True, "M": np.diag([val() for _ in range(n)]).tolist()}]}
    return {"kind": "scalar", "dtype": "f64", "c": val(), "n": n}


def counting(Adense, dtype):
    cnt = [0]

    def mm(V):
        cnt[0] += 1
        return Adense @ V
    return L.cola.ops.LinearOperator(dtype, Adense.shape, matmat=mm), cnt


def stream_diag_exact(ctx, S, rng, ncases, cov):
    for _ in range(ncases):
        n = rng.randint(2, 12)
        dyadic = rng.random() < 0.6
        op = gen_diag_op(rng, n, dyadic)
        key = gen_key(rng)
        p = {"k": 0, "rand": "rademacher", "tol": rng.choice([0.0011, 0.03, 0.5]), "max_iters": rng.choice([1, 2, 5, 20])}
        call = {"routine": "hutchinson_diag_estimate", "op": op, "key": key, "params": p}
        D = dense_of(op)
        before = np.random.get_state()
        with np.errstate(all="ignore"):
            m, info = L.hutch.hutchinson_diag_estimate(build(op), k=0, tol=p["tol"], max_iters=p["max_iters"], rand="rademacher", key=key)
        after = np.random.get_state()
        S.evals += 1
        S.cases.add(common.canon(call))
        S.nontrivial.add(common.canon(call))
        cov["diag_exact_cases"] += 1
        true = np.diag(D)
        bad = None
        if not st_eq(before, after):
            bad = {"kind": "global-state-changed", "detail": st_diff(before, after)}
        elif dyadic and not same_values(m, true.astype(m.dtype)):
            bad = {"kind": "rademacher-on-diagonal-not-exact", "detail": f"returned {m.tolist()} true {true.tolist()}"}
        elif not dyadic and not np.allclose(m, true, rtol=1e-12, atol=1e-14):
            bad = {"kind": "rademacher-on-diagonal-not-exact", "detail": f"returned {m.tolist()} true {true.tolist()}"}
        elif dyadic and info["iterations"] - 1 != 1:
            bad = {"kind": "rademacher-on-diagonal-more-than-one-iteration",
                   "detail": f"zero sample variance but {info['iterations'] - 1} iterations"}
        if dyadic:
            cov["diag_exact_bitwise"] += 1
        if bad:
            report(ctx, S, dict(bad, call=call))


def stream_cap(ctx, S, rng, ncases, cov):
    for _ in range(ncases):
        n = rng.randint(2, 12)
        op = gen_op(rng, n, rng.random() < 0.5)
        D = dense_of(op)
        key = gen_key(rng)
        p = p_hutch(rng, n)
        if rng.random() < 0.1:
            p["max_iters"] = 0
        call = {"routine": "hutchinson_diag_estimate(counting operator)", "op": op, "key": key, "params": p}
        A, cnt = counting(D, D.dtype)
        before = np.random.get_state()
        with np.errstate(all="ignore"):
            m, info = L.hutch.hutchinson_diag_estimate(A, k=p["k"], tol=p["tol"], max_iters=p["max_iters"], rand=p["rand"], key=key)
        after = np.random.get_state()
        S.evals += 1
        S.cases.add(common.canon(call))
        S.nontrivial.add(common.canon(call))
        cov["cap_cases"] += 1
        cov["cap_hit"] += int(cnt[0] == p["max_iters"])
        bad = None
        if not st_eq(before, after):
            bad = {"kind": "global-state-changed", "detail": st_diff(before, after)}
        elif info["iterations"] - 1 != cnt[0]:
            bad = {"kind": "iteration-count-mismatch", "detail": f"{cnt[0]} products but info['iterations'] - 1 = {info['iterations'] - 1}"}
        elif cnt[0] > p["max_iters"]:
            if p["max_iters"] == 0 and cnt[0] == 1 and "capPositive" in common.known_clauses(ctx.prop):
                common.known_finding(ctx, "capPositive", common.known_clauses(ctx.prop)["capPositive"]["what"])
                cov["cap_zero_cases"] += 1
            else:
                bad = {"kind": "iterations-exceed-max_iters", "detail": f"{cnt[0]} products with A, max_iters = {p['max_iters']}"}
        if bad:
            report(ctx, S, dict(bad, call=call))
    # tolerances outside the accepted domain are refused
    for tol in (1e-3, 1e-4, 0.0):
        try:
            L.hutch.hutchinson_diag_estimate(build({"kind": "diag", "dtype": "f64", "d": [1.0, 2.0]}), tol=tol, max_iters=2, key=1)
            cov["tol_refused"] = False
        except AssertionError:
            pass
    # keys outside numpy's seed domain are refused without touching the state
    for key in (2**32, -1, 2**40):
        np.random.seed(99)
        np.random.randn(3)
        before = np.random.get_state()
        try:
            L.orig_randn(3, dtype=np.float64, key=key)
            refused = False
        except ValueError:
            refused = True
        if not st_eq(before, np.random.get_state()):
            report(ctx, S, {"kind": "global-state-changed", "detail": f"randn(3, key={key}) raised={refused} and changed the state",
                            "call": {"routine": "np_fns.randn", "key": key}})
        cov["bad_keys_refused"] += int(refused)


# ------------------------------------------------------------------------------------------------
# probe injection ------------------------------------------------------------------------------------
class Inject:
    def __init__(self, blocks):
        self.blocks = blocks
        self.i = 0
        self.keys = []
        self.overrun = 0

    def __call__(self, *shape, dtype=None, device=None, key=None):
        self.keys.append(key)
        if self.i < len(self.blocks):
            b = self.blocks[self.i]
        else:
            self.overrun += 1
            b = np.zeros(shape)
        self.i += 1
        assert tuple(b.shape) == tuple(shape), (b.shape, shape)
        return b.astype(dtype)


def with_injection(blocks, fn):
    inj = Inject(blocks)
    saved = L.np_fns.randn
    L.np_fns.randn = inj
    try:
        with np.errstate(all="ignore"):
            res = fn()
    finally:
        L.np_fns.randn = saved
    return res, inj


def key_chain(key0, t):
    k = L.np_fns.PRNGKey(42) if key0 is None else key0
    out = []
    for _ in range(t):
        k = L.np_fns.next_key(k)
        out.append(k)
    return out


def stream_exhaustive(ctx, S, rng, ncases, cov):
    """all 2^n sign patterns, each n times: the mean is np.diag(A, k) EXACTLY"""
    for _ in range(ncases):
        n = rng.choice([2, 3, 4, 4, 5, 6])
        M = np.array(gen_matrix(rng, n, rng.random() < 0.3, integer=True))
        k = rng.randint(-(n - 1), n - 1)
        pats = [np.array([1.0 if (w >> i) & 1 else -1.0 for i in range(n)]) for w in range(2 ** n)]
        # magnitudes are arbitrary positive numbers: the code must apply sign()
        mags = [rng.uniform(0.1, 3) for _ in range(n)]
        blocks = []
        for b in range(2 ** n):
            cols = [pats[(b * n + c) % (2 ** n)] * mags[c] for c in range(n)]
            blocks.append(np.stack(cols, axis=1))
        call = {"routine": "hutchinson_diag_estimate(injected: all 2^n sign patterns, n times each)", "A": M.tolist(), "k": k,
                "params": {"tol": 0.0011, "max_iters": 2 ** n, "rand": "rademacher"}}
        (m, info), inj = with_injection(blocks, lambda: L.hutch.hutchinson_diag_estimate(
            L.cola.ops.Dense(M), k=k, tol=0.0011, max_iters=2 ** n, rand="rademacher", key=5))
        S.evals += 1
        S.cases.add(common.canon(call))
        cov["exhaustive_cases"] += 1
        if inj.i != 2 ** n or inj.overrun:
            cov["exhaustive_stopped_early"] += int(inj.i < 2 ** n)
            if inj.overrun:
                report(ctx, S, {"kind": "iterations-exceed-max_iters", "call": call, "detail": f"{inj.i} blocks requested, max_iters = {2 ** n}"})
            continue
        S.nontrivial.add(common.canon(call))
        cov["exhaustive_full"] += 1
        true = np.diag(M, k)
        if not same_values(m, true.astype(m.dtype)):
            report(ctx, S, {"kind": "rademacher-expectation-is-not-the-diagonal", "call": call,
                            "detail": f"mean over all sign patterns {m.tolist()} but np.diag(A, {k}) = {true.tolist()}"})


def err_of(sum_, sumsq, i, bs, dtype):
    """`err(state)` of the code, same floating point operations"""
    ds = np.array(sum_, dtype=dtype)
    dq = np.array(sumsq, dtype=dtype)
    with np.errstate(all="ignore"):
        mean = ds / (i * bs)
        stderr = np.sqrt((dq / (i * bs) - mean ** 2) / (i * bs))
        return np.mean(stderr / np.maximum(np.abs(mean), .1 * np.ones_like(mean)))


def stream_lean(ctx, S, rng, ncases, cov):
    import oracle
    cases, reals = [], {}
    for cid in range(ncases):
        n = rng.randint(2, 9)
        bs = n
        M = np.array(gen_matrix(rng, n, rng.random() < 0.3, integer=True))
        if rng.random() < 0.2:
            M = np.diag(np.diag(M))
        k = rng.randint(-(n - 1), n - 1) if rng.random() < 0.85 else 0
        rand = rng.choice(["normal", "rademacher"])
        T = rng.randint(1, 4)
        tol = rng.choice([0.0011, 0.05, 0.3, 1.0])
        blocks = [np.array([[float(rng.choice([-3, -2, -1, 1, 2, 3])) for _ in range(bs)] for _ in range(n)]) for _ in range(T)]
        key = gen_key(rng)
        dtype = np.float32 if rng.random() < 0.2 else np.float64
        cnt_op, cnt = counting(M.astype(dtype), dtype)
        before = np.random.get_state()
        (m, info), inj = with_injection(blocks, lambda: L.hutch.hutchinson_diag_estimate(
            cnt_op, k=k, tol=tol, max_iters=T, rand=rand, key=key))
        after = np.random.get_state()
        call = {"routine": "hutchinson_diag_estimate(injected integer probes)", "A": M.tolist(), "k": k, "key": key,
                "params": {"tol": tol, "max_iters": T, "rand": rand}, "blocks": [b.tolist() for b in blocks],
                "dtype": np.dtype(dtype).name}
        S.evals += 1
        S.cases.add(common.canon({kk: call[kk] for kk in ("A", "k", "params", "blocks", "dtype")}))
        if not st_eq(before, after):
            report(ctx, S, {"kind": "global-state-changed", "call": call, "detail": st_diff(before, after)})
        cases.append({"id": f"h{cid}", "kind": "hutch", "n": n, "bs": bs, "k": k, "rand": rand,
                      "A": [[int(x) for x in r] for r in M.tolist()],
                      "probes": [[[int(x) for x in r] for r in (np.sign(b) if rand == "rademacher" else b).tolist()] for b in blocks]})
        reals[f"h{cid}"] = {"mean": m, "iters": inj.i, "overrun": inj.overrun, "keys": inj.keys, "call": call, "tol": tol,
                            "T": T, "dtype": dtype, "products": cnt[0], "key": key}
    ans = oracle.run_driver(cases, driver=DRIVER, nproc=4 if len(cases) < 500 else None)
    loops = []
    for c in cases:
        a = ans.get(c["id"])
        r = reals[c["id"]]
        if a is None or "error" in a:
            raise RuntimeError(f"driver gave no answer for {c['id']}: {a}")
        n, bs, k = c["n"], c["bs"], c["k"]
        it = r["iters"]
        cov["lean_cases"] += 1
        nontriv = (k != 0) or it > 1
        bad = None
        if r["overrun"] or it > max(1, r["T"]):
            bad = {"kind": "iterations-exceed-max_iters", "detail": f"{it} blocks requested, max_iters = {r['T']}"}
        elif r["products"] != it:
            bad = {"kind": "iteration-count-mismatch", "detail": f"{r['products']} products, {it} blocks drawn"}
        elif a["rows"] != n - abs(k) or r["mean"].shape != (a["rows"],):
            bad = {"kind": "shape", "detail": f"model rows {a['rows']}, real {r['mean'].shape}"}
        else:
            blk = a["blocks"][it - 1]
            model_mean = np.array(blk["sum"], dtype=r["dtype"]) / (it * bs)
            if not same_values(model_mean.astype(r["mean"].dtype), r["mean"]):
                # real != code model: is the REAL code wrong w.r.t. the spec?  (expectation cannot be judged on one
                # probe; report the disagreement with the index arithmetic as the failing input)
                bad = {"kind": "loop-body-disagrees-with-model", "detail": f"real mean {r['mean'].tolist()} model diag_sum/(i*bs) {model_mean.tolist()}"}
            elif r["keys"] != key_chain(r["key"], it):
                bad = {"kind": "key-chain", "detail": f"keys passed to randn {r['keys']} expected sha256 chain {key_chain(r['key'], it)}"}
        if bad:
            report(ctx, S, dict(bad, call=r["call"]))
            continue
        if nontriv:
            S.nontrivial.add(common.canon({kk: r["call"][kk] for kk in ("A", "k", "params", "blocks", "dtype")}))
        cov["lean_offdiag"] += int(k != 0)
        # loop model: decisions err > tol recomputed from the model's exact sums
        stops, determined = [], True
        for i in range(1, it + 1):
            e = err_of(a["blocks"][i - 1]["sum"], a["blocks"][i - 1]["sumsq"], i, bs, r["dtype"])
            if np.isnan(e):
                stops.append(False)
            else:
                if abs(float(e) - r["tol"]) <= 1e-6 * r["tol"]:
                    determined = False
                stops.append(bool(e > r["tol"]))
        if determined:
            loops.append({"id": "l" + c["id"], "kind": "loop", "max_iters": r["T"], "stops": stops, "real_iters": it, "call": r["call"]})
    # extra loop cases incl. max_iters = 0
    ans2 = oracle.run_driver([{kk: v for kk, v in l.items() if kk not in ("call", "real_iters")} for l in loops], driver=DRIVER, nproc=1 if len(loops) < 500 else 4)
    for l in loops:
        a = ans2.get(l["id"])
        cov["loop_cases"] += 1
        if a is None or "error" in a:
            raise RuntimeError(f"driver gave no answer for {l['id']}: {a}")
        if a["iters"] != l["real_iters"] or not a["world_unchanged"]:
            report(ctx, S, {"kind": "loop-disagrees-with-model", "call": l["call"],
                            "detail": f"real iterations {l['real_iters']}, model {a['iters']} with decisions {l['stops']}"})


# ------------------------------------------------------------------------------------------------
# (v) z-test, FIXED seed set -------------------------------------------------------------------------
ZSEED = 20240917
ZSIGMA = 6.0


def stream_ztest(ctx, S, cov, ncases):
    rng = random.Random(ZSEED)          # NOT ctx.seed: deterministic outcome on an unchanged tree
    zmax, comps = 0.0, 0
    for ci in range(ncases):
        n = rng.randint(3, 10)
        sym = rng.random() < 0.5
        op = gen_op(rng, n, sym, "f64", ("dense", "dense", "kron", "sum"))
        D = dense_of(op).astype(np.float64)
        k = rng.randint(-(n - 1), n - 1) if rng.random() < 0.7 else 0
        rand = rng.choice(["normal", "rademacher"])
        N = max(2, 2400 // n)
        key = rng.randrange(0, 2**32)
        call = {"routine": "hutchinson_diag_estimate", "op": op, "key": key, "params": {"k": k, "rand": rand, "tol": 0.0011, "max_iters": N}}
        A, cnt = counting(D, D.dtype)
        with np.errstate(all="ignore"):
            m, info = L.hutch.hutchinson_diag_estimate(A, k=k, tol=0.0011, max_iters=N, rand=rand, key=key)
        it = cnt[0]
        S.evals += 1
        S.cases.add(common.canon(call))
        S.nontrivial.add(common.canon(call))
        true = np.diag(D, k)
        zs = []
        for t in range(n - abs(k)):
            r_, s_ = t + max(0, -k), t + max(0, k)
            row = D[r_]
            var = float(np.sum(row ** 2) - row[s_] ** 2)
            if rand == "normal":
                var += 2 * float(row[s_] ** 2)
            se = np.sqrt(var / (it * n))
            if se == 0:      # exact estimator (diagonal structure): only rounding may differ
                if not np.isclose(m[t], true[t], rtol=1e-12, atol=1e-14):
                    zs.append(np.inf)
                continue
            zs.append(abs(m[t] - true[t]) / se)
        comps += len(zs)
        if zs:
            zmax = max(zmax, max(zs))
        if zs and max(zs) > ZSIGMA:
            report(ctx, S, {"kind": "estimate-outside-6-sigma", "call": call, "iterations": it,
                            "detail": f"max |z| = {max(zs):.2f} over {len(zs)} components; estimate {m.tolist()} true {true.tolist()}"})
    cov["ztest_cases"] = ncases
    cov["ztest_components"] = comps
    cov["ztest_max_abs_z"] = round(float(zmax), 3)
    cov["ztest_sigma"] = ZSIGMA
    cov["ztest_seed_set"] = f"random.Random({ZSEED}) (operators, offsets, probe kinds, keys); independent of VERIF_SEED"


# ------------------------------------------------------------------------------------------------
def replay(ctx):
    load_cola()
    payload = json.load(open(ctx.replay))
    S = Stats()
    if "script" in payload:
        findings, _ = check_script(payload["script"])
        for f in findings:
            report(ctx, S, dict(f, script=payload["script"]))
        print(f"replayed script: {len(findings)} finding(s)")
    elif "call" in payload and "op" in payload["call"] and payload["call"].get("routine") in ROUTINES:
        call = payload["call"]
        script = {"calls": [call], "steps": [{"user": "seed", "arg": 1}, {"user": "randn", "arg": 3}, {"call": 0, "rep": 0},
                                            {"user": "randn", "arg": 2}, {"call": 0, "rep": 1}, {"user": "randn", "arg": 2}]}
        findings, _ = check_script(script)
        for f in findings:
            report(ctx, S, dict(f, script=script))
        print(f"replayed call: {len(findings)} finding(s)")
    else:
        print("replay file has no script; rerun the stream with VERIF_SEED =", payload.get("seed"))


def run(ctx):
    if ctx.replay:
        return replay(ctx)
    quick = not ctx.thorough
    # 1. regenerate the table from the imported cola package
    import scan_rng_sites
    scan_rng_sites.selftest()
    model = scan_rng_sites.scan()
    changed = scan_rng_sites.write(model)
    lib = [r for r in model["routines"] if r["scope"] == "library"]
    table_sites = {s["loc"] for r in model["routines"] for s in r["sites"]}
    static_bad = [(r["name"], s["loc"], s["what"]) for r in lib for s in r["sites"]
                  if s["prim"] == "globalDraw" or s["keySrc"] == "opaque"]
    static_bad += [("np_fns.randn", "cola/backends/np_fns.py", f"body {model['randnBody']}")] \
        if model["randnBody"] != ["fallbackConst", "saveState", "seedKey", "draw", "restoreState", "return"] else []

    # 2. the Lean gate in the background
    gate_box = {}

    def gate_thread():
        try:
            gate_box["gate"] = common.lean_gate(ctx, MODULE)
        except common.LeanGateError as ex:
            gate_box["error"] = str(ex)
        except Exception as ex:   # machinery
            gate_box["crash"] = traceback.format_exc() + str(ex)

    th = threading.Thread(target=gate_thread)
    th.start()

    # 3. streams
    load_cola()
    trace = Trace()
    L.trace = trace
    trace.install()
    S = Stats()
    rng = random.Random(ctx.seed)
    cov = {k: 0 for k in ("diag_exact_cases", "diag_exact_bitwise", "cap_cases", "cap_hit", "cap_zero_cases", "bad_keys_refused",
                          "exhaustive_cases", "exhaustive_full", "exhaustive_stopped_early", "lean_cases", "lean_offdiag", "loop_cases")}
    cov["tol_refused"] = True
    t0 = time.time()
    try:
        stream_scripts(ctx, S, rng, 150 if quick else 4000, trace)
        t1 = time.time()
        stream_diag_exact(ctx, S, rng, 150 if quick else 5000, cov)
        stream_cap(ctx, S, rng, 200 if quick else 8000, cov)
        stream_exhaustive(ctx, S, rng, 30 if quick else 600, cov)
        t2 = time.time()
        stream_lean(ctx, S, rng, 120 if quick else 5000, cov)
        t3 = time.time()
        stream_ztest(ctx, S, cov, 64 if quick else 200)
        t4 = time.time()
    finally:
        trace.uninstall()

    # (T) dynamic sites are table sites
    unknown = sorted(set(trace.sites) - table_sites)
    for loc in unknown:
        report(ctx, S, {"kind": "draw-site-missing-from-table", "detail": f"np_fns.randn was called from {loc}, which the AST scan did not list",
                        "no_replay": True})

    th.join()
    if "crash" in gate_box:
        raise RuntimeError(gate_box["crash"])
    gate = gate_box.get("gate")
    if gate is None:
        # the proofs no longer check (typically: the regenerated table changed).  The streams above were the search
        # for a failing input; if they found none, say so.
        print("LEAN GATE FAILED:\n" + gate_box.get("error", "")[-1500:], flush=True)
        if not ctx.violations:
            for f in S.key_insensitive[:MAX_VIOLATION_LINES]:
                report(ctx, S, f)
        if not ctx.violations:
            common.violation(ctx, {"broken": "Lean gate", "error": gate_box.get("error", "")[-3000:], "static_findings": static_bad,
                                   "table_changed": changed}, no_input=True)
    elif gate.get("bad_axioms"):
        common.violation(ctx, {"broken": "axioms", "bad": gate["bad_axioms"]}, no_input=True)

    unkeyed = [{"routine": r["name"], "sites": [s["loc"] for s in r["sites"] if s["prim"] == "unkeyedNormalFallbackKey0"]}
               for r in lib if any(s["prim"] == "unkeyedNormalFallbackKey0" for s in r["sites"])]
    coverage = {
        "evaluations": S.evals,
        "distinct_cases": len(S.cases),
        "distinct_nontrivial": len(S.nontrivial),
        "rule": "a case is non-trivial when the call executed at least one random-draw site (counted by a transparent wrapper "
                "around np_fns.randn; lobpcg: its local-generator site is unconditional) while the global state had been perturbed by "
                "user draws; Lean-correspondence cases additionally need k != 0 or more than one iteration; exhaustive cases "
                "must have consumed all 2^n blocks",
        "samples": S.samples,
        "routines_covered": S.by_routine,
        "routines_in_table_not_executable_here": ["cola.linalg.tbd.nullspace.krylov_constraint_solve_upto_r (AttributeError: C.ops)",
                                                  "cola.linalg.tbd.svrg.* (need jax)", "cola.linalg.tbd.slq.slq_bwd (needs autograd backend)"],
        "exceptions_seen": S.exc,
        "operator_kinds": S.op_kinds,
        "interleavings_tried": S.interleavings,
        "key_sensitivity_checked": S.key_checked,
        "key_insensitive_calls": [{"routine": f["call"]["routine"], "op": op_skel(f["call"]["op"]), "params": f["call"]["params"]} for f in S.key_insensitive][:10],
        "user_ops_interleaved": S.user_ops,
        "sites_table_size": sum(len(r["sites"]) for r in model["routines"]),
        "sites_table_library": sum(len(r["sites"]) for r in lib),
        "library_routines_with_draws": [r["name"] for r in lib],
        "unkeyed_fallback_routines": unkeyed,
        "dynamic_sites_observed": trace.sites,
        "dynamic_sites_unkeyed": trace.unkeyed,
        "dynamic_sites_not_in_table": unknown,
        "randn_body": model["randnBody"],
        "table_changed_this_run": changed,
        "static_findings": static_bad,
        "streams": cov,
        "suppressed_violation_lines": S.suppressed,
        "timing_s": {"scripts": round(t1 - t0, 1), "diag+cap+exhaustive": round(t2 - t1, 1), "lean": round(t3 - t2, 1), "ztest": round(t4 - t3, 1)},
        "provisional_known": list(PROVISIONAL_KNOWN),
        "trusted_base_extra": [
            "numpy.random legacy global generator: get_state/set_state round-trip the full state, seed(key) determines it (modelled abstractly as Gen.seed / Gen.draw)",
            "harness/translators/scan_rng_sites.py (AST scan; cross-checked dynamically: every observed caller of np_fns.randn is a table site)",
        ],
    }
    assumptions = [
        "IEEE rounding is outside the theorems; Rademacher-on-diagonal is bit-exact only for dyadic data (sums of equal doubles round), 1e-12 otherwise",
        "unbiasedness is proved for the per-probe estimator and for a FIXED number of iterations; the data-dependent stopping rule (optional stopping) "
        "is covered by the 6-sigma z-test only",
        "Gaussian probes: second moments E[z_j z_l] = delta_jl are a hypothesis (GaussianSecondMoments); Rademacher: proved for the uniform measure on {+-1}^n; "
        "sign(randn) = 0 has probability 0 and is ignored",
        "capPositive: max_iters >= 1 (max_iters = 0 makes one iteration; PROVISIONAL known finding)",
        "keys are integers in [0, 2^32 - 1] (numpy's seed domain); other keys raise ValueError before the state is touched (checked)",
        "exceptions raised INSIDE np_fns.randn after np.random.seed(key) (e.g. negative shapes) would leave the state seeded; not reachable through the routines with valid operators",
    ]
    common.write_evidence(ctx, gate, coverage, assumptions)
    print(f"C17 {ctx.tier} seed={ctx.seed}: {S.evals} evaluations, {len(S.nontrivial)} distinct non-trivial, {S.interleavings} interleavings, "
          f"{len(trace.sites)} dynamic sites (all in table: {not unknown}), z max {cov.get('ztest_max_abs_z')}, "
          f"gate {'ok ' + str(gate['discharged']) + '/' + str(gate['obligations']) if gate else 'FAILED'}, "
          f"violations {len(ctx.violations)}, wall {ctx.wall():.1f}s", flush=True)
