"""C17 — randomised routines are deterministic in their key, neither read nor advance the process-wide
NumPy random state, and the Hutchinson estimator is unbiased and stops no later than max_iters.

Parties
  proof   lean/ColaVerif/Properties/C17.lean over Model/Rng.lean (random plumbing as programs over
          keyedNormal / unkeyedNormalFallbackKey0 / globalDraw / localGenerator) and Model/Hutch.lean
          (one evaluation of the Hutchinson loop body), tied to /repo by the GENERATED table
          Gen/RngSites.lean (harness/translators/scan_rng_sites.py, regenerated here on every run)
  real    cola in this process (NumPy backend + harness shim)
  model   lean/DriverC17.lean: `Hutch.est` (roll / mask / slice index arithmetic) on exact integer data
          against the real loop body with probes injected by replacing `np_fns.randn` IN THIS PROCESS,
          and `Rng.hutchProg` (loop condition, key chain) against the real iteration counts

Streams (all randomness from random.Random(ctx.seed))
  (i)+(ii) scripts: user draws from numpy.random (randn / rand / normal / randint / seed / set_state) interleaved
          with cola calls; every cola call occurs twice (same operator, key, parameters; once on the same
          operator object and once on a rebuilt one) at different points of the script.  Checked:
          np.random.get_state() before == after EVERY call (also when the call raises); the two calls return
          bit-identical bytes (every array, to_dense() of returned operators, info dicts); the script re-run
          WITHOUT the cola calls yields bit-identical user draws.  Exceptions are observations: every outcome is compared with
          expected_exception(call), an exact predicate on the input / environment (class, message, before / after the draw).
  (iii)   Rademacher probes on diagonal operators (Diagonal, Dense holding a diagonal, Kronecker / sums of
          diagonals, ScalarMul): bit-exact main diagonal for dyadic data (and exactly one iteration), 1e-12
          relative for arbitrary doubles; plus the EXHAUSTIVE expectation: all 2^n sign patterns injected,
          integer operator, any offset k: the returned mean equals np.diag(A, k) exactly.
  (iv)    iterations <= max_iters, counted with an operator that counts its products, cross-checked with
          info['iterations'] - 1 (the info field counts evaluations of the loop condition).
  (v)     sequential test of unbiasedness: the deviation of the accumulated sum from iterations*bs*np.diag(A, k) against the
          thresholds sigma*sqrt(2*Ncap*x) + c*x built from the estimator's PROVED variance.  PROVED for the thresholds (Lean, fixed
          number of columns): the Hoeffding level 2*exp(-x) for Rademacher probes (C17_tail_hoeffding_threshold) and the Chebyshev
          level N*V/thr^2 for every probe law (C17_tail_chebyshev_sum / _mean), computed and recorded per component.  CONTRACT (not
          a Lean theorem): the sub-gamma level 2*exp(-x) for normal probes and the maximal form of the bounds for the
          data-dependent stopping rule (Ville), on which the stated false alarm <= 1e-9 per run rests.  A component beyond
          the first threshold is re-tested K times with fresh keys and 4x the samples and is a VIOLATION only if it fails all K.
          Operators AND keys come from ctx.seed.  See the comment above stream_ztest.
  (L)     Lean correspondence: integer operators and injected integer probe blocks; real mean must equal the
          model's diag_sum / (iters * bs) bit for bit; the model loop fed with the observed `err > tol`
          decisions must make the same number of iterations (incl. two fixed cases with max_iters = 0, where the
          model - C17_cap_clause_needed - and the real loop make exactly one), and the keys the real loop passes
          to randn must be the sha256 chain next_key^t(key0).
  (T)     site trace: a transparent counting wrapper around np_fns.randn (and around np.random.default_rng for callers
          inside cola) records the source line of every caller during all streams; every observed line must be a site of
          the generated table, and the evidence lists per table entry (routine, site, file:line) whether it was executed.
          Round 2: ALL 17 library sites are executed (cola/linalg/tbd routines through the local shims `LocalShims`,
          `DenseWithOps`, `vjp_affine` below - ours, not cola's, named in the evidence).
"""
import hashlib
import importlib
import importlib.util
import json
import logging
import os
import random
import re
import sys
import threading
import time
import traceback
import warnings

import numpy as np

import common

MODULE = "ColaVerif.Properties.C17"
DRIVER = "DriverC17.lean"
MAX_VIOLATION_LINES = 5

# Recorded deviations (clause capPositive) are read from /verif/known_findings.json through common.known_clauses("C17") only;
# there is no provisional list in this module.

sys.path.insert(0, os.path.join(common.ROOT, "harness", "translators"))


# ------------------------------------------------------------------------------------------------
# cola, lazily (so that --help etc. stay fast) -----------------------------------------------------
class Lib:
    pass


L = Lib()


def load_cola():
    if getattr(L, "ready", False):
        return
    logging.disable(logging.WARNING)     # "Non keyed randn used" etc.
    warnings.simplefilter("ignore")
    import shim  # noqa: F401
    import cola
    from cola.backends import np_fns
    L.cola = cola
    L.np_fns = np_fns
    L.hutch = sys.modules["cola.linalg.trace.diagonal_estimation"]
    L.slq = importlib.import_module("cola.linalg.tbd.slq")
    L.rsvd = importlib.import_module("cola.linalg.tbd.randomized_svd")
    L.pre = importlib.import_module("cola.linalg.preconditioning.preconditioners")
    L.lobpcg = importlib.import_module("cola.linalg.eig.lobpcg")
    L.power = sys.modules.get("cola.linalg.eig.power_iteration") or importlib.import_module("cola.linalg.eig.power_iteration")
    L.lanczos = sys.modules["cola.linalg.decompositions.lanczos"]
    L.arnoldi = sys.modules["cola.linalg.decompositions.arnoldi"]
    L.nullspace = importlib.import_module("cola.linalg.tbd.nullspace")
    L.svrg = importlib.import_module("cola.linalg.tbd.svrg")
    L.orig_randn = np_fns.randn
    L.orig_default_rng = np.random.default_rng
    L.jax_missing = "jax" not in sys.modules and importlib.util.find_spec("jax") is None

    class DenseWithOps(cola.ops.Dense):
        """LOCAL SHIM (not cola's): `krylov_constraint_solve_upto_r` reads the backend from `C.ops`, an attribute no
        cola operator has (AttributeError on every real operator); this subclass supplies it so that the routine -
        and its random-draw site - can be executed at all."""
        ops = np_fns

    L.DenseWithOps = DenseWithOps
    L.ready = True


def vjp_affine(fun, primals, duals, create_graph=True):
    """LOCAL SHIM (not cola's) for `xnp.vjp_derivs`, which the NumPy backend does not implement: vector-Jacobian
    product of a function that is AFFINE in every single parameter entry (true for `theta -> unflatten(theta) @ probes`
    of Dense / Diagonal / Sum / Kronecker operators), evaluated entry by entry: exact up to rounding, deterministic."""
    primals = [np.asarray(x_) for x_ in primals]
    base = np.asarray(fun(*primals))
    out = []
    for idx, prm in enumerate(primals):
        g = np.zeros_like(prm)
        for e in range(prm.size):
            q = [np.array(x_, copy=True) for x_ in primals]
            q[idx].flat[e] += 1
            g.flat[e] = np.sum(np.asarray(duals) * (np.asarray(fun(*q)) - base))
        out.append(g)
    return tuple(out)


class LocalShims:
    """installs, for the duration of ONE call, what a routine of cola/linalg/tbd needs to reach its draw site on the
    NumPy backend; everything is removed afterwards (also on exceptions)"""
    def __init__(self, eigmax=False, vjp=False, jax_standin=False):
        self.eigmax, self.vjp, self.jax = eigmax, vjp, jax_standin

    def __enter__(self):
        if self.eigmax:      # nullspace.py: `eigmax = None  # TODO: fix`
            self.saved_eigmax = L.nullspace.eigmax
            L.nullspace.eigmax = lambda A, tol=None: L.cola.linalg.eigmax(A)
        if self.vjp:
            self.saved_vjp = L.np_fns.vjp_derivs
            L.np_fns.vjp_derivs = vjp_affine
        if self.jax and "jax" not in sys.modules:
            import types
            # an inert stand-in so that the statement `import jax`, which PRECEDES the draw in solve_svrg_rff,
            # succeeds; it offers nothing but the class-registration hook cola's metaclass calls
            m = types.ModuleType("jax")
            m.tree_util = types.SimpleNamespace(register_pytree_node_class=lambda cls: cls)
            m.__c17_standin__ = True
            sys.modules["jax"] = m
            self.jax_installed = True
        return self

    def __exit__(self, *a):
        if self.eigmax:
            L.nullspace.eigmax = self.saved_eigmax
        if self.vjp:
            L.np_fns.vjp_derivs = self.saved_vjp
        if getattr(self, "jax_installed", False):
            sys.modules.pop("jax", None)
        return False


# ------------------------------------------------------------------------------------------------
# site trace: transparent wrapper around np_fns.randn ------------------------------------------------
class Trace:
    def __init__(self):
        self.sites = {}       # "cola/...py:line" -> count
        self.unkeyed = {}     # same, calls with key None
        self.local_sites = {}  # callers (inside cola) of np.random.default_rng
        self.draws = 0
        self.calllog = None   # while a cola call of the script stream runs: [(site, key, sha1 of the drawn bytes)]

    def install(self):
        orig = L.orig_randn
        base = os.path.dirname(os.path.dirname(os.path.abspath(L.cola.__file__)))
        trace = self

        def randn(*shape, dtype=None, device=None, key=None):
            f = sys._getframe(1)
            rel = os.path.relpath(f.f_code.co_filename, base).replace(os.sep, "/")
            loc = f"{rel}:{f.f_lineno}"
            trace.sites[loc] = trace.sites.get(loc, 0) + 1
            if key is None:
                trace.unkeyed[loc] = trace.unkeyed.get(loc, 0) + 1
            trace.draws += 1
            z = orig(*shape, dtype=dtype, device=device, key=key)
            if trace.calllog is not None:
                trace.calllog.append((loc, repr(key), hashlib.sha1(np.ascontiguousarray(z).tobytes()).hexdigest()))
            return z

        randn.__c17_wrapper__ = True
        L.np_fns.randn = randn
        orig_rng = L.orig_default_rng

        def default_rng(*a, **kw):
            f = sys._getframe(1)
            fn = os.path.abspath(f.f_code.co_filename)
            if fn.startswith(os.path.join(base, "cola") + os.sep):
                loc = f"{os.path.relpath(fn, base).replace(os.sep, '/')}:{f.f_lineno}"
                trace.local_sites[loc] = trace.local_sites.get(loc, 0) + 1
                trace.draws += 1
                if trace.calllog is not None:
                    trace.calllog.append((loc, repr((a, sorted(kw.items()))), "local-generator"))
            return orig_rng(*a, **kw)

        np.random.default_rng = default_rng

    def uninstall(self):
        L.np_fns.randn = L.orig_randn
        np.random.default_rng = L.orig_default_rng


# ------------------------------------------------------------------------------------------------
# operators ----------------------------------------------------------------------------------------
DT = {"f64": np.float64, "f32": np.float32}


def gen_matrix(rng, n, sym, integer=False):
    if integer:
        M = [[rng.randint(-4, 4) for _ in range(n)] for _ in range(n)]
        if sym:
            M = [[M[min(i, j)][max(i, j)] for j in range(n)] for i in range(n)]
            for i in range(n):
                M[i][i] = abs(M[i][i]) + 4 * n
        return [[float(x) for x in r] for r in M]
    G = np.array([[rng.gauss(0, 1) for _ in range(n)] for _ in range(n)])
    if sym:
        S = G @ G.T / n + np.diag([1.0 + rng.random() for _ in range(n)])
        S = (S + S.T) / 2
        return S.tolist()
    return G.tolist()


def gen_op(rng, n, sym, dtype="f64", kinds=("dense", "diag", "kron", "sum")):
    kind = rng.choice(kinds)
    if kind == "kron":
        fac = [(a, n // a) for a in range(2, n) if n % a == 0]
        if not fac:
            kind = "dense"
        else:
            a, b = rng.choice(fac)
            return {"kind": "kron", "dtype": dtype, "Ms": [gen_op(rng, a, sym, dtype, ("dense", "diag")),
                                                           gen_op(rng, b, sym, dtype, ("dense", "diag"))]}
    if kind == "sum":
        return {"kind": "sum", "dtype": dtype, "Ms": [gen_op(rng, n, sym, dtype, ("dense",)),
                                                      gen_op(rng, n, sym, dtype, ("diag", "dense"))]}
    if kind == "diag":
        return {"kind": "diag", "dtype": dtype, "d": [0.5 + 2 * rng.random() for _ in range(n)]}
    return {"kind": "dense", "dtype": dtype, "sym": sym, "M": gen_matrix(rng, n, sym)}


def build(case):
    ops = L.cola.ops
    dt = DT[case["dtype"]]
    k = case["kind"]
    if k == "dense":
        return ops.Dense(np.array(case["M"], dtype=dt))
    if k == "diag":
        return ops.Diagonal(np.array(case["d"], dtype=dt))
    if k == "kron":
        return ops.Kronecker(*[build(m) for m in case["Ms"]])
    if k == "sum":
        return ops.Sum(*[build(m) for m in case["Ms"]])
    if k == "scalar":
        return ops.ScalarMul(dt(case["c"]), (case["n"], case["n"]), dtype=dt)
    raise ValueError(k)


def dense_of(case):
    k = case["kind"]
    dt = DT[case["dtype"]]
    if k == "dense":
        return np.array(case["M"], dtype=dt)
    if k == "diag":
        return np.diag(np.array(case["d"], dtype=dt))
    if k == "kron":
        out = np.ones((1, 1), dtype=dt)
        for m in case["Ms"]:
            out = np.kron(out, dense_of(m))
        return out
    if k == "sum":
        return sum(dense_of(m) for m in case["Ms"])
    if k == "scalar":
        return dt(case["c"]) * np.eye(case["n"], dtype=dt)
    raise ValueError(k)


def op_size(case):
    k = case["kind"]
    if k == "dense":
        return len(case["M"])
    if k == "diag":
        return len(case["d"])
    if k == "kron":
        return int(np.prod([op_size(m) for m in case["Ms"]]))
    if k == "sum":
        return op_size(case["Ms"][0])
    return case["n"]


def op_skel(case):
    k = case["kind"]
    if k in ("kron", "sum"):
        return k + "(" + ",".join(op_skel(m) for m in case["Ms"]) + ")"
    return f"{k}{op_size(case)}"


# ------------------------------------------------------------------------------------------------
# flattening results into bytes --------------------------------------------------------------------
def flat(x, out):
    LO = L.cola.ops.LinearOperator
    if isinstance(x, LO):
        out.append(("op", type(x).__name__.split("[")[0], tuple(x.shape)))
        flat(np.asarray(x.to_dense()), out)
    elif isinstance(x, np.ndarray):
        out.append(("arr", str(x.dtype), x.shape, np.ascontiguousarray(x).tobytes()))
    elif isinstance(x, (np.generic,)):
        out.append(("scalar", str(x.dtype), x.tobytes()))
    elif isinstance(x, (float, int, bool, complex, str, type(None))):
        out.append(("py", repr(x)))
    elif isinstance(x, dict):
        for kk in sorted(x):
            if kk in ("iteration_time", "pbar"):
                continue
            out.append(("key", kk))
            flat(x[kk], out)
    elif isinstance(x, (tuple, list)):
        out.append(("seq", len(x)))
        for y in x:
            flat(y, out)
    else:
        out.append(("obj", type(x).__name__))
    return out


def digest(x):
    items = flat(x, [])
    h = hashlib.sha256()
    for it in items:
        for part in it:
            h.update(part if isinstance(part, bytes) else repr(part).encode())
            h.update(b"|")
    return h.hexdigest()


# ------------------------------------------------------------------------------------------------
# routines -------------------------------------------------------------------------------------------
FUNS = {"log": np.log, "sqrt": np.sqrt, "exp01": lambda x: np.exp(0.1 * x)}


def gen_key(rng):
    r = rng.random()
    if r < 0.2:
        return None
    if r < 0.6:
        return rng.choice([0, 1, 2, 7, 42, 1234, 2**32 - 1])
    return rng.randrange(0, 2**32)


def r_hutch(A, key, p):
    m, info = L.hutch.hutchinson_diag_estimate(A, k=p["k"], tol=p["tol"], max_iters=p["max_iters"], rand=p["rand"], key=key)
    return [m, info]


def r_hutch_diag(A, key, p):
    alg = L.cola.linalg.Hutch(tol=p["tol"], max_iters=p["max_iters"], rand=p["rand"], key=key)
    return [L.cola.linalg.diag(A, p["k"], alg)]


def r_hutch_trace(A, key, p):
    alg = L.cola.linalg.Hutch(tol=p["tol"], max_iters=p["max_iters"], rand=p["rand"], key=key)
    return [L.cola.linalg.trace(A, alg)]


def r_slq(A, key, p):
    return [L.slq.stochastic_lanczos_quad(A, FUNS[p["fun"]], max_iters=p["max_iters"], tol=1e-6, vtol=p["vtol"], key=key)]


def r_logdet(A, key, p):
    c = L.cola
    return [c.linalg.logdet(c.PSD(A), c.linalg.Lanczos(key=key, max_iters=p["max_iters"]),
                            c.linalg.Hutch(key=key, max_iters=p["hutch_iters"], tol=0.05))]


def r_lanczos(A, key, p):
    Q, T, info = L.lanczos.lanczos(A, max_iters=p["max_iters"], tol=p["tol"], key=key)
    return [Q, T, info]


def r_arnoldi(A, key, p):
    Q, H, info = L.arnoldi.arnoldi(A, max_iters=p["max_iters"], tol=p["tol"], key=key)
    return [Q, H, info]


def r_eig_lanczos(A, key, p):
    c = L.cola
    e, V = c.linalg.eig(c.SelfAdjoint(A), p["k"], alg=c.linalg.Lanczos(key=key, max_iters=p["max_iters"]))
    return [e, V]


def r_eig_arnoldi(A, key, p):
    c = L.cola
    e, V = c.linalg.eig(A, p["k"], alg=c.linalg.Arnoldi(key=key, max_iters=p["max_iters"]))
    return [e, V]


def r_power(A, key, p):
    v, e, info = L.power.power_iteration(A, tol=p["tol"], max_iter=p["max_iter"], key=key)
    return [v, e, info]


def r_eig_power(A, key, p):
    c = L.cola
    e, V = c.linalg.eig(A, 1, "LM", L.power.PowerIteration(tol=p["tol"], max_iter=p["max_iter"], key=key))
    return [e, V]


def r_nystrom(A, key, p):
    P = L.pre.NystromPrecond(A, rank=p["rank"], key=key)
    return [P.U, P.Lambda, P]


def r_adanys(A, key, p):     # un-keyed
    P = L.pre.AdaNysPrecond(A, rank=p["rank"], bounds=(0.1, 0.5, 1.0))
    return [P.U, P.error, P.rank]


def r_selrank(A, key, p):    # un-keyed
    Lam, U, rank = L.pre.select_rank_adaptively(A, p["rank"], p["rank_max"], p["tol"])
    return [Lam, U, rank]


def r_rsvd(A, key, p):       # un-keyed
    return list(L.rsvd.randomized_svd(A, p["rank"]))


def r_lobpcg(A, key, p):     # local generator
    e, V = L.lobpcg.lobpcg(A, max_iters=p["max_iters"])
    return [e, V]


def r_nullspace(A, key, p):   # un-keyed; needs the local shims DenseWithOps (C.ops) and eigmax
    C = L.DenseWithOps(np.asarray(A.to_dense())[:p["rows"], :])
    with LocalShims(eigmax=True):
        Q, inf = L.nullspace.krylov_constraint_solve_upto_r(C, p["r"], tol=p["tol"], max_iter=p["max_iter"], info=True)
    return [Q]


def _gram_product(A):
    """Product[Dense, Dense] B @ B^T, the argument type of the svrg routines"""
    B = np.asarray(A.to_dense())
    return L.cola.ops.Dense(B) @ L.cola.ops.Dense(np.ascontiguousarray(B.T))


def r_svrg_eigh_max(A, key, p):   # un-keyed; draws, then `import jax` fails on this image (ModuleNotFoundError)
    return list(L.svrg.svrg_eigh_max(_gram_product(A), k=p["k"], bs=1, max_iters=2))


def r_svrg_solveh(A, key, p):     # un-keyed; the same
    n = A.shape[0]
    b = np.arange(1.0, n * p["k"] + 1).reshape(n, p["k"]).astype(A.dtype)
    return list(L.svrg.svrg_solveh(_gram_product(A), b, bs=1, max_iters=2))


def r_svrg_rff(A, key, p):        # un-keyed; `import jax` PRECEDES the draw: inert stand-in module, see LocalShims
    n = A.shape[0]
    P = _gram_product(A)
    M = P + L.cola.ops.Diagonal(np.ones(n, dtype=A.dtype))
    b = np.arange(1.0, n * p["k"] + 1).reshape(n, p["k"]).astype(A.dtype)
    with LocalShims(jax_standin=True):
        return list(L.svrg.solve_svrg_rff(M, b, bs=1, max_iters=2))


def r_slq_bwd(A, key, p):
    """the backward rule of stochastic_lanczos_quad, called the way cola/utils/custom_autodiff.py calls it (there is no
    autograd on the NumPy backend, so it is never reached through a gradient here); `xnp.vjp_derivs` is the local shim"""
    fun = FUNS[p["fun"]]
    par, unflatten = A.flatten()
    kw = dict(num_samples=p["num_samples"], max_iters=p["max_iters"], tol=1e-6, pbar=False, key=key)
    out = L.slq.slq_fwd(A, fun, **kw)
    with LocalShims(vjp=True):
        dA, *_ = L.slq.slq_bwd((par, out), np.ones_like(out), unflatten, fun, **kw)
    return [out, dA]


def p_hutch(rng, n):
    return {"k": rng.randint(-(n - 1), n - 1) if rng.random() < 0.75 else 0,
            "rand": rng.choice(["normal", "rademacher"]),
            "tol": rng.choice([0.0011, 0.003, 0.03, 0.1, 0.5, 2.0]),
            "max_iters": rng.choice([1, 1, 2, 3, 5, 10, 25]) if rng.random() < 0.95 else 0}


ROUTINES = {
    # name: (fn, keyed, needs symmetric PD, param generator, nmin, table routine it exercises)
    "hutchinson_diag_estimate": (r_hutch, True, False, p_hutch, 2),
    "diag(Hutch)": (r_hutch_diag, True, False, p_hutch, 2),
    "trace(Hutch)": (r_hutch_trace, True, False, lambda rng, n: dict(p_hutch(rng, n), k=0), 2),
    "stochastic_lanczos_quad": (r_slq, True, True, lambda rng, n: {"fun": rng.choice(list(FUNS)), "max_iters": rng.randint(2, n),
                                                                   "vtol": rng.choice([0.6, 0.4, 0.3])}, 2),
    "logdet(Lanczos,Hutch)": (r_logdet, True, True, lambda rng, n: {"max_iters": rng.randint(2, n), "hutch_iters": rng.randint(1, 4)}, 2),
    "lanczos": (r_lanczos, True, True, lambda rng, n: {"max_iters": rng.randint(1, n + 2), "tol": rng.choice([1e-7, 1e-3])}, 2),
    "arnoldi": (r_arnoldi, True, False, lambda rng, n: {"max_iters": rng.randint(1, n), "tol": rng.choice([1e-7, 1e-3])}, 2),
    "eig(Lanczos)": (r_eig_lanczos, True, True, lambda rng, n: {"k": rng.randint(1, n), "max_iters": rng.randint(2, n)}, 2),
    "eig(Arnoldi)": (r_eig_arnoldi, True, False, lambda rng, n: {"k": rng.randint(1, n), "max_iters": rng.randint(2, n)}, 3),
    "power_iteration": (r_power, True, True, lambda rng, n: {"tol": rng.choice([1e-6, 1e-3]), "max_iter": rng.choice([1, 5, 50])}, 2),
    "eig(PowerIteration)": (r_eig_power, True, True, lambda rng, n: {"tol": rng.choice([1e-6, 1e-3]), "max_iter": rng.choice([5, 50])}, 2),
    "NystromPrecond": (r_nystrom, True, True, lambda rng, n: {"rank": rng.randint(1, n)}, 2),
    "AdaNysPrecond": (r_adanys, False, True, lambda rng, n: {"rank": rng.randint(1, max(1, n // 2))}, 3),
    "select_rank_adaptively": (r_selrank, False, True, lambda rng, n: {"rank": 1, "rank_max": rng.randint(1, n), "tol": rng.choice([1e-1, 1e-3])}, 3),
    "randomized_svd": (r_rsvd, False, False, lambda rng, n: {"rank": rng.randint(1, n)}, 2),
    "lobpcg": (r_lobpcg, False, True, lambda rng, n: {"max_iters": rng.randint(1, 3)}, 4),
    # round 2: the remaining library entries of the table (cola/linalg/tbd), executed with the LOCAL shims above
    "krylov_constraint_solve_upto_r": (r_nullspace, False, False, lambda rng, n: {"rows": rng.randint(1, n - 1), "r": rng.randint(1, 3),
                                                                                  "tol": 1e-3, "max_iter": rng.choice([5, 40])}, 3),
    "svrg_eigh_max": (r_svrg_eigh_max, False, False, lambda rng, n: {"k": rng.randint(1, 2)}, 2),
    "svrg_solveh": (r_svrg_solveh, False, False, lambda rng, n: {"k": rng.randint(1, 2)}, 2),
    "solve_svrg_rff": (r_svrg_rff, False, False, lambda rng, n: {"k": rng.randint(1, 2)}, 2),
    "slq_bwd": (r_slq_bwd, True, True, lambda rng, n: {"fun": "log", "num_samples": rng.randint(1, 4), "max_iters": rng.randint(2, n)}, 2),
}
# weights: expensive routines less often
WEIGHT = {"AdaNysPrecond": 0.25, "select_rank_adaptively": 0.3, "lobpcg": 0.5, "slq_bwd": 0.5}
# which table routine(s) an entry point reaches (documentation for the evidence; the dynamic trace is what counts)
REASON_NOT_EXECUTED = {}      # loc -> reason, for table sites no entry point above can reach (none at present)


def gen_call(rng, name=None):
    name = name or rng.choice(list(ROUTINES))
    while rng.random() > WEIGHT.get(name, 1.0):
        name = rng.choice(list(ROUTINES))
    fn, keyed, sym, pgen, nmin = ROUTINES[name]
    n = rng.randint(max(2, nmin), 12)
    dtype = "f32" if (rng.random() < 0.15 and name in ("hutchinson_diag_estimate", "lanczos", "power_iteration", "arnoldi")) else "f64"
    op = gen_op(rng, n, sym, dtype)
    return {"routine": name, "op": op, "key": gen_key(rng) if keyed else None, "params": pgen(rng, n)}


def expected_exception(call):
    """EXACT prediction of how a call of the script stream ends on this image, as a decidable predicate on the INPUT (and on
    the environment): None = must return; ("must", class, message regex, where) = must raise exactly this; ("may", ...) = the
    routine's own data-dependent convergence assertion (it may return or raise exactly this).  `where`: "after" = at least one
    draw site was executed before the exception (the draw log is compared), "before" = no draw was made."""
    r, op, p = call["routine"], call["op"], call["params"]
    if r in ("svrg_eigh_max", "svrg_solveh") and L.jax_missing:          # the draw precedes `import jax`
        return ("must", "ModuleNotFoundError", r"^No module named 'jax'$", "after")
    if r == "solve_svrg_rff" and not hasattr(L.cola.linalg, "eigs"):     # draw, then `cola.linalg.eigs` (does not exist)
        return ("must", "AttributeError", r"^module 'cola\.linalg' has no attribute 'eigs'$", "after")
    if r == "krylov_constraint_solve_upto_r":                            # its final `assert err < tol`
        return ("may", "AssertionError", r"^Err \S+ failed to converge to tol \S+ in \d+ iterations$", "after")
    if r == "diag(Hutch)" and op["kind"] == "kron" and p["k"] != 0:      # diag(Kronecker, k, alg): `assert k == 0`
        return ("must", "AssertionError", r"^Need to verify correctness of rule for off diagonal case$", "before")
    if r == "logdet(Lanczos,Hutch)" and op["kind"] == "kron" and any(m["kind"] == "dense" for m in op["Ms"]):
        # logdet(PSD(Kronecker)) recurses into the factors, which do not carry the annotation: Lanczos refuses a plain Dense
        return ("must", "AssertionError", r"^Lanczos only valid for SelfAdjoint", "before")
    return None


def not_executable(call):
    """routines that CANNOT run to completion on this backend whatever the arguments (decided on the environment only): reason text,
    else None.  Such calls are still made (their draw-site prefix is executed, the state-unchanged / same-draws observations are made
    and the exception is compared with the prediction) but they are NOT counted as executed: not in `evaluations`, not in
    `routines_covered`, not in the case sets; the evidence lists them under `not_executable_on_this_backend`."""
    r = call["routine"]
    if r in ("svrg_eigh_max", "svrg_solveh") and L.jax_missing:
        return ("needs the package `jax` (`import jax` inside the routine, then jax.random / jax.lax loops); jax is not installed and there is "
                "no NumPy path: ModuleNotFoundError after the initial xnp.randn draw; only the prefix up to that draw site runs")
    if r == "solve_svrg_rff" and (L.jax_missing or not hasattr(L.cola.linalg, "eigs")):
        return ("needs the package `jax` (an inert stand-in module lets `import jax` pass) and calls `cola.linalg.eigs`, which does not exist in "
                "this version of cola: AttributeError after the initial xnp.randn draw on every backend; only the prefix up to that draw site runs")
    return None


def exception_verdict(call, dg, exc):
    """None when the outcome (return / exception class, message, position relative to the draws) is the predicted one,
    else a text saying what was not predicted"""
    exp = expected_exception(call)
    ndraws = int(dg.rsplit("#", 1)[1])
    if exc is None:
        return None if (exp is None or exp[0] == "may") else f"returned although {exp[1]} /{exp[2]}/ was predicted"
    if exp is None:
        return f"no exception predicted, got {exc[:160]}"
    cls, _, msg = exc.partition(": ")
    if cls != exp[1] or not re.search(exp[2], msg):
        return f"predicted {exp[1]} /{exp[2]}/, got {exc[:160]}"
    if exp[3] == "after" and ndraws == 0:
        return f"{cls} predicted AFTER the draw, but no draw site was executed"
    if exp[3] == "before" and ndraws != 0:
        return f"{cls} predicted BEFORE any draw, but {ndraws} draws were made"
    return None


def do_call(call, A=None):
    """returns (digest or 'EXC:…', exception text)"""
    fn = ROUTINES[call["routine"]][0]
    A = A if A is not None else build(call["op"])
    tr = getattr(L, "trace", None)
    if tr is not None:
        tr.calllog = []
    try:
        try:
            with np.errstate(all="ignore"):
                out = fn(A, call["key"], call["params"])
            res, exc = digest(out), None
        except Exception as ex:   # the state must be unchanged on this path as well
            res, exc = "EXC:" + type(ex).__name__, f"{type(ex).__name__}: {ex}"
            exp = expected_exception(call)
            if exp is not None and exp[1] == type(ex).__name__ and re.search(exp[2], str(ex)):
                res += ":" + str(ex)     # a PREDICTED exception is compared with its full message (e.g. the residual it reports)
    finally:
        log = tr.calllog if tr is not None else []
        if tr is not None:
            tr.calllog = None
    # determinism is judged on the returned bytes / the exception AND on the sequence of draws (site, key, sha1 of the drawn
    # block): a routine that raises after its draw (svrg.*: `import jax`) is still compared on what it drew
    return res + "|draws:" + hashlib.sha1(repr(log).encode()).hexdigest()[:16] + f"#{len(log)}", exc


def result_part(dg):
    return dg.split("|draws:")[0]


# ------------------------------------------------------------------------------------------------
# global state ---------------------------------------------------------------------------------------
def same_values(a, b):
    """exact equality of every entry (no tolerance); +0.0 and -0.0 are the same value (0 * -1 = -0.0 in the code)"""
    a, b = np.asarray(a), np.asarray(b)
    return a.shape == b.shape and a.dtype == b.dtype and bool(np.array_equal(a, b))


def st_eq(a, b):
    return a[0] == b[0] and np.array_equal(a[1], b[1]) and tuple(a[2:]) == tuple(b[2:])


def st_diff(a, b):
    d = []
    if not np.array_equal(a[1], b[1]):
        d.append(f"{int((a[1] != b[1]).sum())} of 624 key words differ")
    if a[2] != b[2]:
        d.append(f"pos {a[2]} -> {b[2]}")
    if tuple(a[3:]) != tuple(b[3:]):
        d.append(f"gauss cache {a[3:]} -> {b[3:]}")
    return "; ".join(d)


def user_step(step):
    kind, arg = step["user"], step["arg"]
    if kind == "randn":
        return np.random.randn(arg).tobytes()
    if kind == "rand":
        return np.random.rand(arg).tobytes()
    if kind == "normal":
        return np.random.normal(size=arg).tobytes()
    if kind == "randint":
        return np.random.randint(0, 1000, size=arg).tobytes()
    if kind == "seed":
        np.random.seed(arg)
        return b"seed"
    if kind == "permutation":
        return np.random.permutation(arg).tobytes()
    raise ValueError(kind)


def gen_user(rng):
    kind = rng.choice(["randn", "randn", "rand", "normal", "randint", "seed", "permutation"])
    if kind == "seed":
        return {"user": kind, "arg": rng.randrange(0, 2**32)}
    return {"user": kind, "arg": rng.randint(1, 7)}     # odd counts leave a cached gaussian behind


def gen_script(rng, ncalls=3):
    calls = [gen_call(rng) for _ in range(ncalls)]
    occ = [(i, rep) for i in range(ncalls) for rep in (0, 1)]
    rng.shuffle(occ)
    steps = [{"user": "seed", "arg": rng.randrange(0, 2**32)}]
    for (i, rep) in occ:
        for _ in range(rng.randint(0, 3)):
            steps.append(gen_user(rng))
        steps.append({"call": i, "rep": rep})
    for _ in range(rng.randint(1, 3)):
        steps.append(gen_user(rng))
    return {"calls": calls, "steps": steps}


def run_script(script, with_cola):
    """returns (user outputs, findings, per-call digests)"""
    user, findings, digs = [], [], {}
    ops = {}
    drew = script.setdefault("_drew", {}) if with_cola else {}
    for si, st in enumerate(script["steps"]):
        if "user" in st:
            user.append(user_step(st))
            continue
        if not with_cola:
            continue
        i, rep = st["call"], st["rep"]
        call = script["calls"][i]
        if rep == 0 or i not in ops:
            ops.setdefault(i, build(call["op"]))
            A = ops[i]
        else:
            A = ops[i] if (i % 2 == 0) else build(call["op"])    # same object / rebuilt equal operator
        d0 = L.trace.draws if getattr(L, "trace", None) else 0
        before = np.random.get_state()
        dg, exc = do_call(call, A)
        after = np.random.get_state()
        drew[i] = drew.get(i, 0) + ((L.trace.draws - d0) if getattr(L, "trace", None) else 1)
        if not st_eq(before, after):
            findings.append({"kind": "global-state-changed", "step": si, "call": call, "exception": exc,
                             "detail": st_diff(before, after)})
            np.random.set_state(before)    # keep going with the user's state to find further ones
        digs.setdefault(i, []).append((dg, exc))
    for i, lst in digs.items():
        if len(lst) == 2 and lst[0][0] != lst[1][0]:
            findings.append({"kind": "not-deterministic-in-key", "call": script["calls"][i],
                             "detail": f"first call {lst[0]}, second call {lst[1]}"})
    return user, findings, digs


def check_script(script):
    u1, f1, digs = run_script(script, True)
    u0, _, _ = run_script(script, False)
    if u0 != u1 and not f1:
        first = next(j for j, (a, b) in enumerate(zip(u0, u1)) if a != b)
        f1.append({"kind": "user-stream-changed", "detail": f"user draw #{first} differs from the run without cola calls"})
    return f1, digs


# ------------------------------------------------------------------------------------------------
class Stats:
    def __init__(self):
        self.evals = 0
        self.cases = set()
        self.nontrivial = set()
        self.by_routine = {}
        self.exc = {}
        self.exc_unpredicted = []
        self.exc_unpredicted_n = 0
        self.not_exec = {}
        self.samples = []
        self.interleavings = 0
        self.user_ops = 0
        self.op_kinds = {}
        self.viol_lines = 0
        self.suppressed = 0
        self.key_checked = 0
        self.key_insensitive = []


def report(ctx, S, payload):
    if S.viol_lines < MAX_VIOLATION_LINES:
        common.violation(ctx, payload)
        S.viol_lines += 1
    else:
        S.suppressed += 1
        ctx.violations.append("suppressed")


def outcome_findings(script, digs):
    """replay side of the `unpredicted-outcome` VIOLATION: every outcome of every call of the script against expected_exception()"""
    out = []
    for i, call in enumerate(script["calls"]):
        for (dg_, exc_) in digs.get(i, []):
            verdict = exception_verdict(call, dg_, exc_)
            if verdict is not None:
                out.append({"kind": "unpredicted-outcome", "call": call, "exception": exc_, "detail": verdict})
                break
    return out


def stream_scripts(ctx, S, rng, nscripts, trace):
    for _ in range(nscripts):
        script = gen_script(rng, ncalls=rng.randint(2, 4))
        findings, digs = check_script(script)
        drew = script.pop("_drew", {})
        S.interleavings += 1
        S.user_ops += sum(1 for s in script["steps"] if "user" in s)
        for i, call in enumerate(script["calls"]):
            r = call["routine"]
            nx = not_executable(call)
            outcomes = digs.get(i, [])
            verdicts = [exception_verdict(call, dg_, exc_) for (dg_, exc_) in outcomes]
            # a routine that cannot run on this backend and ended exactly the predicted way is NOT counted as executed
            counted = not (nx is not None and all(v is None for v in verdicts) and all(e is not None for (_, e) in outcomes))
            if counted:
                S.evals += 2
                S.cases.add(common.canon(call))
                S.by_routine[r] = S.by_routine.get(r, 0) + 2
                S.op_kinds[op_skel(call["op"]).split("(")[0].rstrip("0123456789")] = S.op_kinds.get(op_skel(call["op"]).split("(")[0].rstrip("0123456789"), 0) + 1
            else:
                ent = S.not_exec.setdefault(r, {"reason": nx, "calls_made_not_counted": 0})
                ent["calls_made_not_counted"] += len(outcomes)
                drew[i] = 0
            # exceptions are observations: every outcome (of both occurrences) is compared with the exact prediction; an outcome
            # the prediction does not cover is a VIOLATION (replay = the script containing the call)
            unpredicted = False
            for (dg_, exc_), verdict in zip(outcomes, verdicts):
                if exc_ is not None:
                    ek = f"{r} {exc_.split(':')[0]} [{'predicted' if verdict is None else 'UNPREDICTED'}{'' if counted else ', not executable on this backend'}]"
                    S.exc[ek] = S.exc.get(ek, 0) + 1
                if verdict is not None:
                    S.exc_unpredicted_n += 1
                    if len(S.exc_unpredicted) < 10:
                        S.exc_unpredicted.append({"routine": r, "op": op_skel(call["op"]), "params": call["params"], "what": verdict})
                    if not unpredicted:      # one VIOLATION per call
                        findings.append({"kind": "unpredicted-outcome", "call": call, "exception": exc_, "detail": verdict})
                    unpredicted = True
            if unpredicted:
                drew[i] = 0      # such a call is not counted as a non-trivial case
            if len(S.samples) < 6 and rng.random() < 0.05:
                S.samples.append({"routine": r, "op": op_skel(call["op"]), "key": call["key"], "params": call["params"]})
        # non-trivial: the call reached at least one draw site (wrapper count; lobpcg: unconditional local-generator site)
        for i, call in enumerate(script["calls"]):
            if drew.get(i, 0) > 0 or (call["routine"] == "lobpcg" and digs.get(i) and digs[i][0][1] is None):
                S.nontrivial.add(common.canon(call))
        for f in findings:
            report(ctx, S, dict(f, script=script, how="re-run with ./check C17 quick --replay <this file>"))
        # key sensitivity (diagnostic): a keyed routine that drew random numbers should not return the very same
        # bytes for a different key.  Not part of the property text; used as the concrete input when the theorem
        # C17_sites_key_honoured breaks (a dropped `key=`).
        call = script["calls"][0]
        if ROUTINES[call["routine"]][1] and call["key"] is not None and drew.get(0, 0) > 0 and digs.get(0) and digs[0][0][1] is None:
            other = dict(call, key=(call["key"] + 1) % 2**32)
            before = np.random.get_state()
            dg, exc = do_call(other)
            np.random.set_state(before)
            S.key_checked += 1
            if exc is None and result_part(dg) == result_part(digs[0][0][0]):
                S.key_insensitive.append({"kind": "key-ignored", "call": call, "other_key": other["key"],
                                          "detail": "bit-identical results for two different keys although random numbers were drawn"})


# ------------------------------------------------------------------------------------------------
# (iii) Rademacher on diagonal operators, (iv) cap ---------------------------------------------------
def gen_diag_op(rng, n, dyadic):
    def val():
        return float(rng.randint(-64, 64)) / 8 if dyadic else rng.uniform(-3, 3)
    kind = rng.choice(["diag", "dense", "sum", "kron", "scalar"])
    if kind == "kron":
        fac = [(a, n // a) for a in range(2, n) if n % a == 0]
        if not fac:
            kind = "diag"
        else:
            a, b = rng.choice(fac)
            return {"kind": "kron", "dtype": "f64", "Ms": [{"kind": "diag", "dtype": "f64", "d": [val() for _ in range(a)]},
                                                         {"kind": "diag", "dtype": "f64", "d": [val() for _ in range(b)]}]}
    if kind == "diag":
        return {"kind": "diag", "dtype": "f64", "d": [val() for _ in range(n)]}
    if kind == "dense":
        return {"kind": "dense", "dtype": "f64", "sym": True, "M": np.diag([val() for _ in range(n)]).tolist()}
    if kind == "sum":
        return {"kind": "sum", "dtype": "f64", "Ms": [{"kind": "diag", "dtype": "f64", "d": [val() for _ in range(n)]},
                                                     {"kind": "dense", "dtype": "f64", "sym": True, "M": np.diag([val() for _ in range(n)]).tolist()}]}
    return {"kind": "scalar", "dtype": "f64", "c": val(), "n": n}


def counting(Adense, dtype):
    cnt = [0]

    def mm(V):
        cnt[0] += 1
        return Adense @ V
    return L.cola.ops.LinearOperator(dtype, Adense.shape, matmat=mm), cnt


def stream_diag_exact(ctx, S, rng, ncases, cov):
    for _ in range(ncases):
        n = rng.randint(2, 12)
        dyadic = rng.random() < 0.6
        op = gen_diag_op(rng, n, dyadic)
        key = gen_key(rng)
        p = {"k": 0, "rand": "rademacher", "tol": rng.choice([0.0011, 0.03, 0.5]), "max_iters": rng.choice([1, 2, 5, 20])}
        call = {"routine": "hutchinson_diag_estimate", "op": op, "key": key, "params": p}
        D = dense_of(op)
        before = np.random.get_state()
        with np.errstate(all="ignore"):
            m, info = L.hutch.hutchinson_diag_estimate(build(op), k=0, tol=p["tol"], max_iters=p["max_iters"], rand="rademacher", key=key)
        after = np.random.get_state()
        S.evals += 1
        S.cases.add(common.canon(call))
        S.nontrivial.add(common.canon(call))
        cov["diag_exact_cases"] += 1
        true = np.diag(D)
        bad = None
        if not st_eq(before, after):
            bad = {"kind": "global-state-changed", "detail": st_diff(before, after)}
        elif dyadic and not same_values(m, true.astype(m.dtype)):
            bad = {"kind": "rademacher-on-diagonal-not-exact", "detail": f"returned {m.tolist()} true {true.tolist()}"}
        elif not dyadic and not np.allclose(m, true, rtol=1e-12, atol=1e-14):
            bad = {"kind": "rademacher-on-diagonal-not-exact", "detail": f"returned {m.tolist()} true {true.tolist()}"}
        elif dyadic and info["iterations"] - 1 != 1:
            bad = {"kind": "rademacher-on-diagonal-more-than-one-iteration",
                   "detail": f"zero sample variance but {info['iterations'] - 1} iterations"}
        if dyadic:
            cov["diag_exact_bitwise"] += 1
        if bad:
            report(ctx, S, dict(bad, call=call))


def stream_cap(ctx, S, rng, ncases, cov):
    for _ in range(ncases):
        n = rng.randint(2, 12)
        op = gen_op(rng, n, rng.random() < 0.5)
        D = dense_of(op)
        key = gen_key(rng)
        p = p_hutch(rng, n)
        if rng.random() < 0.1:
            p["max_iters"] = 0
        call = {"routine": "hutchinson_diag_estimate(counting operator)", "op": op, "key": key, "params": p}
        A, cnt = counting(D, D.dtype)
        before = np.random.get_state()
        with np.errstate(all="ignore"):
            m, info = L.hutch.hutchinson_diag_estimate(A, k=p["k"], tol=p["tol"], max_iters=p["max_iters"], rand=p["rand"], key=key)
        after = np.random.get_state()
        S.evals += 1
        S.cases.add(common.canon(call))
        S.nontrivial.add(common.canon(call))
        cov["cap_cases"] += 1
        cov["cap_hit"] += int(cnt[0] == p["max_iters"])
        bad = None
        if not st_eq(before, after):
            bad = {"kind": "global-state-changed", "detail": st_diff(before, after)}
        elif info["iterations"] - 1 != cnt[0]:
            bad = {"kind": "iteration-count-mismatch", "detail": f"{cnt[0]} products but info['iterations'] - 1 = {info['iterations'] - 1}"}
        elif cnt[0] > p["max_iters"]:
            if p["max_iters"] == 0 and cnt[0] == 1 and "capPositive" in common.known_clauses(ctx.prop):
                common.known_finding(ctx, "capPositive", common.known_clauses(ctx.prop)["capPositive"]["what"])
                cov["cap_zero_cases"] += 1
            else:
                bad = {"kind": "iterations-exceed-max_iters", "detail": f"{cnt[0]} products with A, max_iters = {p['max_iters']}"}
        if bad:
            report(ctx, S, dict(bad, call=call))
    # tolerances outside the accepted domain are refused
    for tol in (1e-3, 1e-4, 0.0):
        try:
            L.hutch.hutchinson_diag_estimate(build({"kind": "diag", "dtype": "f64", "d": [1.0, 2.0]}), tol=tol, max_iters=2, key=1)
            cov["tol_refused"] = False
        except AssertionError:
            pass
    # keys outside numpy's seed domain are refused without touching the state
    for key in (2**32, -1, 2**40):
        np.random.seed(99)
        np.random.randn(3)
        before = np.random.get_state()
        try:
            L.orig_randn(3, dtype=np.float64, key=key)
            refused = False
        except ValueError:
            refused = True
        if not st_eq(before, np.random.get_state()):
            report(ctx, S, {"kind": "global-state-changed", "detail": f"randn(3, key={key}) raised={refused} and changed the state",
                            "call": {"routine": "np_fns.randn", "key": key}})
        cov["bad_keys_refused"] += int(refused)


# ------------------------------------------------------------------------------------------------
# probe injection ------------------------------------------------------------------------------------
class Inject:
    def __init__(self, blocks):
        self.blocks = blocks
        self.i = 0
        self.keys = []
        self.overrun = 0

    def __call__(self, *shape, dtype=None, device=None, key=None):
        self.keys.append(key)
        if self.i < len(self.blocks):
            b = self.blocks[self.i]
        else:
            self.overrun += 1
            b = np.zeros(shape)
        self.i += 1
        assert tuple(b.shape) == tuple(shape), (b.shape, shape)
        return b.astype(dtype)


def with_injection(blocks, fn):
    inj = Inject(blocks)
    saved = L.np_fns.randn
    L.np_fns.randn = inj
    try:
        with np.errstate(all="ignore"):
            res = fn()
    finally:
        L.np_fns.randn = saved
    return res, inj


def key_chain(key0, t):
    k = L.np_fns.PRNGKey(42) if key0 is None else key0
    out = []
    for _ in range(t):
        k = L.np_fns.next_key(k)
        out.append(k)
    return out


def stream_exhaustive(ctx, S, rng, ncases, cov):
    """all 2^n sign patterns, each n times: the mean is np.diag(A, k) EXACTLY"""
    for _ in range(ncases):
        n = rng.choice([2, 3, 4, 4, 5, 6])
        M = np.array(gen_matrix(rng, n, rng.random() < 0.3, integer=True))
        k = rng.randint(-(n - 1), n - 1)
        pats = [np.array([1.0 if (w >> i) & 1 else -1.0 for i in range(n)]) for w in range(2 ** n)]
        # magnitudes are arbitrary positive numbers: the code must apply sign()
        mags = [rng.uniform(0.1, 3) for _ in range(n)]
        blocks = []
        for b in range(2 ** n):
            cols = [pats[(b * n + c) % (2 ** n)] * mags[c] for c in range(n)]
            blocks.append(np.stack(cols, axis=1))
        call = {"routine": "hutchinson_diag_estimate(injected: all 2^n sign patterns, n times each)", "A": M.tolist(), "k": k,
                "params": {"tol": 0.0011, "max_iters": 2 ** n, "rand": "rademacher"}}
        (m, info), inj = with_injection(blocks, lambda: L.hutch.hutchinson_diag_estimate(
            L.cola.ops.Dense(M), k=k, tol=0.0011, max_iters=2 ** n, rand="rademacher", key=5))
        S.evals += 1
        S.cases.add(common.canon(call))
        cov["exhaustive_cases"] += 1
        if inj.i != 2 ** n or inj.overrun:
            cov["exhaustive_stopped_early"] += int(inj.i < 2 ** n)
            if inj.overrun:
                report(ctx, S, {"kind": "iterations-exceed-max_iters", "call": call, "detail": f"{inj.i} blocks requested, max_iters = {2 ** n}"})
            continue
        S.nontrivial.add(common.canon(call))
        cov["exhaustive_full"] += 1
        true = np.diag(M, k)
        if not same_values(m, true.astype(m.dtype)):
            report(ctx, S, {"kind": "rademacher-expectation-is-not-the-diagonal", "call": call,
                            "detail": f"mean over all sign patterns {m.tolist()} but np.diag(A, {k}) = {true.tolist()}"})


def err_of(sum_, sumsq, i, bs, dtype):
    """`err(state)` of the code, same floating point operations"""
    ds = np.array(sum_, dtype=dtype)
    dq = np.array(sumsq, dtype=dtype)
    with np.errstate(all="ignore"):
        mean = ds / (i * bs)
        stderr = np.sqrt((dq / (i * bs) - mean ** 2) / (i * bs))
        return np.mean(stderr / np.maximum(np.abs(mean), .1 * np.ones_like(mean)))


def stream_lean(ctx, S, rng, ncases, cov):
    import oracle
    cases, reals = [], {}
    for cid in range(ncases):
        n = rng.randint(2, 9)
        bs = n
        M = np.array(gen_matrix(rng, n, rng.random() < 0.3, integer=True))
        if rng.random() < 0.2:
            M = np.diag(np.diag(M))
        k = rng.randint(-(n - 1), n - 1) if rng.random() < 0.85 else 0
        rand = rng.choice(["normal", "rademacher"])
        T = rng.randint(1, 4)
        tol = rng.choice([0.0011, 0.05, 0.3, 1.0])
        blocks = [np.array([[float(rng.choice([-3, -2, -1, 1, 2, 3])) for _ in range(bs)] for _ in range(n)]) for _ in range(T)]
        key = gen_key(rng)
        dtype = np.float32 if rng.random() < 0.2 else np.float64
        cnt_op, cnt = counting(M.astype(dtype), dtype)
        before = np.random.get_state()
        (m, info), inj = with_injection(blocks, lambda: L.hutch.hutchinson_diag_estimate(
            cnt_op, k=k, tol=tol, max_iters=T, rand=rand, key=key))
        after = np.random.get_state()
        call = {"routine": "hutchinson_diag_estimate(injected integer probes)", "A": M.tolist(), "k": k, "key": key,
                "params": {"tol": tol, "max_iters": T, "rand": rand}, "blocks": [b.tolist() for b in blocks],
                "dtype": np.dtype(dtype).name}
        S.evals += 1
        S.cases.add(common.canon({kk: call[kk] for kk in ("A", "k", "params", "blocks", "dtype")}))
        if not st_eq(before, after):
            report(ctx, S, {"kind": "global-state-changed", "call": call, "detail": st_diff(before, after)})
        cases.append({"id": f"h{cid}", "kind": "hutch", "n": n, "bs": bs, "k": k, "rand": rand,
                      "A": [[int(x) for x in r] for r in M.tolist()],
                      "probes": [[[int(x) for x in r] for r in (np.sign(b) if rand == "rademacher" else b).tolist()] for b in blocks]})
        reals[f"h{cid}"] = {"mean": m, "iters": inj.i, "overrun": inj.overrun, "keys": inj.keys, "call": call, "tol": tol,
                            "T": T, "dtype": dtype, "products": cnt[0], "key": key}
    ans = oracle.run_driver(cases, driver=DRIVER, nproc=4 if len(cases) < 500 else None)
    loops = []
    for c in cases:
        a = ans.get(c["id"])
        r = reals[c["id"]]
        if a is None or "error" in a:
            raise RuntimeError(f"driver gave no answer for {c['id']}: {a}")
        n, bs, k = c["n"], c["bs"], c["k"]
        it = r["iters"]
        cov["lean_cases"] += 1
        nontriv = (k != 0) or it > 1
        bad = None
        if r["overrun"] or it > max(1, r["T"]):
            bad = {"kind": "iterations-exceed-max_iters", "detail": f"{it} blocks requested, max_iters = {r['T']}"}
        elif r["products"] != it:
            bad = {"kind": "iteration-count-mismatch", "detail": f"{r['products']} products, {it} blocks drawn"}
        elif a["rows"] != n - abs(k) or r["mean"].shape != (a["rows"],):
            bad = {"kind": "shape", "detail": f"model rows {a['rows']}, real {r['mean'].shape}"}
        else:
            blk = a["blocks"][it - 1]
            model_mean = np.array(blk["sum"], dtype=r["dtype"]) / (it * bs)
            if not same_values(model_mean.astype(r["mean"].dtype), r["mean"]):
                # real != code model: is the REAL code wrong w.r.t. the spec?  (expectation cannot be judged on one
                # probe; report the disagreement with the index arithmetic as the failing input)
                bad = {"kind": "loop-body-disagrees-with-model", "detail": f"real mean {r['mean'].tolist()} model diag_sum/(i*bs) {model_mean.tolist()}"}
            elif r["keys"] != key_chain(r["key"], it):
                bad = {"kind": "key-chain", "detail": f"keys passed to randn {r['keys']} expected sha256 chain {key_chain(r['key'], it)}"}
        if bad:
            report(ctx, S, dict(bad, call=r["call"]))
            continue
        if nontriv:
            S.nontrivial.add(common.canon({kk: r["call"][kk] for kk in ("A", "k", "params", "blocks", "dtype")}))
        cov["lean_offdiag"] += int(k != 0)
        # loop model: decisions err > tol recomputed from the model's exact sums
        stops, determined = [], True
        for i in range(1, it + 1):
            e = err_of(a["blocks"][i - 1]["sum"], a["blocks"][i - 1]["sumsq"], i, bs, r["dtype"])
            if np.isnan(e):
                stops.append(False)
            else:
                if abs(float(e) - r["tol"]) <= 1e-6 * r["tol"]:
                    determined = False
                stops.append(bool(e > r["tol"]))
        if determined:
            loops.append({"id": "l" + c["id"], "kind": "loop", "max_iters": r["T"], "stops": stops, "real_iters": it, "call": r["call"]})
    # max_iters = 0 (clause capPositive): the model loop makes exactly ONE iteration whatever `err > tol` says
    # (C17_cap_clause_needed); the real loop is run on a fixed operator with injected blocks, once with a tolerance it misses
    # and once with one it meets, and must make the model's number of iterations (fixed inputs: no draw from `rng`)
    M0 = np.array([[2.0, 1.0, 0.0], [1.0, 3.0, 1.0], [0.0, 1.0, 4.0]])
    B0 = np.array([[1.0, -2.0, 3.0], [2.0, 1.0, -1.0], [-1.0, 3.0, 2.0]])
    for j, (tol0, stop0) in enumerate(((0.0011, True), (1.0e6, False))):
        cnt_op0, cnt0 = counting(M0, M0.dtype)
        (_m0, _info0), inj0 = with_injection([B0, B0], lambda: L.hutch.hutchinson_diag_estimate(
            cnt_op0, k=0, tol=tol0, max_iters=0, rand="normal", key=7))
        call0 = {"routine": "hutchinson_diag_estimate(injected integer probes)", "A": M0.tolist(), "k": 0, "key": 7,
                 "params": {"tol": tol0, "max_iters": 0, "rand": "normal"}, "blocks": [B0.tolist(), B0.tolist()], "dtype": "float64"}
        S.evals += 1
        S.cases.add(common.canon({kk: call0[kk] for kk in ("A", "k", "params", "blocks", "dtype")}))
        cov["loop_cases_max_iters_0"] = cov.get("loop_cases_max_iters_0", 0) + 1
        if inj0.i != cnt0[0]:
            report(ctx, S, {"kind": "iteration-count-mismatch", "call": call0, "detail": f"{cnt0[0]} products, {inj0.i} blocks drawn"})
        loops.append({"id": f"lz{j}", "kind": "loop", "max_iters": 0, "stops": [stop0], "real_iters": cnt0[0], "call": call0})
    ans2 = oracle.run_driver([{kk: v for kk, v in l.items() if kk not in ("call", "real_iters")} for l in loops], driver=DRIVER, nproc=1 if len(loops) < 500 else 4)
    for l in loops:
        a = ans2.get(l["id"])
        cov["loop_cases"] += 1
        if a is None or "error" in a:
            raise RuntimeError(f"driver gave no answer for {l['id']}: {a}")
        if a["iters"] != l["real_iters"] or not a["world_unchanged"]:
            report(ctx, S, {"kind": "loop-disagrees-with-model", "call": l["call"],
                            "detail": f"real iterations {l['real_iters']}, model {a['iters']} with decisions {l['stops']}"})


# ------------------------------------------------------------------------------------------------
# (v) sequential test of unbiasedness ------------------------------------------------------------------
# Statistic per component t: dev = |mean - np.diag(A, k)[t]| * N = |S_N - N d|, N = iterations * bs columns drawn, against
#     thr(x) = sigma sqrt(2 Ncap x) + c x,  sigma^2 = V,  c = 0 (Rademacher) | |a_s| + sqrt(a_s^2 + rho^2) (normal)   [unchanged since round 2]
# with V = rho^2 (+ 2 a_s^2 for normal probes), rho^2 = sum_{q != s} A[r,q]^2 (PROVED: C17_variance_gaussian / _sign_gaussian / _rademacher).
# PROVED in Lean (Properties/C17.lean) for every FIXED number N <= Ncap of independent probe columns (bs := N in the theorems):
#   C17_tail_chebyshev_sum     P(|S_N - N d| >= thr) <= N V / thr^2                  every probe law (with C17_variance_sum_iid,
#                              C17_columns_independent); C17_tail_chebyshev_mean is the same statement for the returned mean
#   C17_tail_hoeffding_sign    P(|S_N - N d| >= thr) <= 2 exp(-thr^2 / (2 N rho^2))   Rademacher probes as coded; in threshold form
#   C17_tail_hoeffding_threshold   thr >= sqrt(2 N rho^2 x)  =>  P <= 2 exp(-x): exactly the level claimed for thr(x), Rademacher
# CONTRACTS (textbook inequalities, NOT Lean theorems): the sub-gamma level 2 exp(-x) of thr(x) for NORMAL probes (Laurent-Massart);
# for both probe kinds the maximal form that covers the routine's data-dependent `err(state) > tol` stopping rule (Ville);
# independence of blocks drawn under different keys (the theorems treat all iterations as ONE block of N columns); MT19937 after
# seed(key) delivering i.i.d. N(0,1).  The stated ALPHA rests on them.  The thresholds are NOT widened to what is proved; instead the
# proved fixed-N single-key level of every threshold actually used is computed and recorded (evidence streams.ztest: lean_certified_*_stage1/2,
# chebyshev_*, hoeffding_*; ztest_chebyshev_false_alarm_max).  Rounding (float64 sums of <= 1e5 terms, rel. error < 1e-11) is covered by SLACK.
# Procedure: stage 1 tests every component against thr(X1); a component beyond it is re-tested K times with FRESH keys and
# REP_FACTOR times the cap and is a VIOLATION iff it exceeds thr(X2) in ALL K.  Under the contracts
#     P(any VIOLATION on an unbiased estimator) <= C * 2 exp(-X1) * (2 exp(-X2))^K <= ALPHA  (C components; K chosen accordingly);
# `stream_false_alarm_product_of_fixedN_levels` (formerly mislabelled `lean_certified_stream_false_alarm`) = sum_components level1 * level2^K
# is NOT a consequence of the proved inequalities alone.  THEOREMS: each factor level1 / level2 is the proved fixed-N Chebyshev
# (every law) or Hoeffding (Rademacher) bound for ONE key and a FIXED number N of columns.  ASSUMPTIONS needed to combine them:
# (1) independence of the blocks drawn under DIFFERENT keys (stage 1 and the K replications) - that is what licenses the product
# level1 * level2^K; (2) optional stopping - the routine stops at a data-dependent N <= Ncap, the theorems are applied at that stopped N
# as if it were fixed (a maximal / Ville form would be needed).  Only the union bound over components needs no assumption.
Z_X1 = 6.0
Z_X2 = 8.0
Z_REP_FACTOR = 4
Z_ALPHA = 1e-9
Z_SLACK = 1e-9


def z_components(D, k, rand):
    """per component t: (r, s, sigma^2, c) - exact variance of one column and the sub-gamma scale"""
    n = D.shape[0]
    out = []
    for t in range(n - abs(k)):
        r_, s_ = t + max(0, -k), t + max(0, k)
        row = D[r_]
        a_s = float(row[s_])
        rho2 = float(np.sum(np.delete(row, s_) ** 2))     # exactly 0 when all other entries of the row vanish
        if rand == "normal":
            out.append((r_, s_, rho2 + 2 * a_s ** 2, abs(a_s) + float(np.sqrt(a_s ** 2 + rho2))))
        else:
            out.append((r_, s_, rho2, 0.0))
    return out


def z_bound(var, c, ncols_cap, x):
    """bound on |sum deviation| that holds with probability >= 1 - 2 exp(-x) for every stopping rule <= the cap"""
    return float(np.sqrt(var) * np.sqrt(2.0 * ncols_cap * x) + c * x)


def z_eval(zc, key, cap, comps=None):
    """run the real routine; per component (t, |sum deviation|, sigma^2, c, columns drawn, columns at the cap, exact?)"""
    D = dense_of(zc["op"]).astype(np.float64)
    n = D.shape[0]
    k, rand = zc["k"], zc["rand"]
    bs = min(100, n)
    A, cnt = counting(D, D.dtype)
    with np.errstate(all="ignore"):
        m, info = L.hutch.hutchinson_diag_estimate(A, k=k, tol=zc["tol"], max_iters=cap, rand=rand, key=key)
    it = cnt[0]
    true = np.diag(D, k)
    res = []
    for t, (r_, s_, var, c) in enumerate(z_components(D, k, rand)):
        if comps is not None and t not in comps:
            continue
        dev = abs(float(m[t]) - float(true[t])) * it * bs
        slack = Z_SLACK * (abs(float(true[t])) + float(np.sqrt(var)) + 1e-300) * it * bs
        res.append({"t": t, "dev": dev, "var": var, "c": c, "cols": it * bs, "cols_cap": cap * bs, "slack": slack,
                    "estimate": float(m[t]), "true": float(true[t]), "iterations": it, "rand": rand})
    return res


def z_exceeds(cmp, x):
    if cmp["var"] == 0.0:      # exact estimator (all other entries of the row vanish, Rademacher): rounding only
        return not np.isclose(cmp["estimate"], cmp["true"], rtol=1e-12, atol=1e-14)
    return cmp["dev"] > z_bound(cmp["var"], cmp["c"], cmp["cols_cap"], x) + cmp["slack"]


def z_chebyshev_level(cmp, x):
    """PROVED false-alarm level of the threshold `z_exceeds(cmp, x)` uses: for every FIXED number N <= cols_cap of independent
    columns, P(|S_N - N d| >= thr) <= N V / thr^2 <= cols_cap V / thr^2 (theorem C17_tail_chebyshev_sum with bs := N)"""
    thr = z_bound(cmp["var"], cmp["c"], cmp["cols_cap"], x) + cmp["slack"]
    return min(1.0, cmp["cols_cap"] * cmp["var"] / thr ** 2)


def z_hoeffding_level(cmp, x):
    """Rademacher probes only (V = rho^2): P(|S_N - N d| >= thr) <= 2 exp(-thr^2 / (2 N rho^2)) <= 2 exp(-thr^2 / (2 cols_cap rho^2))
    for every FIXED N <= cols_cap (theorem C17_tail_hoeffding_sign with bs := N, law sign(N(0,1)) = the code path)"""
    assert cmp["rand"] == "rademacher" and cmp["var"] > 0.0
    thr = z_bound(cmp["var"], cmp["c"], cmp["cols_cap"], x) + cmp["slack"]
    return min(1.0, 2.0 * float(np.exp(-thr ** 2 / (2.0 * cmp["cols_cap"] * cmp["var"]))))


def z_certified_level(cmp, x):
    """the best level PROVED in Lean for the threshold actually used (0 for an exact estimator: compared up to rounding)"""
    if cmp["var"] == 0.0:
        return 0.0
    lv = z_chebyshev_level(cmp, x)
    return min(lv, z_hoeffding_level(cmp, x)) if cmp["rand"] == "rademacher" else lv


def z_score(cmp):
    """|sum deviation| in units of its standard deviation at the cap (the usual |z| when the loop ran to the cap)"""
    if cmp["var"] == 0.0:
        return float("inf") if z_exceeds(cmp, 1.0) else 0.0
    return cmp["dev"] / float(np.sqrt(cmp["var"] * cmp["cols_cap"]))


def gen_zcase(rng):
    n = rng.randint(3, 10)
    sym = rng.random() < 0.5
    op = gen_op(rng, n, sym, "f64", ("dense", "dense", "kron", "sum"))
    k = rng.randint(-(n - 1), n - 1) if rng.random() < 0.7 else 0
    return {"op": op, "k": k, "rand": rng.choice(["normal", "rademacher"]), "cap": max(2, 2400 // n),
            # mostly the smallest admissible tolerance (the loop runs to the cap: full power); sometimes a realistic one, so
            # that the data-dependent stopping rule itself is under test (the bound holds for every stopping rule)
            "tol": 0.0011 if rng.random() < 0.8 else rng.choice([0.01, 0.03])}


def z_confirm(rng, zc, t, K, log):
    """K replications with fresh keys and a larger cap; True iff the component exceeds the stage-2 threshold in ALL"""
    fails = 0
    for _ in range(K):
        key = rng.randrange(0, 2**32)
        cmp = z_eval(zc, key, Z_REP_FACTOR * zc["cap"], comps={t})[0]
        ex = z_exceeds(cmp, Z_X2)
        log.append({"key": key, "z": round(z_score(cmp), 3), "iterations": cmp["iterations"], "exceeds": bool(ex),
                    "estimate": cmp["estimate"], "true": cmp["true"],
                    "chebyshev_level": (z_chebyshev_level(cmp, Z_X2) if cmp["var"] > 0.0 else 0.0),
                    "lean_certified_level": z_certified_level(cmp, Z_X2)})
        if not ex:
            return False     # sequential: one agreement with the truth within the bound ends the re-test
        fails += 1
    return fails == K


def stream_ztest(ctx, S, cov, ncases):
    rng = random.Random(f"C17-sequential-{ctx.seed}")     # different VERIF_SEEDs test different operators AND keys
    zcases = [gen_zcase(rng) for _ in range(ncases)]
    C = sum(op_size(zc["op"]) - abs(zc["k"]) for zc in zcases)
    p1, p2 = 2 * np.exp(-Z_X1), 2 * np.exp(-Z_X2)
    K = 1
    while C * p1 * p2 ** K > Z_ALPHA:
        K += 1
    zmax, comps, triggered, early, exact = 0.0, 0, [], 0, 0
    hist = {}
    cheb1 = []       # Lean-certified (C17_tail_chebyshev_sum) false-alarm level of the stage-1 threshold actually used, per component
    hoef1 = []       # ... (C17_tail_hoeffding_sign), Rademacher components
    cert = []        # per component (best proved stage-1 level, proved bound on the stage-2 level)
    for zc in zcases:
        key = rng.randrange(0, 2**32)
        call = {"routine": "hutchinson_diag_estimate", "op": zc["op"], "key": key,
                "params": {"k": zc["k"], "rand": zc["rand"], "tol": zc["tol"], "max_iters": zc["cap"]}}
        res = z_eval(zc, key, zc["cap"])
        S.evals += 1
        S.cases.add(common.canon(call))
        S.nontrivial.add(common.canon(call))
        early += int(bool(res) and res[0]["iterations"] < zc["cap"])
        for cmp in res:
            comps += 1
            exact += int(cmp["var"] == 0.0)
            z = z_score(cmp)
            zmax = max(zmax, z)
            hb = "inf" if z == float("inf") else str(min(int(z), 6))
            hist[hb] = hist.get(hb, 0) + 1
            if cmp["var"] > 0.0:
                cheb1.append(z_chebyshev_level(cmp, Z_X1))
                if cmp["rand"] == "rademacher":
                    hoef1.append(z_hoeffding_level(cmp, Z_X1))
                # stage 2: thr >= sigma sqrt(2 N x2): Hoeffding level <= 2 exp(-x2) (Rademacher), Chebyshev level <= 1/(2 x2) (normal)
                cert.append((z_certified_level(cmp, Z_X1), min(1.0 / (2.0 * Z_X2), p2) if cmp["rand"] == "rademacher" else 1.0 / (2.0 * Z_X2)))
            if z_exceeds(cmp, Z_X1):
                triggered.append((zc, call, cmp))
    confirmed = 0
    trig_log = []
    for zc, call, cmp in triggered:
        if confirmed >= MAX_VIOLATION_LINES:     # enough concrete inputs; the remaining triggers are counted, not re-tested
            break
        log = []
        bad = z_confirm(rng, zc, cmp["t"], K, log)
        trig_log.append({"op": op_skel(zc["op"]), "k": zc["k"], "rand": zc["rand"], "component": cmp["t"],
                         "stage1_z": round(z_score(cmp), 3), "replications": [{kk: e[kk] for kk in ("z", "exceeds", "chebyshev_level")} for e in log],
                         "replications_full": log, "confirmed": bool(bad)})
        if bad:
            confirmed += 1
            report(ctx, S, {"kind": "estimate-biased (sequential test)", "call": call, "ztest": {"case": zc, "component": cmp["t"], "K": K},
                            "detail": f"component {cmp['t']}: stage 1 estimate {cmp['estimate']!r} true {cmp['true']!r} "
                                      f"(|z| = {z_score(cmp):.2f} > bound exponent {Z_X1}); all {K} replications with fresh keys and "
                                      f"{Z_REP_FACTOR}x the samples exceed the bound with exponent {Z_X2}: {log}; "
                                      f"false-alarm probability of the whole stream <= {Z_ALPHA}"})
    cheb2 = [e["chebyshev_level"] for t_ in trig_log for e in t_["replications_full"]]
    cert2 = [e["lean_certified_level"] for t_ in trig_log for e in t_["replications_full"]]
    for t_ in trig_log:
        del t_["replications_full"]
    cheb_stream = min(1.0, float(sum(cheb1)) * (1.0 / (2.0 * Z_X2)) ** K)
    cert_stream = min(1.0, float(sum(l1 * l2 ** K for l1, l2 in cert)))
    cov["ztest"] = {
        "cases": ncases, "components": comps, "components_exact_estimator": exact,
        "proved_inequalities": "Properties/C17.lean, for a FIXED number N of independent probe columns: C17_tail_chebyshev_sum P(|S_N - N diag_k[t]| >= thr) "
                               "<= N V / thr^2 (every probe law; C17_tail_chebyshev_mean is the same for the mean; from C17_variance_sum_iid, "
                               "C17_columns_independent, C17_variance_*); C17_tail_hoeffding_sign / _threshold P(|S_N - N diag_k[t]| >= thr) <= "
                               "2 exp(-thr^2 / (2 N rho^2)) (Rademacher probes as coded)",
        "chebyshev_false_alarm_stage1_max": (float(max(cheb1)) if cheb1 else 0.0),
        "chebyshev_false_alarm_stage1_min": (float(min(cheb1)) if cheb1 else 0.0),
        "chebyshev_false_alarm_stage2_observed_max": (float(max(cheb2)) if cheb2 else None),
        "chebyshev_false_alarm_stage2_bound": 1.0 / (2.0 * Z_X2),
        "chebyshev_stream_false_alarm_product_of_fixedN_levels": cheb_stream,
        "hoeffding_components_rademacher": len(hoef1),
        "hoeffding_false_alarm_stage1_max": (float(max(hoef1)) if hoef1 else 0.0),
        "lean_certified_false_alarm_stage1_max": (float(max(l1 for l1, _ in cert)) if cert else 0.0),
        "lean_certified_false_alarm_stage1_max_rademacher": (float(max(hoef1)) if hoef1 else 0.0),
        "lean_certified_false_alarm_stage2_observed_max": (float(max(cert2)) if cert2 else None),
        "stream_false_alarm_product_of_fixedN_levels": cert_stream,
        "stream_false_alarm_product_is": "sum over components of level1 * level2^K.  THEOREMS (Lean): every single factor - level1 and each level2 is the fixed-N "
                                         "Chebyshev bound N V / thr^2 (C17_tail_chebyshev_sum, every probe law) or the fixed-N Hoeffding bound 2 exp(-thr^2 / (2 N rho^2)) "
                                         "(C17_tail_hoeffding_sign / _threshold, Rademacher probes), each for ONE key and a FIXED number N of independent columns; "
                                         "the union bound over components.  ASSUMPTIONS (not theorems): (1) independence ACROSS keys - the blocks drawn for stage 1 "
                                         "and for the K replications (fresh keys) are treated as independent, which is what turns the per-key levels into the product "
                                         "level1 * level2^K; (2) optional stopping - the routine stops at a data-dependent number of columns N <= cap and the fixed-N "
                                         "theorems are evaluated at that stopped N as if it had been fixed in advance (a maximal / Ville-type inequality is not proved).  "
                                         "This number is therefore NOT certified by Lean; the per-factor keys lean_certified_false_alarm_stage1_max / _stage2_observed_max "
                                         "are the proved fixed-N single-key levels (still subject to (2) when the run stopped before the cap)",
        "contract_not_proved": "the sub-gamma level 2 exp(-x) of the NORMAL-probe thresholds; for both probe kinds the maximal form of the bounds for the "
                               "data-dependent stopping rule (Ville), independence of blocks drawn under different keys, MT19937 + seed(key) delivering "
                               "i.i.d. N(0,1); `false_alarm_stated` and `false_alarm_bound_this_run` rest on these",
        "stage1_exponent_x1": Z_X1, "stage1_threshold_z_rademacher": round(float(np.sqrt(2 * Z_X1)), 4),
        "stage1_threshold_normal": "sqrt(2 x1) + c x1 / (sigma sqrt(N bs)),  c = |a_s| + sqrt(a_s^2 + rho^2)",
        "stage2_exponent_x2": Z_X2, "stage2_threshold_z_rademacher": round(float(np.sqrt(2 * Z_X2)), 4),
        "replications_K": K, "replication_sample_factor": Z_REP_FACTOR,
        "per_component_bound_stage1": float(p1), "per_replication_bound": float(p2),
        "false_alarm_bound_this_run": float(C * p1 * p2 ** K), "false_alarm_stated": Z_ALPHA,
        "bound": "thresholds thr(x) = sigma sqrt(2 Nmax bs x) + c x with the PROVED variances; PROVED for every FIXED number of columns <= the cap: "
                 "P(|S_N| >= thr(x)) <= 2 exp(-x) for Rademacher probes (C17_tail_hoeffding_threshold), the Chebyshev levels above for normal probes; "
                 "CONTRACT: the same level 2 exp(-x) for normal probes (sub-gamma) and for every stopping rule tau <= Nmax (Ville's maximal "
                 "inequality); union bound over components",
        "power": "a component whose expectation is off by >= (sqrt(2 x1) + 4.5) = 7.96 stage-1 standard errors (se1 = sigma/sqrt(max_iters*bs), "
                 "about sigma/49; normal probes: + c x1/(max_iters*bs)) in a case that runs to the cap (tol = 0.0011, 80 % of the cases) is reported "
                 "as VIOLATION with probability >= 1 - 5e-5 (same inequality, one-sided)",
        "max_abs_z_stage1": (round(float(zmax), 3) if zmax != float("inf") else "inf"),
        "z_histogram_stage1": dict(sorted(hist.items())),
        "stage1_triggers": len(triggered), "stage1_triggers_retested": len(trig_log), "confirmed": confirmed, "trigger_log": trig_log[:10],
        "cases_stopped_before_cap": early,
        "seed_set": f"random.Random('C17-sequential-{ctx.seed}'): operators, offsets, probe kinds, tolerances AND keys depend on VERIF_SEED",
    }
    cov["ztest_max_abs_z"] = cov["ztest"]["max_abs_z_stage1"]
    cov["ztest_chebyshev_false_alarm_max"] = cov["ztest"]["chebyshev_false_alarm_stage1_max"]


# ------------------------------------------------------------------------------------------------
def replay(ctx):
    load_cola()
    payload = json.load(open(ctx.replay))
    S = Stats()
    if "script" in payload:
        findings, digs = check_script(payload["script"])
        findings += outcome_findings(payload["script"], digs)
        for f in findings:
            report(ctx, S, dict(f, script=payload["script"]))
        print(f"replayed script: {len(findings)} finding(s)")
    elif "ztest" in payload:
        zt = payload["ztest"]
        rng = random.Random(f"C17-replay-{ctx.seed}")
        log = []
        bad = z_confirm(rng, zt["case"], zt["component"], zt["K"], log)
        if bad:
            report(ctx, S, dict(payload, detail=f"re-test with fresh keys: {log}"))
        print(f"replayed sequential test of component {zt['component']}: {'biased again' if bad else 'within the bound'}: {log}")
    elif "call" in payload and "op" in payload["call"] and payload["call"].get("routine") in ROUTINES:
        call = payload["call"]
        script = {"calls": [call], "steps": [{"user": "seed", "arg": 1}, {"user": "randn", "arg": 3}, {"call": 0, "rep": 0},
                                            {"user": "randn", "arg": 2}, {"call": 0, "rep": 1}, {"user": "randn", "arg": 2}]}
        findings, digs = check_script(script)
        findings += outcome_findings(script, digs)
        for f in findings:
            report(ctx, S, dict(f, script=script))
        print(f"replayed call: {len(findings)} finding(s)")
    else:
        print("replay file has no script; rerun the stream with VERIF_SEED =", payload.get("seed"))


def run(ctx):
    if ctx.replay:
        return replay(ctx)
    quick = not ctx.thorough
    # 1. regenerate the table from the imported cola package
    import scan_rng_sites
    scan_rng_sites.selftest()
    model = scan_rng_sites.scan()
    changed = scan_rng_sites.write(model)
    lib = [r for r in model["routines"] if r["scope"] == "library"]
    table_sites = {s["loc"] for r in model["routines"] for s in r["sites"]}
    static_bad = [(r["name"], s["loc"], s["what"]) for r in lib for s in r["sites"]
                  if s["prim"] == "globalDraw" or s["keySrc"] == "opaque"]
    static_bad += [("np_fns.randn", "cola/backends/np_fns.py", f"body {model['randnBody']}")] \
        if model["randnBody"] != ["fallbackConst", "saveState", "seedKey", "draw", "restoreState", "return"] else []

    # 2. the Lean gate in the background
    gate_box = {}

    def gate_thread():
        try:
            gate_box["gate"] = common.lean_gate(ctx, MODULE)
        except common.LeanGateError as ex:
            gate_box["error"] = str(ex)
        except Exception as ex:   # machinery
            gate_box["crash"] = traceback.format_exc() + str(ex)

    th = threading.Thread(target=gate_thread)
    th.start()

    # 3. streams
    load_cola()
    trace = Trace()
    L.trace = trace
    trace.install()
    S = Stats()
    rng = random.Random(ctx.seed)
    cov = {k: 0 for k in ("diag_exact_cases", "diag_exact_bitwise", "cap_cases", "cap_hit", "cap_zero_cases", "bad_keys_refused",
                          "exhaustive_cases", "exhaustive_full", "exhaustive_stopped_early", "lean_cases", "lean_offdiag", "loop_cases")}
    cov["tol_refused"] = True
    t0 = time.time()
    try:
        stream_scripts(ctx, S, rng, 200 if quick else 5300, trace)   # round 2: 21 entry points instead of 16, same number of calls per routine
        t1 = time.time()
        stream_diag_exact(ctx, S, rng, 150 if quick else 5000, cov)
        stream_cap(ctx, S, rng, 200 if quick else 8000, cov)
        stream_exhaustive(ctx, S, rng, 30 if quick else 600, cov)
        t2 = time.time()
        stream_lean(ctx, S, rng, 120 if quick else 5000, cov)
        t3 = time.time()
        stream_ztest(ctx, S, cov, 64 if quick else 240)
        t4 = time.time()
    finally:
        trace.uninstall()

    # (T) dynamic sites are table sites
    unknown = sorted(set(trace.sites) - table_sites)
    for loc in unknown:
        report(ctx, S, {"kind": "draw-site-missing-from-table", "detail": f"np_fns.randn was called from {loc}, which the AST scan did not list",
                        "no_replay": True})

    th.join()
    if "crash" in gate_box:
        raise RuntimeError(gate_box["crash"])
    gate = gate_box.get("gate")
    if gate is None:
        # the proofs no longer check (typically: the regenerated table changed).  The streams above were the search
        # for a failing input; if they found none, say so.
        print("LEAN GATE FAILED:\n" + gate_box.get("error", "")[-1500:], flush=True)
        if not ctx.violations:
            for f in S.key_insensitive[:MAX_VIOLATION_LINES]:
                report(ctx, S, f)
        if not ctx.violations:
            common.violation(ctx, {"broken": "Lean gate", "error": gate_box.get("error", "")[-3000:], "static_findings": static_bad,
                                   "table_changed": changed}, no_input=True)
    elif gate.get("bad_axioms"):
        common.violation(ctx, {"broken": "axioms", "bad": gate["bad_axioms"]}, no_input=True)

    # (T') which entries of the generated table were EXECUTED in this run (dynamic trace: callers of np_fns.randn and of
    # np.random.default_rng inside cola), and which were not
    seen = dict(trace.sites)
    seen.update(trace.local_sites)
    site_rows = [{"routine": r["name"], "site": s_["label"], "loc": s_["loc"], "prim": s_["prim"], "calls": seen.get(s_["loc"], 0)}
                 for r in lib for s_ in r["sites"]]
    executed = [row for row in site_rows if row["calls"] > 0]
    not_executed = [dict(row, reason=REASON_NOT_EXECUTED.get(row["loc"], "no entry point of harness/props/c17.py reached this site in this run"))
                    for row in site_rows if row["calls"] == 0]
    for row in not_executed:
        print(f"NOTE C17: table site not executed in this run: {row['routine']} {row['loc']} ({row['reason']})", flush=True)
    unknown_local = sorted(loc for loc in trace.local_sites
                           if loc not in {s_["loc"] for r in model["routines"] for s_ in r["sites"] if s_["prim"] == "localGenerator"})
    for loc in unknown_local:
        report(ctx, S, {"kind": "draw-site-missing-from-table", "detail": f"np.random.default_rng was called from {loc}, which the AST scan "
                        "did not list as a local-generator site", "no_replay": True})

    unkeyed = [{"routine": r["name"], "sites": [s["loc"] for s in r["sites"] if s["prim"] == "unkeyedNormalFallbackKey0"]}
               for r in lib if any(s["prim"] == "unkeyedNormalFallbackKey0" for s in r["sites"])]
    coverage = {
        "evaluations": S.evals,
        "distinct_cases": len(S.cases),
        "distinct_nontrivial": len(S.nontrivial),
        "rule": "a case is non-trivial when the call executed at least one random-draw site (counted by a transparent wrapper "
                "around np_fns.randn; lobpcg: its local-generator site is unconditional) while the global state had been perturbed by "
                "user draws and ended the way expected_exception(call) predicts; the three cola/linalg/tbd/svrg routines that cannot run on this backend "
                "(not_executable_on_this_backend) are NOT counted, although their draw-site prefix is executed and compared; "
                "Lean-correspondence cases additionally need k != 0 or more than one iteration; exhaustive cases must have consumed all 2^n blocks",
        "samples": S.samples,
        "routines_covered": S.by_routine,
        "table_sites_library": len(site_rows),
        "table_sites_executed": executed,
        "table_sites_not_executed": not_executed,
        "local_shims_used": {
            "krylov_constraint_solve_upto_r": "operator subclass DenseWithOps supplying the attribute `ops` the routine reads (no cola operator has it: "
                                              "AttributeError on every real operator) and nullspace.eigmax (module constant None, `# TODO: fix`) := cola.linalg.eigmax",
            "slq_bwd": "called directly the way cola/utils/custom_autodiff.py's bwd() calls it (no autograd on NumPy); xnp.vjp_derivs "
                       "(NumpyNotImplementedError in cola) replaced by an entry-wise exact VJP for parameter-affine functions",
            "solve_svrg_rff": "inert stand-in module `jax` in sys.modules during the call so that the `import jax` preceding the draw succeeds; the call "
                              "then fails at cola.linalg.eigs (AttributeError) - the draw site is executed, the rest of the routine is not",
            "svrg_eigh_max / svrg_solveh": "no shim possible (the routines are written against jax.random / jax.lax): the draw precedes `import jax`; the call "
                                           "raises ModuleNotFoundError after the draw; NOT counted as executed (see not_executable_on_this_backend). For calls "
                                           "that raise, determinism is judged on the sequence of draws (site, key, sha1 of the drawn block)",
        },
        "dynamic_local_generator_sites": trace.local_sites,
        "exceptions_seen": S.exc,
        "exceptions_rule": "every call outcome is compared with expected_exception(call), an exact predicate on the input/environment: class, message "
                           "regex and position relative to the draws (svrg_*: ModuleNotFoundError 'jax' / AttributeError cola.linalg.eigs AFTER the draw; "
                           "krylov_constraint_solve_upto_r: its own convergence assertion AFTER the draws; diag(Kronecker, k != 0) and "
                           "logdet(PSD(Kronecker with a Dense factor)): AssertionError BEFORE any draw); predicted exceptions are compared between the two "
                           "occurrences with their full message; state-unchanged is checked on every path",
        "not_executable_on_this_backend": S.not_exec,
        "not_executable_rule": "routines listed here cannot run to completion on this backend for ANY argument (not_executable(call), decided on the "
                               "environment): they are not counted in `evaluations`, `distinct_cases`, `distinct_nontrivial`, `routines_covered`.  "
                               "The calls are still made: the draw-site prefix runs (site coverage), state-unchanged / same-draws are checked, and "
                               "the exception must be exactly the predicted one (else VIOLATION unpredicted-outcome)",
        "exceptions_unpredicted": S.exc_unpredicted_n,
        "exceptions_unpredicted_are": "VIOLATIONs (kind unpredicted-outcome, replay = the script containing the call)",
        "exceptions_unpredicted_first": S.exc_unpredicted,
        "operator_kinds": S.op_kinds,
        "interleavings_tried": S.interleavings,
        "key_sensitivity_checked": S.key_checked,
        "key_insensitive_calls": [{"routine": f["call"]["routine"], "op": op_skel(f["call"]["op"]), "params": f["call"]["params"]} for f in S.key_insensitive][:10],
        "user_ops_interleaved": S.user_ops,
        "sites_table_size": sum(len(r["sites"]) for r in model["routines"]),
        "sites_table_library": sum(len(r["sites"]) for r in lib),
        "library_routines_with_draws": [r["name"] for r in lib],
        "unkeyed_fallback_routines": unkeyed,
        "dynamic_sites_observed": trace.sites,
        "dynamic_sites_unkeyed": trace.unkeyed,
        "dynamic_sites_not_in_table": unknown,
        "randn_body": model["randnBody"],
        "table_changed_this_run": changed,
        "static_findings": static_bad,
        "streams": cov,
        "suppressed_violation_lines": S.suppressed,
        "timing_s": {"scripts": round(t1 - t0, 1), "diag+cap+exhaustive": round(t2 - t1, 1), "lean": round(t3 - t2, 1), "ztest": round(t4 - t3, 1)},
        # clauses this run excused that are NOT recorded in known_findings.json (must be empty; computed, not declared)
        "provisional_known": sorted(k[0] for k in ctx.known if k[0] not in common.known_clauses(ctx.prop)),
        "known_clauses_recorded": sorted(common.known_clauses(ctx.prop)),
        "trusted_base_extra": [
            "numpy.random legacy global generator: get_state/set_state round-trip the full state, seed(key) determines it (modelled abstractly as Gen.seed / Gen.draw)",
            "harness/translators/scan_rng_sites.py (AST scan; cross-checked dynamically: every observed caller of np_fns.randn / np.random.default_rng "
            "is a table site, and every library site of the table was executed - see table_sites_executed / table_sites_not_executed)",
            "local shims of harness/props/c17.py for cola/linalg/tbd (DenseWithOps.ops, nullspace.eigmax, vjp_affine, inert jax stand-in): ours, not cola's",
        ],
    }
    assumptions = [
        "IEEE rounding is outside the theorems; Rademacher-on-diagonal is bit-exact only for dyadic data (sums of equal doubles round), 1e-12 otherwise",
        "unbiasedness, the variance N V of the accumulated sum, Chebyshev's inequality P(|S_N - N diag_k| >= thr) <= N V / thr^2 (every probe law: "
        "C17_tail_chebyshev_sum / _mean, C17_variance_sum_iid, C17_columns_independent) and Hoeffding's inequality P(|S_N - N diag_k| >= thr) <= "
        "2 exp(-thr^2 / (2 N rho^2)) (Rademacher probes as coded: C17_tail_hoeffding_sign / _threshold / _sign_gaussian) are PROVED for a FIXED number N of "
        "independent probe columns; the data-dependent stopping rule (optional stopping) is covered by the sequential test only",
        "sequential test: thresholds sigma sqrt(2 N x) + c x (unchanged).  For Rademacher probes the level 2 exp(-x) of each threshold is the PROVED "
        "Hoeffding bound (fixed N); for normal probes only the Chebyshev level is proved and the sub-gamma level 2 exp(-x) is a CONTRACT; for both, the "
        "maximal form that covers the stopping rule (Ville) and hence the stated false alarm <= 1e-9 per run are a CONTRACT (textbook inequalities, "
        "not Lean theorems), and so is the independence of blocks drawn under different keys (several iterations = ONE block of iterations*bs "
        "columns in the theorems).  The proved fixed-N single-key level of every threshold actually used is computed and recorded (streams.ztest.lean_certified_*, "
        "chebyshev_*, hoeffding_*); their combination streams.ztest.stream_false_alarm_product_of_fixedN_levels additionally ASSUMES independence across keys and "
        "applies the fixed-N theorems at the stopped N (optional stopping): it is not a theorem",
        "probe laws are PROVED instances of one structure (StdEntry, Lemmas/RngLaw.lean): i.i.d. standard normal entries = Mathlib's gaussianReal 0 1 "
        "under Measure.pi (C17_unbiased_gaussian; the former hypothesis GaussianSecondMoments is theorem C17_gaussian_second_moments, from "
        "integral_id_gaussianReal, variance_id_gaussianReal, memLp_id_gaussianReal, iIndepFun_pi), sign of a standard normal as coded incl. sign(0) = 0 "
        "(C17_unbiased_sign_gaussian; gaussianReal_map_neg, nullSingletonClass_gaussianReal), two-point law (C17_unbiased_rademacher_measure). CONTRACT that "
        "remains: np.random.randn after np.random.seed(key) delivers independent N(0,1) variates (a pseudo-random generator; the sequential test's "
        "bounds are for the ideal law, distinct keys = independent samples)",
        "capPositive: max_iters >= 1 (recorded in known_findings.json; max_iters = 0 makes exactly one iteration = one product with A, as the model "
        "loop predicts - theorem C17_cap_clause_needed - and as the two max_iters = 0 loop cases of the Lean stream observe; excused only when "
        "max_iters == 0 and the product count is exactly 1)",
        "keys are integers in [0, 2^32 - 1] (numpy's seed domain); other keys raise ValueError before the state is touched (checked)",
        "exceptions raised INSIDE np_fns.randn after np.random.seed(key) (e.g. negative shapes) would leave the state seeded; not reachable through the routines with valid operators",
    ]
    common.write_evidence(ctx, gate, coverage, assumptions)
    print(f"C17 {ctx.tier} seed={ctx.seed}: {S.evals} evaluations, {len(S.nontrivial)} distinct non-trivial, {S.interleavings} interleavings, "
          f"{len(trace.sites)} dynamic sites (all in table: {not unknown}), z max {cov.get('ztest_max_abs_z')}, "
          f"unpredicted outcomes {S.exc_unpredicted_n}, "
          f"gate {'ok ' + str(gate['discharged']) + '/' + str(gate['obligations']) if gate else 'FAILED'}, "
          f"violations {len(ctx.violations)}, wall {ctx.wall():.1f}s", flush=True)
