"""C03 — operator algebra builds the operator of the corresponding matrix expression."""
import collections
import json
import os
import random
import warnings

import numpy as np

import build
import common
import gen
import oracle
import treecheck

warnings.simplefilter("ignore")
MODULE = "ColaVerif.Properties.C03"
CORPUS = os.path.join(common.ROOT, "harness", "corpus", "c03.jsonl")

SCAL_KINDS = ["pyint", "pyfloat", "pycomplex", "npscalar", "arr0"]


class ExGen:
    def __init__(self, rng, G, malformed_p=0.08):
        self.rng = rng
        self.G = G
        self.malformed_p = malformed_p

    def scal(self, for_div=False):
        rng = self.rng
        kind = rng.choice(SCAL_KINDS)
        if for_div:
            # divisors are powers of two (dyadic reciprocals stay exact) or +-1
            base = rng.choice([1, -1, 2, -2, 4, {"q": [1, 2]}, {"q": [-1, 2]}])
            if kind == "pycomplex":
                v = rng.choice([[0, 1], [0, -1], [1, 0], [2, 0], [0, 2]])
            else:
                v = base
            if kind == "pyint" and isinstance(v, dict):
                kind = "pyfloat"
        else:
            if kind == "pycomplex" or (kind in ("npscalar", "arr0") and rng.random() < 0.3):
                v = [rng.randint(-2, 2), rng.randint(-2, 2)]
            elif kind == "pyint":
                v = rng.choice([0, 1, -1, 2, -2, 3])
            else:
                v = rng.choice([0, 1, -1, 2, -3, {"q": [1, 2]}, {"q": [-3, 4]}])
        cplx = isinstance(v, list) and kind in ("pycomplex", "npscalar", "arr0")
        if kind == "pycomplex" and not isinstance(v, list):
            v = [v, 0]
            cplx = True
        if kind in ("pyint", "pyfloat") and isinstance(v, list):
            v = v[0]
        return {"v": v, "inv": self.inv(v), "kind": kind, "cplx": bool(cplx)}

    @staticmethod
    def inv(v):
        from fractions import Fraction

        def fr(x):
            return Fraction(x["q"][0], x["q"][1]) if isinstance(x, dict) else Fraction(x)

        def q(f):
            return int(f) if f.denominator == 1 else {"q": [f.numerator, f.denominator]}
        if isinstance(v, list):
            a, b = fr(v[0]), fr(v[1])
            d = a * a + b * b
            if d == 0:
                return 0
            return [q(a / d), q(-b / d)]
        f = fr(v)
        return 0 if f == 0 else q(1 / f)

    def leaf(self, r, c):
        rng = self.rng
        if rng.random() < 0.25:
            dt = self.G.dt()
            if rng.random() < 0.15:
                return ["arr", dt, r, c, [[0] * c for _ in range(r)]]      # an all-zero array (x + 0-like operands)
            return ["arr", dt, r, c, self.G.mat(dt, r, c)]
        return ["op", self.G.op(r, c, rng.choice([0, 0, 1, 1, 2]))]

    @staticmethod
    def yields_arr(e):
        """Python mirror of `Ex.yieldsArr` (Model/Expr.lean): the expression is computed by NumPy alone"""
        t = e[0]
        if t == "op":
            return False
        if t == "arr":
            return True
        if t in ("add", "sub"):
            return ExGen.yields_arr(e[1]) and ExGen.yields_arr(e[2])
        if t in ("neg", "addz"):
            return ExGen.yields_arr(e[1])
        if t == "smul":
            return ExGen.yields_arr(e[2])
        if t in ("muls", "divs"):
            return ExGen.yields_arr(e[1])
        if t == "sdiv":
            return ExGen.yields_arr(e[2])
        if t == "matmul":
            return ExGen.yields_arr(e[1]) or ExGen.yields_arr(e[2])
        if t == "sumlist":
            return all(ExGen.yields_arr(x) for x in e[1:])
        if t == "densify":
            return True
        return False

    def shape_bad(self, r, c):
        rng = self.rng
        return (r + rng.choice([1, 2]), c) if rng.random() < 0.5 else (r, c + rng.choice([1, 2]))

    def ex(self, r, c, depth):
        rng = self.rng
        if depth <= 0 or rng.random() < 0.2:
            return self.leaf(r, c)
        d = depth - 1
        forms = ["add", "sub", "neg", "smul", "muls", "divs", "addz", "matmul", "kron", "sumlist", "lazify", "nodispatch"]
        if r == c:
            forms += ["kronsum", "sdiv"]
        forms += ["bdiag"]
        f = rng.choice(forms)
        bad = rng.random() < self.malformed_p
        if f in ("add", "sub"):
            r2, c2 = self.shape_bad(r, c) if bad else (r, c)
            x, y = self.ex(r, c, d), self.ex(r2, c2, d)
            if bad and self.yields_arr(x) and self.yields_arr(y) and (r == r2 or 1 in (r, r2)) and (c == c2 or 1 in (c, c2)):
                # two plain arrays of broadcastable shapes are added by NumPy alone (broadcasting); no cola code is involved
                # and the model answers `unsupported` there: keep the mismatched pair but let cola see it
                y = ["op", self.G.op(r2, c2, rng.choice([0, 1]))]
            return [f, x, y]
        if f == "neg":
            return ["neg", self.ex(r, c, d)]
        if f == "smul":
            return ["smul", self.scal(), self.ex(r, c, d)]
        if f == "muls":
            return ["muls", self.ex(r, c, d), self.scal()]
        if f == "divs":
            return ["divs", self.ex(r, c, d), self.scal(for_div=True)]
        if f == "sdiv":
            return ["sdiv", self.scal(for_div=True), ["op", self.G.op(r, r, rng.choice([0, 1]))]]
        if f == "addz":
            return ["addz", self.ex(r, c, d)]
        if f == "matmul":
            k = self.G.ext()
            k2 = k + rng.choice([1, 2]) if bad else k
            return ["matmul", self.ex(r, k, d), self.ex(k2, c, d)]
        if f == "kron":
            rs, cs = self.G.factor(r, 2), self.G.factor(c, 2)
            return ["kron", self.ex(rs[0], cs[0], d), self.ex(rs[1], cs[1], d)]
        if f == "kronsum":
            rs = self.G.factor(r, 2)
            if bad:
                return ["kronsum", self.ex(rs[0], rs[0] + 1, d), self.ex(rs[1], rs[1], d)]
            return ["kronsum", self.ex(rs[0], rs[0], d), self.ex(rs[1], rs[1], d)]
        if f == "bdiag":
            n = rng.choice([1, 2, 3])
            rs, cs = self.G.partition(r, n), self.G.partition(c, n)
            if rs is None or cs is None:
                return self.leaf(r, c)
            return ["bdiag"] + [self.ex(rs[i], cs[i], d) for i in range(n)]
        if f == "sumlist":
            n = rng.choice([1, 2, 3])
            return ["sumlist"] + [self.ex(r, c, d) for _ in range(n)]
        if f == "lazify":
            return ["lazify", self.ex(r, c, d)]
        if f == "nodispatch":
            return ["nodispatch", ["op", self.G.op(r, c, rng.choice([0, 1]))]]
        raise AssertionError(f)


def pyscal(s, ctx_dt="f64"):
    from fractions import Fraction

    def fq(x):
        return x["q"][0] / x["q"][1] if isinstance(x, dict) else x
    v = s["v"]
    k = s["kind"]
    if isinstance(v, list):
        val = complex(fq(v[0]), fq(v[1]))
    else:
        val = fq(v)
    if k == "pyint":
        return int(val)
    if k == "pyfloat":
        return float(val)
    if k == "pycomplex":
        return complex(val)
    if k == "npscalar":
        return np.complex128(val) if s.get("cplx") else np.float64(val)
    return np.array(complex(val) if s.get("cplx") else float(val))


def real_eval(e, B):
    import cola
    t = e[0]
    if t == "op":
        return B.build(e[1])
    if t == "arr":
        return build.arr(e[4], e[1], (e[2], e[3]))
    if t == "add":
        return real_eval(e[1], B) + real_eval(e[2], B)
    if t == "sub":
        return real_eval(e[1], B) - real_eval(e[2], B)
    if t == "neg":
        return -real_eval(e[1], B)
    if t == "smul":
        return pyscal(e[1]) * real_eval(e[2], B)
    if t == "muls":
        return real_eval(e[1], B) * pyscal(e[2])
    if t == "divs":
        return real_eval(e[1], B) / pyscal(e[2])
    if t == "sdiv":
        return pyscal(e[1]) / real_eval(e[2], B)
    if t == "addz":
        return real_eval(e[1], B) + 0
    if t == "matmul":
        return real_eval(e[1], B) @ real_eval(e[2], B)
    if t == "kron":
        return cola.kron(real_eval(e[1], B), real_eval(e[2], B))
    if t == "kronsum":
        return cola.kronsum(real_eval(e[1], B), real_eval(e[2], B))
    if t == "bdiag":
        return cola.block_diag(*[real_eval(x, B) for x in e[1:]])
    if t == "sumlist":
        return sum([real_eval(x, B) for x in e[1:]])
    if t == "lazify":
        return cola.lazify(real_eval(e[1], B))
    if t == "densify":
        return cola.densify(real_eval(e[1], B))
    if t == "nodispatch":
        return cola.fns.no_dispatch(real_eval(e[1], B))
    raise ValueError(t)


def observe_real(e):
    import cola
    try:
        r = real_eval(e, build.Builder())
        if isinstance(r, cola.ops.LinearOperator):
            M = np.asarray(r.to_dense())
            return {"kind": "op", "rows": int(r.shape[0]), "cols": int(r.shape[1]), "dtype": build.dtname(r.dtype),
                    "value": build.exact_mat(M), "skel": treecheck.skel(r), "anns": treecheck.ann_list(r),
                    "alias_gap": treecheck.alias_gap(r)}
        M = np.asarray(r)
        if M.ndim != 2:
            return {"kind": "array%d" % M.ndim}
        return {"kind": "arr", "rows": int(M.shape[0]), "cols": int(M.shape[1]), "dtype": build.dtname(M.dtype),
                "value": build.exact_mat(M)}
    except Exception as ex:  # noqa: BLE001
        return {"kind": "err", "value": treecheck.err_class(ex), "msg": str(ex)[:160]}


def subtags(e):
    out = [e[0]]
    for x in e[1:]:
        if isinstance(x, list) and x and isinstance(x[0], str) and e[0] not in ("op", "arr"):
            out += subtags(x)
    return out


def has_sdiv(e):
    return "sdiv" in subtags(e)


def scal_kinds(e):
    out = []
    if e[0] in ("op", "arr"):
        return out
    for x in e[1:]:
        if isinstance(x, dict) and "kind" in x:
            out.append(x)
        elif isinstance(x, list) and x and isinstance(x[0], str):
            out += scal_kinds(x)
    return out


def leaf_dts(e):
    if e[0] == "op":
        return treecheck.leaf_dtypes(e[1])
    if e[0] == "arr":
        return [e[1]]
    out = []
    for x in e[1:]:
        if isinstance(x, list) and x and isinstance(x[0], str):
            out += leaf_dts(x)
    return out


def div_exponent(e):
    """total power of two that clears the denominators introduced by the scalars of e"""
    tot = 0
    for s in scal_kinds(e):
        for v in (s["v"], s["inv"]):
            vs = v if isinstance(v, list) else [v]
            for x in vs:
                if isinstance(x, dict):
                    tot += max(1, x["q"][1].bit_length() - 1)
    return tot


# ------------------------------------------------------------------------------------------ sub-expressions, c / A oracle
def ex_children(e):
    if e[0] in ("op", "arr"):
        return []
    return [x for x in e[1:] if isinstance(x, list) and x and isinstance(x[0], str)]


def ex_subexprs(e):
    """the sub-expressions of e (operator leaves are not entered), children before parents, without repetitions"""
    out, seen = [], set()

    def walk(x):
        for y in ex_children(x):
            walk(y)
        k = common.canon(x)
        if k not in seen:
            seen.add(k)
            out.append(x)
    walk(e)
    return out


def _fr(x):
    from fractions import Fraction
    if isinstance(x, dict):
        return Fraction(x["q"][0], x["q"][1])
    if isinstance(x, str):
        n, d = x.split("/")
        return Fraction(int(n), int(d))
    return Fraction(x)


def _zq(z):
    """scalar of the case language / entry of a driver matrix -> (re, im) as Fractions"""
    if isinstance(z, list):
        return (_fr(z[0]), _fr(z[1]))
    return (_fr(z), _fr(0))


def _zmul(a, b):
    return (a[0] * b[0] - a[1] * b[1], a[0] * b[1] + a[1] * b[0])


def _zinv(a):
    d = a[0] * a[0] + a[1] * a[1]
    return (a[0] / d, -a[1] / d)


def _zjson(a):
    def q(f):
        return int(f) if f.denominator == 1 else {"q": [f.numerator, f.denominator]}
    return [q(a[0]), q(a[1])]


def ginv(M):
    """exact inverse of a square matrix of Gaussian rationals (Gauss-Jordan over Q[i]); None if singular"""
    from fractions import Fraction
    n = len(M)
    zero, one = (Fraction(0), Fraction(0)), (Fraction(1), Fraction(0))
    A = [list(row) + [one if i == j else zero for j in range(n)] for i, row in enumerate(M)]
    for col in range(n):
        piv = next((r for r in range(col, n) if A[r][col] != zero), None)
        if piv is None:
            return None
        A[col], A[piv] = A[piv], A[col]
        iv = _zinv(A[col][col])
        A[col] = [_zmul(iv, v) for v in A[col]]
        for r in range(n):
            if r != col and A[r][col] != zero:
                f = A[r][col]
                A[r] = [(v[0] - _zmul(f, w)[0], v[1] - _zmul(f, w)[1]) for v, w in zip(A[r], A[col])]
    return [row[n:] for row in A]


def _is_scalar_over_op(c, A, M):
    """Ex.IsScalarOverOp n c A M (Lemmas/ExprSdiv.lean), exactly over Q[i]: M A = c 1 and A M = c 1"""
    from fractions import Fraction
    n = len(A)
    zero = (Fraction(0), Fraction(0))

    def mm(X, Y):
        out = []
        for i in range(n):
            row = []
            for j in range(n):
                s = zero
                for q in range(n):
                    p = _zmul(X[i][q], Y[q][j])
                    s = (s[0] + p[0], s[1] + p[1])
                row.append(s)
            out.append(row)
        return out
    want = [[c if i == j else zero for j in range(n)] for i in range(n)]
    return mm(M, A) == want and mm(A, M) == want


UNDEF = ["undef"]


def has_undef(e):
    return e[0] == "undef" or any(has_undef(x) for x in ex_children(e))


def sdiv_oracle(exprs, run_driver):
    """`c / A` means c * inverse(A).  Returns, for every expression, the expression with each `sdiv c x` node replaced by a
    leaf holding the EXACT matrix c * inverse(meaning x) (Gauss-Jordan over the Gaussian rationals; the meaning of x is asked
    from the Lean specification) -- an `["undef"]` leaf where x has no meaning, is not square or is singular.  The Lean
    specification of the rewritten expression is then the matrix expression the property text means, also above the
    quotient; nothing here looks at what cola or the code model return."""
    cur = list(exprs)
    for _ in range(8):
        inner = {}

        def collect(x):
            kids = ex_children(x)
            for y in kids:
                collect(y)
            if x[0] == "sdiv" and not has_sdiv(x[2]) and not has_undef(x[2]):
                inner.setdefault(common.canon(x), x)
        for e in cur:
            if has_sdiv(e):
                collect(e)
        if not inner:
            break
        keys = list(inner)
        ans = run_driver([{"id": i, "call": "expr", "ex": inner[k][2]} for i, k in enumerate(keys)])
        table = {}
        for i, k in enumerate(keys):
            sp = (ans.get(i) or {}).get("spec") or {}
            rep = UNDEF
            if sp.get("kind") == "mat" and sp["rows"] == sp["cols"]:
                inv = ginv([[_zq(z) for z in row] for row in sp["value"]])
                if inv is not None:
                    c = _zq(inner[k][1]["v"])
                    # the substituted matrix M = c * inverse(A) must satisfy the Lean specification of `c / A`
                    # (Ex.IsScalarOverOp, Lemmas/ExprSdiv.lean: M A = c 1 = A M), checked exactly on every oracle value
                    A_ = [[_zq(z) for z in row] for row in sp["value"]]
                    M_ = [[_zmul(c, z) for z in row] for row in inv]
                    if not _is_scalar_over_op(c, A_, M_):
                        raise AssertionError("sdiv_oracle: c * inverse(A) violates Ex.IsScalarOverOp")
                    val = [[_zjson(_zmul(c, z)) for z in row] for row in inv]
                    n = sp["rows"]
                    rep = ["arr", sp["dtype"], n, n, val] if sp.get("isarr") else ["op", ["dense", sp["dtype"], n, n, val]]
            table[k] = rep

        def replace(x):
            if x[0] in ("op", "arr", "undef"):
                return x
            k = common.canon(x)
            if k in table:
                return table[k]
            return [x[0]] + [replace(y) if isinstance(y, list) and y and isinstance(y[0], str) else y for y in x[1:]]
        cur = [replace(e) if has_sdiv(e) else e for e in cur]
    # an sdiv that could not be resolved (operand itself undefined) is undefined
    def close(x):
        if x[0] in ("op", "arr", "undef"):
            return x
        if x[0] == "sdiv":
            return UNDEF
        return [x[0]] + [close(y) if isinstance(y, list) and y and isinstance(y[0], str) else y for y in x[1:]]
    return [close(e) if has_sdiv(e) else e for e in cur]


def spec_agrees(obs, spec):
    """does an observation (code-model or real result) agree with the specification on kind, shape, entries, dtype?"""
    if spec["kind"] == "undefined":
        return False
    if spec["kind"] == "none":
        return obs["kind"] == "err"
    want_kind = "arr" if spec.get("isarr") else "op"
    return obs["kind"] == want_kind and all(obs.get(k) == spec[k] for k in ("rows", "cols", "value", "dtype"))


def classify(e, ans, real):
    if "error" in ans:
        return "driver-error", ans["error"]
    code, spec = ans["code"], ans["spec"]
    ab = code.get("absbound", 0)
    if isinstance(ab, str):
        n, d = ab.split("/")
        ab = int(n) / int(d)
    bound = treecheck.F32_BOUND if any(d in ("f32", "c64") for d in leaf_dts(e)) else treecheck.F64_BOUND
    if ab * (2 ** (2 * div_exponent(e))) >= bound:
        return "inexact", ""
    # the named clauses the expression runs into come from the Lean side (`Ex.clauses`: a `c / A` node; a node where
    # `mul(A, c)` meets a complex scalar and a real-dtype operator) -- the hypotheses of C03_sound_partial, decided exactly
    clauses = list(ans.get("clauses", []))
    if has_sdiv(e) != ("scalar-divided-by-operator" in clauses):
        return "driver-error", "clause list of the driver disagrees with the expression (sdiv)"
    # real vs code
    if code["kind"] == "err" and code["value"] == "unsupported" and real["kind"] != "err":
        # a form the model explicitly does not cover (plain NumPy broadcasting of two arrays, scalar / array, ...); the
        # generator never produces one, the shrinker may
        return "skipped", "form outside the model"
    if code["kind"] == "err":
        rc = real["kind"] == "err" and (real["value"] == code["value"] or code["value"] == "unsupported")
    else:
        keys = [k for k in ("kind", "rows", "cols", "dtype", "value", "skel", "anns") if k in code]
        if real.get("alias_gap"):
            # equal-but-distinct Python objects in a Gram pattern: outside the model's identity assumption, the inferred
            # annotations (and only they) are not compared (see treecheck.alias_gap)
            keys = [k for k in keys if k not in ("skel", "anns")]
            if all(real.get(k) == code[k] for k in keys) and (real.get("skel") != code.get("skel") or real.get("anns") != code.get("anns")):
                return "skipped", "identity assumption of the model (equal but distinct objects in a Gram pattern)"
        rc = all(real.get(k) == code[k] for k in keys)
    # code vs spec: shape, entries, dtype and array-versus-operator against the INDEPENDENT specification (`Ex.meaning`,
    # `Ex.dtypeSpec`, `Ex.yieldsArr`); for an expression with a `c / A` node the specification is that of the expression with
    # the node replaced by the exact matrix c * inverse(A) (`sdiv_oracle`; "undefined" where A is singular), so a quotient is
    # compared like everything else: it agrees in the coincidence cases A * (1/c) = c * inverse(A) and differs otherwise
    if has_sdiv(e):
        if "oracle_spec" not in ans:
            return "driver-error", "no oracle specification for an expression with a c / A node"
        spec = ans["oracle_spec"]
    cs = spec_agrees(code, spec)
    rs = spec_agrees(real, spec)
    if rc:
        return ("ok", "") if cs else ("known?", clauses)
    if rs:
        return "stale-model", "real agrees with the matrix expression but not with the code model"
    why = []
    if real["kind"] != "err" and spec["kind"] == "mat":
        bad = [k for k in ("rows", "cols", "value", "dtype") if real.get(k) != spec[k]]
        if real["kind"] != ("arr" if spec.get("isarr") else "op"):
            bad.append("kind")
        if bad:
            why.append("differs from the matrix expression on " + ", ".join(bad))
    if real["kind"] == "err":
        why.append(f"raised {real['value']}: {real.get('msg', '')}")
    elif spec["kind"] == "none":
        why.append("shape-mismatched operands produced an operator instead of an error")
    elif spec["kind"] == "undefined":
        why.append("c / A with a singular A has no value, the code returned one")
    else:
        why.append("result differs from the matrix expression")
    return "violation", "; ".join(why)


def shrink(e, fails):
    cur = e
    for _ in range(30):
        cands = []
        if cur[0] not in ("op", "arr"):
            for x in cur[1:]:
                if isinstance(x, list) and x and isinstance(x[0], str):
                    cands.append(x)
            for i, x in enumerate(cur):
                if i and isinstance(x, list) and x and isinstance(x[0], str) and x[0] not in ("op", "arr"):
                    for y in x[1:]:
                        if isinstance(y, list) and y and isinstance(y[0], str):
                            cands.append(cur[:i] + [y] + cur[i + 1:])
        elif cur[0] == "op":
            cands += [["op", s] for s in treecheck.shrink_candidates(cur[1])]
        nxt = fails(cands)
        if nxt is None:
            break
        cur = nxt
    return cur


def neighbours(e, G, k=16):
    """variants of an expression with the same form: operator leaves varied as in treecheck.neighbours, plain arrays with
    another dtype (same or fresh payload) or another shape class"""
    rng = G.rng

    def vary(x):
        t = x[0]
        if t == "op":
            vs = treecheck.neighbours(x[1], G, k=1)
            return ["op", vs[0]] if vs and rng.random() < 0.7 else x
        if t == "arr":
            r = rng.random()
            dt = rng.choice(gen.DTYPES)
            if r < 0.4:
                cplx_payload = any(isinstance(v, list) and v[1] != 0 for row in x[4] for v in row)
                if cplx_payload and dt in ("f32", "f64"):
                    dt = "c128"
                return ["arr", dt, x[2], x[3], x[4]]           # same entries, other dtype
            if r < 0.7:
                return ["arr", dt, x[2], x[3], G.mat(dt, x[2], x[3])]
            return x
        return [t] + [vary(y) if isinstance(y, list) and y and isinstance(y[0], str) else y for y in x[1:]]
    out, seen = [], {common.canon(e)}
    for _ in range(4 * k):
        v = vary(e)
        key = common.canon(v)
        if key not in seen:
            seen.add(key)
            out.append(v)
        if len(out) >= k:
            break
    return out


def run(ctx):
    gate, gate_err = None, None
    try:
        gate = common.lean_gate(ctx, MODULE)
    except common.LeanGateError as ex:
        gate_err = str(ex)
    rng = random.Random(ctx.seed * 104729 + 3)
    G = gen.Gen(rng, max_extent=3 if not ctx.thorough else 4, vmax=2, arr_index=False)
    EG = ExGen(rng, G)
    known = common.known_clauses(ctx.prop)
    stats, forms, scal_hist = collections.Counter(), collections.Counter(), collections.Counter()
    distinct, samples = set(), []
    attributed_hist = collections.Counter()

    def evaluate(exprs):
        cases = [{"id": i, "call": "expr", "ex": e} for i, e in enumerate(exprs)]
        ans = oracle.run_driver(cases)
        # the specification of an expression with `c / A` nodes: Lean's specification of the expression with every such
        # node replaced by the exact matrix c * inverse(A)
        idx = [i for i, e in enumerate(exprs) if has_sdiv(e)]
        if idx:
            rew = sdiv_oracle([exprs[i] for i in idx], oracle.run_driver)
            todo = [(i, r) for i, r in zip(idx, rew) if not has_undef(r)]
            a2 = oracle.run_driver([{"id": n, "call": "expr", "ex": r} for n, (i, r) in enumerate(todo)]) if todo else {}
            for n, (i, r) in enumerate(todo):
                sp = (a2.get(n) or {}).get("spec")
                if sp is not None and i in ans and "error" not in ans[i]:
                    ans[i]["oracle_spec"] = sp
            for i, r in zip(idx, rew):
                if has_undef(r) and i in ans and "error" not in ans[i]:
                    ans[i]["oracle_spec"] = {"kind": "undefined"}
            stats["oracle_specs"] += len(idx)
        out = []
        for c in cases:
            a = ans.get(c["id"], {"error": "no answer"})
            real = observe_real(c["ex"])
            st, det = classify(c["ex"], a, real)
            out.append((c["ex"], a, real, st, det))
        return out

    def attribute(e, table):
        """A recorded clause explains `real = code != matrix expression` on e only at the sub-expression where code model and
        matrix expression FIRST differ (children before parents), and only if that node is an instance of the clause's
        decidable predicate (`Ex.rootClauses`: the node is a `c / A`; the node multiplies / divides a real-dtype operator by a
        complex scalar) and the real code returns there what the model says.  -> (clauses, unexplained-or-None, nodes)"""
        clauses, nodes = [], []
        for d in ex_subexprs(e):
            rec = table.get(common.canon(d))
            if rec is None:
                return clauses, f"sub-expression not evaluated: {json.dumps(d)[:200]}", nodes
            (_, a, real, st, det) = rec
            if st in ("violation", "stale-model"):
                return clauses, f"on the sub-expression {json.dumps(d)[:300]} the real code leaves the code model: {det}", nodes
            if st != "known?":
                continue            # agrees (or is itself not comparable: then its parent has to explain itself)
            kids = [table.get(common.canon(y)) for y in ex_children(d)]
            if any(k is not None and k[3] == "known?" for k in kids):
                continue            # the difference is already there in an operand
            rc = list(a.get("rootClauses", []))
            if not rc:
                return clauses, ("code model and matrix expression first differ at the sub-expression "
                                 f"{json.dumps(d)[:300]}, which is an instance of no recorded clause"), nodes
            nodes.append({"node": d[0], "clauses": rc})
            clauses += [c for c in rc if c not in clauses]
        if not nodes:
            return clauses, "no sub-expression at which the difference first appears was found", nodes
        return clauses, None, nodes

    if ctx.replay:
        rp = json.load(open(ctx.replay))
        exprs = [rp["expr"]]
    else:
        exprs = []
        if os.path.exists(CORPUS):
            exprs += [json.loads(l) for l in open(CORPUS) if l.strip()]
        n = 600 if not ctx.thorough else 12000
        for _ in range(n):
            if rng.random() < 0.2:
                # expressions around a special operator (3-4 factor Kronecker products of pairwise different non-square
                # extents, BlockDiag with multiplicities, complex Hermitian composites, wrapped Gram products) and
                # Kronecker products assembled by the algebra itself (flattening of nested cola.kron calls)
                form = rng.choice(["axpy", "matarr", "arrmat", "densify", "kron", "sub", "scaled", "kron3", "kron3", "opop"])
                if form == "kron3":
                    pool = [(1, 2), (2, 1), (2, 3), (3, 2), (1, 3), (3, 1), (2, 2)]
                    dims = rng.sample(pool, rng.choice([3, 3, 4]))
                    while max(np.prod([d[0] for d in dims]), np.prod([d[1] for d in dims])) > 36:
                        dims = rng.sample(pool, 3)
                    leaves = [EG.leaf(a, b) for a, b in dims]
                    K = leaves[0]
                    for L in leaves[1:]:
                        K = ["kron", K, L] if rng.random() < 0.6 else ["kron", L, K]
                    C = int(np.prod([gen.shape_of(x[1])[1] if x[0] == "op" else x[3] for x in leaves]))
                    R = int(np.prod([gen.shape_of(x[1])[0] if x[0] == "op" else x[2] for x in leaves]))
                    w = rng.choice(["matarr", "arrmat", "axpy", "neg", "plain"])
                    dt = G.dt()
                    if w == "matarr":
                        exprs.append(["matmul", K, ["arr", dt, C, 2, G.mat(dt, C, 2)]])
                    elif w == "arrmat":
                        exprs.append(["matmul", ["arr", dt, 2, R, G.mat(dt, 2, R)], K])
                    elif w == "axpy":
                        exprs.append(["densify", ["add", ["smul", EG.scal(), K], K]])
                    elif w == "neg":
                        exprs.append(["densify", ["neg", K]])
                    else:
                        exprs.append(K)
                    continue
                S = G.special(rng.choice([1, 2]))
                r, c = gen.shape_of(S)
                if form == "axpy":
                    exprs.append(["add", ["smul", EG.scal(), ["op", S]], ["op", S]])
                elif form == "matarr":
                    dt = G.dt()
                    exprs.append(["matmul", ["op", S], ["arr", dt, c, 2, G.mat(dt, c, 2)]])
                elif form == "arrmat":
                    dt = G.dt()
                    exprs.append(["matmul", ["arr", dt, 2, r, G.mat(dt, 2, r)], ["op", S]])
                elif form == "densify":
                    exprs.append(["densify", ["add", ["op", S], ["op", S]]])
                elif form == "kron":
                    exprs.append(["kron", ["op", S], EG.leaf(rng.choice([1, 2]), rng.choice([1, 2]))])
                elif form == "sub":
                    exprs.append(["sub", ["op", S], EG.leaf(r, c)])
                elif form == "opop":
                    exprs.append(["matmul", ["op", S], EG.leaf(c, rng.choice([1, 2, 3]))] if rng.random() < 0.5
                                 else ["matmul", EG.leaf(rng.choice([1, 2, 3]), r), ["op", S]])
                else:
                    exprs.append(["muls", ["matmul", ["op", S], EG.leaf(c, rng.choice([1, 2]))], EG.scal()])
                continue
            r, c = rng.choice([(1, 1), (2, 2), (2, 2), (3, 3), (2, 3), (3, 2), (1, 3), (4, 4), (2, 4), (3, 1)])
            exprs.append(EG.ex(r, c, rng.choice([1, 2, 2, 3, 3, 4])))
    not_compared = collections.Counter()
    for i in range(0, len(exprs), 500):
        results = evaluate(exprs[i:i + 500])
        # per-sub-expression attribution of the `real = code != matrix expression` outcomes: all their sub-expressions are
        # evaluated (code model, specification with the c / A oracle, real code) in one further batch
        pending = [e for (e, a, real, st, det) in results if st == "known?"]
        table = {}
        if pending:
            subs, seen = [], set()
            for e in pending:
                for d in ex_subexprs(e):
                    k = common.canon(d)
                    if k not in seen:
                        seen.add(k)
                        subs.append(d)
            for rec in evaluate(subs):
                table[common.canon(rec[0])] = rec
            stats["attribution_subexpressions"] += len(subs)
        for (e, a, real, st, det) in results:
            stats[st if st != "known?" else "code!=spec"] += 1
            stats["evaluations"] += 1
            for t in set(subtags(e)):
                forms[t] += 1
            for s in scal_kinds(e):
                scal_hist[s["kind"]] += 1
            if st in ("ok", "known?") and len(subtags(e)) > 1:
                distinct.add(common.canon(e))
            if st == "ok" and has_sdiv(e):
                stats["quotient_coincides_with_inverse"] += 1      # A * (1/c) = c * inverse(A) on this input: no clause needed
            if st == "ok" and len(samples) < 3 and 2 < len(subtags(e)) and len(json.dumps(e)) < 700:
                samples.append({"expr": e, "model_result": {k: a["code"].get(k) for k in ("kind", "rows", "cols", "dtype", "skel")}})
            if st in ("driver-error", "skipped", "inexact"):
                not_compared[f"{st}: {str(det)[:80]}" if det else st] += 1
            if st == "known?":
                attributed, unexplained, nodes = attribute(e, table)
                unknown = [c for c in attributed if c not in known]
                if unexplained is not None or not attributed or unknown:
                    common.violation(ctx, {"expr": e, "model": a.get("code"), "spec": a.get("oracle_spec", a.get("spec")), "real": real,
                                           "clauses_in_expression": det, "attributed": nodes, "unexplained": unexplained,
                                           "why": "real = code model, but differs from the matrix expression, and no recorded finding "
                                                  "explains the difference at the sub-expression where it first appears"})
                else:
                    stats["attributed_nodes"] += len(nodes)
                    for c in attributed:
                        attributed_hist[c] += 1
                        common.known_finding(ctx, c, known[c]["what"])
            elif st == "violation":
                stats["violations_seen"] += 1
                if stats["violations_seen"] > treecheck.MAX_REPORTS:
                    continue

                def fails(cands):
                    if not cands:
                        return None
                    for (ee, aa, rr, s2, d2) in evaluate(cands):
                        if s2 == "violation":
                            return ee
                    return None
                try:
                    small = shrink(e, fails) if stats["violations_seen"] <= treecheck.MAX_SHRINKS else e
                except Exception:  # noqa: BLE001
                    small = e
                (e2, a2, r2, s2, d2) = evaluate([small])[0]
                common.violation(ctx, {"expr": small, "expected_matrix": a2.get("spec"), "real": r2, "detail": d2, "original_expr": e})
            elif st == "stale-model":
                # the real code left the code model without (on this input) contradicting the matrix expression: search the
                # neighbourhood of the input for an expression on which it does
                stats["stale_seen"] += 1
                found = None
                if stats["stale_seen"] <= treecheck.MAX_NEIGHBOURHOODS:
                    try:
                        for (ee, aa, rr, s2, d2) in evaluate(neighbours(e, G)):
                            if s2 == "violation":
                                found = (ee, aa, rr, d2)
                                break
                    except Exception as ex:  # noqa: BLE001
                        ctx.notes.append(f"neighbourhood search failed: {ex}")
                if found is not None:
                    common.violation(ctx, {"expr": found[0], "expected_matrix": found[1].get("spec"), "real": found[2], "detail": found[3],
                                           "found_near": e,
                                           "why": "found in the neighbourhood of an expression on which the real code disagrees with the code model"})
                elif stats["stale_seen"] <= treecheck.MAX_REPORTS:
                    common.violation(ctx, {"expr": e, "model": a.get("code"), "spec": a.get("spec"), "real": real,
                                           "broken": "correspondence stream of the algebra code model"}, no_input=True)
            elif st == "driver-error":
                ctx.notes.append(f"driver error: {det}")
    # cases that were NOT compared (driver errors, forms outside the model, results outside the exact range): counted with
    # their reasons; a stream of which more than 2 % is not compared -- or which did not run -- has not checked the property
    n_eval = stats["evaluations"]
    n_nc = sum(not_compared.values())
    if not ctx.replay and (n_eval == 0 or n_nc > 0.02 * n_eval):
        common.violation(ctx, {"broken": "correspondence stream of the algebra code model: too many cases were not compared",
                               "evaluations": n_eval, "not_compared": dict(not_compared.most_common(12))}, no_input=True)
    if gate_err is not None and not ctx.violations:
        common.violation(ctx, {"broken": f"Lean gate of {MODULE}", "detail": gate_err[-3000:]}, no_input=True)
    cov = {"evaluations": stats["evaluations"], "distinct_nontrivial": len(distinct), "outcomes": dict(stats),
           "not_compared": {"total": n_nc, "share": round(n_nc / max(1, n_eval), 5), "reasons": dict(not_compared.most_common(12)),
                            "limit": "more than 2 % not compared (or no case evaluated) ends the run with a VIOLATION"},
           "clauses_attributed": dict(attributed_hist),
           "expression_forms": dict(forms), "scalar_kinds": dict(scal_hist), "samples": samples,
           "rule": "random algebraic expressions (depth <= 4) over operator trees and plain arrays, all scalar kinds, ~8% shape-mismatched "
                   "operand pairs; distinct = canonical JSON of the expression; non-trivial = at least one algebraic operation",
           "compare": "exact (Gaussian-rational payloads, dyadic scalars); real vs code: values, shapes, dtypes, kind trees, annotations; "
                      "code vs spec: values, shapes, dtype (Ex.dtypeSpec) and array-vs-operator (Ex.yieldsArr); a recorded clause "
                      "explains a code/spec difference only at the sub-expression where it first appears and only if that node is an "
                      "instance of the clause (Ex.rootClauses)"}
    common.write_evidence(ctx, gate, cov, assumptions=[
        "the meaning of c / A is stated in Lean relationally (Ex.IsScalarOverOp: M A = c 1 = A M; C03_sdiv_meaning: the code's "
        "(1/c) A has it iff A A = c^2 1; witnesses C03_sdiv_coincides_witness / C03_sdiv_differs_witness), but the VALUE c * inverse(A) "
        "the stream compares with is computed by the Python oracle (sdiv_oracle: Gauss-Jordan over the Gaussian rationals, every value "
        "checked exactly against the relation Ex.IsScalarOverOp re-implemented in Python, then substituted "
        "as a leaf into the Lean specification) - the general c / A case is validated by the stream, not by a theorem about eval; where A * (1/c) happens to equal it the case is counted ok without a clause "
        "(outcome quotient_coincides_with_inverse), otherwise the recorded clause scalar-divided-by-operator is attributed at the "
        "c / A node; for a singular A the quotient has no value and the clause is attributed likewise"])
    print(json.dumps({"outcomes": dict(stats), "distinct_nontrivial": len(distinct), "gate": (gate or {}).get("obligations")}))
