"""C09 — matrix functions exp / log / sqrt / isqrt / pow / apply_unary equal f of the matrix.

Three-way comparison per case (operator tree, function, exponent, algorithm object, operand):
  real  — cola in-process: F = fn(A, alg); Y = F @ X; kind tree of F;
  code  — the rule model: the Lean driver (lean/DriverC09.lean, ColaVerif/Model/Unary.lean) returns the PLAN of
          the returned operator (which rule fires at which node, pow's shortcut decision, raising nodes) and,
          on the exact-arithmetic subset, the exact value; for the other cases the plan is evaluated in
          float64 by `eval_plan` with the base cases taken from numpy (the parameters of the theorems:
          eigh / eig / inverse), including the zero-eigenvalue mask of the Krylov operators;
  spec  — f of the dense matrix: scipy.linalg expm / logm / sqrtm / fractional_matrix_power,
          np.linalg.matrix_power / inv for integer exponents (exact ℚ[i] arithmetic on the exact subset).
Spectra are controlled by the generator (positive definite, right half plane with well-conditioned eigenvectors,
singular PSD, complex), so a relative tolerance of 1e-7 (1e-5 on the Krylov paths) separates rounding from defects.
"""
import collections
import json
import random
import warnings
from fractions import Fraction

import numpy as np
import scipy.linalg as sl

import build
import common
import oracle
import treecheck

warnings.simplefilter("ignore")

MODULE = "ColaVerif.Properties.C09"
DRIVER = "DriverC09.lean"

# ---- no provisional clauses: the recorded findings come from /verif/known_findings.json (common.known_clauses).
# The earlier clauses krylov-zero-mask and pow-neg-one-krylov-alg were repaired in /repo (a523921, 57e439f).
PROVISIONAL_KNOWN = {}

EXPONENTS = [Fraction(-2), Fraction(-1), Fraction(-1, 2), Fraction(0), Fraction(1, 2), Fraction(1), Fraction(2), Fraction(3),
             Fraction(9), Fraction(10), Fraction(5, 2)]
ALGS = ["none", "auto", "eigh", "eig", "lanczos", "arnoldi"]
TOL_DENSE = 1e-7
TOL_KRYLOV = 1e-5

KIND = dict(treecheck.KIND)
KIND.update({"LanczosUnary": "LanczosUnary", "ArnoldiUnary": "ArnoldiUnary", "TriangularInv": "TriangularInv",
             "CGInverse": "CGInverse", "GMRESInverse": "GMRESInverse", "LUInverse": "LUInverse", "CholeskyInverse": "CholeskyInverse"})


# ------------------------------------------------------------------------------------------------ helpers
def kinds(op):
    """kind tree of a real operator, kinds only"""
    name = type(op).__name__.split("[")[0]
    k = KIND.get(name, "?" + name)
    kids = []
    if k in ("prod", "sum", "kron", "kronsum", "bdiag", "concat"):
        kids = list(op.Ms)
    elif k in ("T", "H", "slice"):
        kids = [op.A]
    return [k] + [kinds(x) for x in kids]


def strip_anns(sk):
    """driver skeleton [kind, anns, kids...] -> [kind, kids...]"""
    return [sk[0]] + [strip_anns(x) for x in sk[2:]]


def stub(e):
    """the tree with float payloads replaced by 0 (rule selection never looks at payload values; the exact
    stream sends its integer payloads unchanged)"""
    t = e[0]
    if t == "dense":
        return ["dense", e[1], e[2], e[3], [[0] * e[3] for _ in range(e[2])]]
    if t == "diag":
        return ["diag", e[1], [0] * len(e[2])]
    if t == "scalar":
        return ["scalar", e[1], 0, e[3]]
    if t in ("prod", "sum", "kron", "kronsum"):
        return [t] + [stub(x) for x in e[1:]]
    if t == "bdiag":
        return ["bdiag", [stub(x) for x in e[1]], e[2]]
    if t in ("T", "H"):
        return [t, stub(e[1])]
    if t == "ann":
        return ["ann", e[1], stub(e[2])]
    return e


def is_exact_tree(e):
    """all payloads are ints / exact rationals (then the tree goes to Lean unchanged)"""
    def okv(v):
        if isinstance(v, list):
            return all(okv(x) for x in v)
        if isinstance(v, dict):
            return True
        return isinstance(v, int) and not isinstance(v, bool)
    t = e[0]
    if t == "dense":
        return okv(e[4])
    if t == "diag":
        return okv(e[2])
    if t == "scalar":
        return okv(e[2])
    if t in ("prod", "sum", "kron", "kronsum"):
        return all(is_exact_tree(x) for x in e[1:])
    if t == "bdiag":
        return all(is_exact_tree(x) for x in e[1])
    if t in ("T", "H"):
        return is_exact_tree(e[1])
    if t == "ann":
        return is_exact_tree(e[2])
    return True


def size_of(e):
    t = e[0]
    if t == "dense":
        return e[2]
    if t == "diag":
        return len(e[2])
    if t in ("scalar",):
        return e[3]
    if t == "eye":
        return e[2]
    if t in ("prod", "sum"):
        return size_of(e[1])
    if t in ("kron", "kronsum"):
        n = 1
        for x in e[1:]:
            n *= size_of(x)
        return n
    if t == "bdiag":
        return sum(size_of(x) * m for x, m in zip(e[1], e[2]))
    if t in ("T", "H"):
        return size_of(e[1])
    if t == "ann":
        return size_of(e[2])
    raise ValueError(t)


def depth_of(e):
    t = e[0]
    if t in ("prod", "sum", "kron", "kronsum"):
        return 1 + max(depth_of(x) for x in e[1:])
    if t == "bdiag":
        return 1 + max(depth_of(x) for x in e[1])
    if t in ("T", "H"):
        return 1 + depth_of(e[1])
    if t == "ann":
        return depth_of(e[2])
    return 0


def frac(a):
    return Fraction(a["q"][0], a["q"][1]) if isinstance(a, dict) else Fraction(a)


def scalar_fn(case):
    """the scalar function of the call, on numpy arrays (principal branches)"""
    fn = case["fn"]
    if fn == "exp":
        return np.exp
    if fn == "log":
        return np.log
    if fn == "apply":
        return UFN[case["ufn"]]
    al = float(frac(case["alpha"])) if fn == "pow" else (0.5 if fn == "sqrt" else -0.5)
    return lambda x: x ** al


def f_at_zero(case):
    fn = case["fn"]
    if fn == "exp":
        return 1.0
    if fn == "log":
        return -np.inf
    if fn == "apply":
        return {"exp": 1.0, "log": -np.inf, "cube": 0.0, "poly": 1.0}[case["ufn"]]
    al = float(frac(case["alpha"])) if fn == "pow" else (0.5 if fn == "sqrt" else -0.5)
    return 1.0 if al == 0 else (0.0 if al > 0 else np.inf)


def _cube(x):
    return x ** 3


def _poly(x):
    return x * x + 1


UFN = {"exp": np.exp, "log": np.log, "cube": _cube, "poly": _poly}


def alg_obj(name, n, kiters=None):
    import cola
    from cola.linalg.decompositions.decompositions import Arnoldi, Lanczos
    if name == "auto":
        return cola.linalg.Auto()
    if name == "eigh":
        return cola.linalg.Eigh()
    if name == "eig":
        return cola.linalg.Eig()
    if name == "lanczos":
        return Lanczos(max_iters=kiters or n, tol=1e-12)
    if name == "arnoldi":
        return Arnoldi(max_iters=kiters or n)
    return None


def call_real(case, A):
    """the public call of the case on the operator A"""
    import cola
    L = cola.linalg
    alg = alg_obj(case["alg"], int(A.shape[0]), case.get("kiters"))
    extra = () if alg is None else (alg,)
    fn = case["fn"]
    if fn == "exp":
        return L.exp(A, *extra)
    if fn == "log":
        return L.log(A, *extra)
    if fn == "sqrt":
        return L.sqrt(A, *extra)
    if fn == "isqrt":
        return L.isqrt(A, *extra)
    if fn == "pow":
        al = frac(case["alpha"])
        a = int(al) if (al.denominator == 1 and case.get("alpha_int", True)) else float(al)
        return L.pow(A, a, *extra)
    if fn == "apply":
        return L.apply_unary(UFN[case["ufn"]], A, *extra)
    raise ValueError(fn)


def operand(case):
    X = np.array([[build.z(v) for v in row] for row in case["x"]])
    if not np.iscomplexobj(X) or np.all(X.imag == 0):
        X = X.real.astype(np.float64) if case.get("xdt", "f64") == "f64" else X.astype(np.complex128)
    return X[:, 0] if case.get("vec") else X


# ------------------------------------------------------------------------------------------------ spec (scipy)
def spec_dense(case, M):
    """f of the dense matrix, independent of cola's rules"""
    fn = case["fn"]
    n = M.shape[0]
    if fn == "exp":
        return sl.expm(M)
    if fn == "log":
        return sl.logm(M)
    if fn == "sqrt":
        return sl.sqrtm(M)
    if fn == "isqrt":
        return np.linalg.inv(sl.sqrtm(M))
    if fn == "apply":
        u = case["ufn"]
        if u == "exp":
            return sl.expm(M)
        if u == "log":
            return sl.logm(M)
        if u == "cube":
            return M @ M @ M
        return M @ M + np.eye(n)
    al = frac(case["alpha"])
    if al.denominator == 1:
        k = int(al)
        return np.linalg.matrix_power(M, k) if k >= 0 else np.linalg.matrix_power(np.linalg.inv(M), -k)
    return sl.fractional_matrix_power(M, float(al))


# ------------------------------------------------------------------------------------------------ code (plan evaluation)
class PlanError(Exception):
    pass


def core_kind(op):
    return KIND.get(type(op).__name__.split("[")[0], "?")


def eval_plan(plan, A, case, info):
    """float64/complex128 value of the planned operator; `info` collects facts used for the classification"""
    f = scalar_fn(case)
    tag = plan[0]
    if tag == "diagF":
        if core_kind(A) != "diag":
            raise PlanError("diagF on " + core_kind(A))
        return np.diag(f(np.asarray(A.diag)))
    if tag == "scaledEye":
        k = core_kind(A)
        n = int(A.shape[0])
        if k == "eye":
            c = np.array(1.0, dtype=A.dtype)
        elif k == "scalar":
            c = np.asarray(A.c)
        else:
            raise PlanError("scaledEye on " + k)
        return f(c) * np.eye(n)
    M = None
    if tag in ("eyeLike", "product", "inv", "base"):
        M = np.asarray(A.to_dense())
    n = int(A.shape[0])
    if tag == "eyeLike":
        return np.eye(n)
    if tag == "product":
        k = int(case["powplan"].split()[1])
        return np.linalg.matrix_power(M, k)
    if tag == "inv":
        if plan[1] in ("cg", "gmres"):
            info["base"].add(plan[1])          # iterative solver: Krylov tolerance
        return np.linalg.inv(M)
    if tag == "bdiag":
        if core_kind(A) != "bdiag" or len(A.Ms) != len(plan[1]):
            raise PlanError("bdiag on " + core_kind(A))
        blocks = []
        for p, a, m in zip(plan[1], A.Ms, plan[2]):
            b = eval_plan(p, a, case, info)
            blocks += [b] * m
        return sl.block_diag(*blocks)
    if tag == "kron":
        if core_kind(A) not in ("kron", "kronsum") or len(A.Ms) != len(plan) - 1:
            raise PlanError("kron on " + core_kind(A))
        out = np.eye(1)
        for p, a in zip(plan[1:], A.Ms):
            out = np.kron(out, eval_plan(p, a, case, info))
        return out
    if tag in ("T", "H"):
        K = eval_plan(plan[1], A.A, case, info)
        if len(plan) > 2 and plan[2]:
            # the planned operand reports SelfAdjoint and has no _rmatmat of its own: the default takes the conjugation
            # shortcut (C01's code model): Transpose acts as conj(K), Adjoint as K -- right iff K really is Hermitian
            info["sa_shortcut"] = True
            return K.conj() if tag == "T" else K
        return K.T if tag == "T" else K.conj().T
    if tag == "base":
        kind = plan[1]
        info["base"].add(kind)
        if kind == "eigh":
            w, V = np.linalg.eigh(M)
            return (V * f(w)) @ V.conj().T
        w, V = np.linalg.eig(M)
        if kind == "eig":
            return (V * f(w.astype(np.complex128))) @ np.linalg.inv(V)
        # Krylov operators run to the full dimension: Ritz values = eigenvalues (no magnitude mask since a523921)
        return (V * f(w.astype(np.complex128))) @ np.linalg.inv(V)
    raise PlanError("tag " + tag)


def inv_alg(name, case=None, n=None):
    """the algorithm object `pow(., -1, alg)` hands to inv (CG / GMRES take tol, max_iters, pbar of the Krylov object)"""
    import cola
    from cola.linalg.decompositions.decompositions import LU, Cholesky
    from cola.linalg.inverse.cg import CG
    from cola.linalg.inverse.gmres import GMRES
    if name in ("cg", "gmres"):
        src = alg_obj(case["alg"], n, case.get("kiters"))
        return (CG if name == "cg" else GMRES)(tol=src.tol, max_iters=src.max_iters, pbar=src.pbar)
    return {"auto": cola.linalg.Auto(), "cholesky": Cholesky(), "lu": LU()}[name]


def inv_reference_raise(plan, A, case=None, n=None):
    """`inv(A_sub, mapped algorithm)` is C06's matter: the class of the exception the reference call raises on an
    `inv` node of the plan (Cholesky() asserts PSD), or None"""
    import cola
    tag = plan[0]
    try:
        if tag == "inv":
            try:
                cola.linalg.inv(A, inv_alg(plan[1], case, n))
            except Exception as ex:  # noqa: BLE001
                return treecheck.err_class(ex)
            return None
        if tag == "bdiag":
            for p, a in zip(plan[1], A.Ms):
                r = inv_reference_raise(p, a, case, n)
                if r:
                    return r
        if tag == "kron":
            for p, a in zip(plan[1:], A.Ms):
                r = inv_reference_raise(p, a, case, n)
                if r:
                    return r
        if tag in ("T", "H"):
            return inv_reference_raise(plan[1], A.A, case, n)
    except AttributeError:
        return None
    return None


def expected_kinds(plan, A, case):
    """kind tree the plan predicts for the returned operator (kinds only)"""
    import cola
    tag = plan[0]
    if tag == "diagF":
        return ["diag"]
    if tag == "scaledEye":
        return ["prod", ["scalar"], ["eye"]]
    if tag == "eyeLike":
        return ["eye"]
    if tag == "product":
        return strip_anns(plan[1])
    if tag == "bdiag":
        return ["bdiag"] + [expected_kinds(p, a, case) for p, a in zip(plan[1], A.Ms)]
    if tag == "kron":
        return ["kron"] + [expected_kinds(p, a, case) for p, a in zip(plan[1:], A.Ms)]
    if tag == "T":
        return ["T", expected_kinds(plan[1], A.A, case)]
    if tag == "H":
        return ["H", expected_kinds(plan[1], A.A, case)]
    if tag == "inv":
        return kinds(cola.linalg.inv(A, inv_alg(plan[1], case, case.get("_n"))))      # the structure of inv's result is C06's matter: reference call
    if tag == "base":
        k = plan[1]
        if k == "eigh":
            return ["prod", ["dense"], ["diag"], ["dense"]]
        if k == "eig":
            n = int(A.shape[0])
            ref = kinds(cola.linalg.inv(cola.ops.Dense(np.eye(n, dtype=np.complex128) + 0.1)))
            tail = ref[1:] if ref[0] == "prod" else [ref]
            return ["prod", ["dense"], ["diag"]] + tail
        return ["LanczosUnary"] if k == "lanczos" else ["ArnoldiUnary"]
    raise PlanError("tag " + tag)


# ------------------------------------------------------------------------------------------------ observations
def run_real(case):
    try:
        A = build.Builder().build(case["op"])
        F = call_real(case, A)
        X = operand(case)
        Y = np.asarray(F @ X)
        out = {"Y": Y, "kinds": kinds(F), "shape": [int(F.shape[0]), int(F.shape[1])], "F": F, "A": A}
        if case.get("dense"):
            out["D"] = np.asarray(F.to_dense())
        return out
    except Exception as ex:  # noqa: BLE001
        return {"err": treecheck.err_class(ex), "msg": f"{type(ex).__name__}: {str(ex)[:200]}"}


def relerr(a, b):
    a = np.asarray(a, dtype=np.complex128)
    b = np.asarray(b, dtype=np.complex128)
    if a.shape != b.shape:
        return np.inf
    if not (np.all(np.isfinite(a)) and np.all(np.isfinite(b))):
        return np.inf
    return float(np.max(np.abs(a - b)) / max(np.max(np.abs(b)), 1e-300)) if a.size else 0.0


def exact_to_np(m):
    def q(x):
        if isinstance(x, str):
            n, d = x.split("/")
            return Fraction(int(n), int(d))
        return Fraction(x)
    return [[(q(z[0]), q(z[1])) for z in row] for row in m]


def exact_float(m):
    return np.array([[complex(float(z[0]), float(z[1])) for z in row] for row in m])


def classify(case, ans, real):
    """-> (status, detail, facts).  status: ok | known? | violation | stale-model | skipped | driver-error"""
    facts = {"krylov": False, "exact": False, "tol": TOL_DENSE, "clauses": []}
    if "error" in ans:
        return "driver-error", ans["error"], facts
    if not ans.get("wf", True):
        return "skipped", "not well-formed", facts
    case = dict(case)
    case["powplan"] = ans.get("powplan", "n/a")
    plan = ans["plan"]
    clauses = list(ans.get("clauses", []))
    # ---- the model says the call raises
    if ans.get("raise"):
        want = ans["raise"]
        facts["clauses"] = clauses
        if "err" in real:
            if real["err"] == want:
                if want == "error:AssertionError":
                    return "ok", "inadmissible algorithm rejected (assertion)", facts    # precondition, not a defect
                return "known?", clauses, facts                                         # real = code (raises), spec = a value
            return "violation", f"model predicts {want}, real raised {real['err']}: {real.get('msg')}", facts
        # real returned a value although the model raises: is the value right?
        A = build.Builder().build(case["op"])
        ref = spec_dense(case, np.asarray(A.to_dense())) @ operand(case)
        if relerr(real["Y"], ref) <= TOL_KRYLOV:
            return "stale-model", f"model predicts {want} but the call returns the correct value", facts
        return "violation", f"model predicts {want}; the call returned a wrong value", facts
    if "err" in real:
        Aref = build.Builder().build(case["op"])
        rr = inv_reference_raise(plan, Aref, case, int(Aref.shape[0]))
        if rr is not None and rr == real["err"] and rr == "error:AssertionError":
            return "ok", "inv rejects the mapped algorithm on this operand (assertion; C06's precondition)", facts
        return "violation", f"the call raised {real['err']}: {real.get('msg')} (model: plan {json.dumps(plan)[:200]})", facts
    A, X = real["A"], operand(case)
    M = np.asarray(A.to_dense())
    info = {"base": set(), "masked": False, "sa_shortcut": False}
    case["_n"] = int(A.shape[0])
    try:
        C = eval_plan(plan, A, case, info)
        ek = expected_kinds(plan, A, case)
    except PlanError as ex:
        return "stale-model", f"plan does not fit the operator: {ex}", facts
    krylov = bool(info["base"] & {"lanczos", "arnoldi", "cg", "gmres"})
    tol = TOL_KRYLOV if krylov else TOL_DENSE
    facts.update({"krylov": krylov, "tol": tol, "bases": sorted(info["base"])})
    S = spec_dense(case, M)
    Yc, Ys, Yr = C @ X, S @ X, real["Y"]
    e_rc, e_cs, e_rs = relerr(Yr, Yc), relerr(Yc, Ys), relerr(Yr, Ys)
    facts["err"] = {"real-code": e_rc, "code-spec": e_cs, "real-spec": e_rs}
    # ---- exact subset: Lean's exact code and spec values
    exact_note = ""
    if is_exact_tree(case["op"]) and ans.get("exact") and ans.get("code") is not None:
        facts["exact"] = True
        Ce = exact_float(exact_to_np(ans["code"]))
        e1 = relerr(C, Ce)
        if e1 > 1e-12:
            return "stale-model", f"float evaluation of the plan differs from the exact model value ({e1:.2e})", facts
        if ans.get("spec") is not None and ans["code"] != ans["spec"] and not info["sa_shortcut"]:
            return "known?", clauses + ["exact-code-differs-from-spec"], facts
        if "D" in real:
            D = real["D"]
            ring = case["powplan"].startswith("product") or case["powplan"] == "identity" or (case["fn"] == "apply" and case["ufn"] in ("cube", "poly"))
            ed = relerr(D, Ce)
            if ring and np.all(np.abs(Ce) < 2 ** 50) and np.allclose(Ce, np.round(Ce)):
                if not np.array_equal(np.asarray(D, dtype=np.complex128), Ce):
                    return "violation", "to_dense() of the result differs from the exact value (integer ring arithmetic)", facts
            elif ed > 1e-13:
                return "violation", f"to_dense() of the result differs from the exact value by {ed:.2e}", facts
            exact_note = "exact"
    if ek != real["kinds"]:
        if e_rs <= tol:
            return "stale-model", f"kind tree {json.dumps(real['kinds'])} differs from the plan's {json.dumps(ek)} (value is right)", facts
        return "violation", f"kind tree {json.dumps(real['kinds'])} differs from the plan's {json.dumps(ek)} and the value is wrong ({e_rs:.2e})", facts
    if e_rc <= tol:
        if e_cs <= tol:
            return "ok", exact_note, facts
        cl = list(facts.get("clauses") or clauses)
        if info["sa_shortcut"]:
            cl += [c for c in ans.get("op_clauses", []) if c == "scalar-times-annotated"]
        facts["clauses"] = cl
        return "known?", cl, facts
    if e_rs <= tol:
        return "stale-model", f"real agrees with the specification ({e_rs:.2e}) but not with the evaluated plan ({e_rc:.2e})", facts
    return "violation", f"real differs from the evaluated plan by {e_rc:.2e} and from f(A) by {e_rs:.2e} (tolerance {tol:g})", facts


# ------------------------------------------------------------------------------------------------ generator
class Gen9:
    """operator trees with controlled spectra.  cls: pd | rhp | spsd | cplx | exact"""

    def __init__(self, rng, nprng):
        self.rng = rng
        self.np = nprng

    # ---- spectra
    def eigs_pd(self, n, lo=0.5, hi=4.0):
        """n well separated values in [lo, hi]"""
        step = (hi - lo) / n
        lam = [lo + step * (i + 0.15 + 0.7 * self.rng.random()) for i in range(n)]
        self.rng.shuffle(lam)
        return np.array(lam)

    def unitary(self, n, cplx):
        B = self.np.standard_normal((n, n)) + (1j * self.np.standard_normal((n, n)) if cplx else 0)
        Q, R = np.linalg.qr(B)
        return Q

    def wellcond(self, n, cplx):
        """V with cond(V) <= (1 + .35) / (1 - .35) < 2.1"""
        N = self.np.standard_normal((n, n)) + (1j * self.np.standard_normal((n, n)) if cplx else 0)
        N = 0.35 * N / np.linalg.norm(N, 2)
        return self.unitary(n, cplx) @ (np.eye(n) + N)

    def rows(self, M, cplx):
        if cplx:
            return [[[float(z.real), float(z.imag)] for z in row] for row in M]
        return [[float(z) for z in row] for row in np.real(M)]

    def dense_leaf(self, n, cls):
        rng = self.rng
        if cls in ("pd", "spsd"):
            cplx = rng.random() < 0.3
            lam = self.eigs_pd(n)
            if cls == "spsd":
                lam = self.eigs_pd(n, 0.5, 3.0)
                for i in rng.sample(range(n), 1 if n < 4 or rng.random() < 0.6 else 2):
                    lam[i] = 0.0
            Q = self.unitary(n, cplx)
            A = (Q * lam) @ Q.conj().T
            A = (A + A.conj().T) / 2
            e = ["dense", "c128" if cplx else "f64", n, n, self.rows(A, cplx)]
            r = rng.random()
            if r < 0.6:
                return ["ann", "PSD", e]
            if r < 0.8:
                return ["ann", "SelfAdjoint", e]
            return e
        if cls == "rhp":
            # real non-normal: 2x2 rotation-scaling blocks a ± ib (|b| <= a/2) and real eigenvalues
            lam = list(self.eigs_pd(n))
            D = np.zeros((n, n))
            i = 0
            while i < n:
                if i + 1 < n and rng.random() < 0.5:
                    a = lam[i]
                    b = a * (0.1 + 0.4 * rng.random()) * rng.choice([-1, 1])
                    D[i:i + 2, i:i + 2] = [[a, b], [-b, a]]
                    i += 2
                else:
                    D[i, i] = lam[i]
                    i += 1
            V = self.wellcond(n, False)
            A = V @ D @ np.linalg.inv(V)
            return ["dense", "f64", n, n, self.rows(A, False)]
        if cls == "cplx":
            a = self.eigs_pd(n)
            lam = np.array([x * (1 + 1j * (rng.random() - 0.5)) for x in a])     # |Im| <= Re / 2
            V = self.wellcond(n, True)
            A = (V * lam) @ np.linalg.inv(V)
            return ["dense", "c128", n, n, self.rows(A, True)]
        raise ValueError(cls)

    def struct_leaf(self, n, cls):
        rng = self.rng
        k = rng.choice(["diag", "diag", "scalar", "eye"])
        cplx = cls == "cplx"
        dt = "c128" if cplx else "f64"
        if k == "diag":
            lam = self.eigs_pd(n)
            if cls == "spsd":
                lam[rng.randrange(n)] = 0.0
            if cplx:
                return ["diag", dt, [[float(x), float(x * (rng.random() - 0.5))] for x in lam]]
            return ["diag", dt, [float(x) for x in lam]]
        if k == "scalar":
            c = 0.5 + 3.5 * rng.random()
            return ["scalar", dt, [c, c * (rng.random() - 0.5)] if cplx else c, n]
        return ["eye", dt, n]

    def leaf(self, n, cls):
        if n == 1 or self.rng.random() < 0.25:
            return self.struct_leaf(n, cls)
        return self.dense_leaf(n, cls)

    def tree(self, n, cls, depth):
        """a tree of size n whose spectrum is in the class"""
        rng = self.rng
        if depth == 0 or n == 1:
            return self.leaf(n, cls)
        forms = ["leaf", "T", "H", "bdiag", "bdiag"]
        divs = [d for d in range(2, n) if n % d == 0]
        if divs:
            forms += ["kron", "kron", "kronsum", "kronsum"]
        if cls in ("pd",):
            forms += ["sum"]
        forms += ["scaled"]
        k = rng.choice(forms)
        if k == "leaf":
            return self.leaf(n, cls)
        if k in ("T", "H"):
            return [k, self.tree(n, cls, depth - 1)]
        if k == "bdiag":
            # n = sum m_i n_i
            parts, mults, left = [], [], n
            while left > 0:
                ni = rng.randint(1, left)
                m = rng.choice([d for d in range(1, 4) if ni % d == 0])
                parts.append(ni // m)
                mults.append(m)
                left -= ni
            return ["bdiag", [self.tree(p, cls, depth - 1) for p in parts], mults]
        if k in ("kron", "kronsum"):
            d = rng.choice(divs)
            kcls = cls
            a, b = self.tree(d, kcls, depth - 1), self.tree(n // d, kcls, depth - 1)
            if k == "kronsum":
                return ["kronsum", a, b]
            return ["kron", a, b]
        if k == "sum":
            a, b = self.dense_leaf(n, "pd"), self.dense_leaf(n, "pd")
            cplx = a[-1][1] == "c128" if a[0] == "ann" else a[1] == "c128"
            e = ["sum", a, b]
            return ["ann", "PSD", e] if rng.random() < 0.7 else e
        if k == "scaled":
            c = 0.5 + 1.5 * rng.random()
            inner = self.dense_leaf(n, cls) if n > 1 else self.struct_leaf(n, cls)
            dt = "c128" if cls == "cplx" else "f64"
            return ["prod", ["scalar", dt, c, n], inner]
        raise ValueError(k)

    # ---- exact trees: integer payloads, perfect squares
    def exact_leaf(self, n):
        rng = self.rng
        k = rng.choice(["diag", "diag", "diag", "scalar", "eye", "dense"] if n > 1 else ["diag", "scalar", "eye"])
        dt = rng.choice(["f64", "f64", "c128"])
        sq = [1, 4, 9, 16, 25, 1, 4]
        if k == "diag":
            if dt == "c128" and rng.random() < 0.5:
                return ["diag", dt, [[rng.choice([2, 3, 4]), rng.choice([-1, 0, 1])] for _ in range(n)]]
            pool = sq if rng.random() < 0.7 else [1, 2, 3, 5]
            return ["diag", dt, [rng.choice(pool) for _ in range(n)]]
        if k == "scalar":
            return ["scalar", dt, rng.choice(sq + [2, 3]), n]
        if k == "eye":
            return ["eye", dt, n]
        # small integer dense matrix, unimodular (integer inverse): product of elementary matrices
        M = np.eye(n, dtype=np.int64)
        for _ in range(rng.randint(1, 3)):
            i, j = rng.randrange(n), rng.randrange(n)
            if i != j:
                E = np.eye(n, dtype=np.int64)
                E[i, j] = rng.choice([-1, 1])
                M = M @ E
        return ["dense", "f64", n, n, [[int(v) for v in row] for row in M]]

    def exact_tree(self, n, depth):
        rng = self.rng
        if depth == 0 or n == 1:
            return self.exact_leaf(n)
        divs = [d for d in range(2, n) if n % d == 0]
        forms = ["leaf", "T", "H", "bdiag", "bdiag", "ann", "prod"] + (["kron", "kron", "kronsum"] if divs else [])
        k = rng.choice(forms)
        if k == "leaf":
            return self.exact_leaf(n)
        if k in ("T", "H"):
            return [k, self.exact_tree(n, depth - 1)]
        if k == "ann":
            inner = self.exact_tree(n, depth - 1)
            return ["ann", rng.choice(["PSD", "SelfAdjoint"]), inner] if truly_psd(inner) else inner
        if k == "prod":
            return ["prod", self.exact_leaf(n), self.exact_leaf(n)]
        if k == "bdiag":
            parts, mults, left = [], [], n
            while left > 0:
                ni = rng.randint(1, left)
                m = rng.choice([d for d in range(1, 4) if ni % d == 0])
                parts.append(ni // m)
                mults.append(m)
                left -= ni
            return ["bdiag", [self.exact_tree(p, depth - 1) for p in parts], mults]
        d = rng.choice(divs)
        return [k, self.exact_tree(d, depth - 1), self.exact_tree(n // d, depth - 1)]

    # ---- operands
    def operand(self, n, cplx):
        rng = self.rng
        vec = rng.random() < 0.35
        cols = 1 if vec else rng.randint(1, 3)
        X = self.np.standard_normal((n, cols))
        if (cplx and rng.random() < 0.5) or rng.random() < 0.12:
            X = X + 1j * self.np.standard_normal((n, cols))
            return [[[float(z.real), float(z.imag)] for z in row] for row in X], vec, "c128"
        return [[float(z) for z in row] for row in X], vec, "f64"

    def int_operand(self, n):
        rng = self.rng
        vec = rng.random() < 0.35
        cols = 1 if vec else rng.randint(1, 3)
        X = [[rng.randint(-2, 2) for _ in range(cols)] for _ in range(n)]
        for j in range(cols):
            # no zero column: the iterative paths (Krylov operators, inv through CG/GMRES) normalise by the norm of the
            # operand, 0/0 = NaN for a zero column -- IEEE-only behaviour outside the exact model (C12/C13/C14/C15 matter)
            if all(X[i][j] == 0 for i in range(n)):
                X[rng.randrange(n)][j] = 1
        return X, vec, "f64"


def tree_is_cplx(e):
    t = e[0]
    if t in ("dense", "diag", "scalar", "eye"):
        return e[1] in ("c64", "c128")
    if t in ("prod", "sum", "kron", "kronsum"):
        return any(tree_is_cplx(x) for x in e[1:])
    if t == "bdiag":
        return any(tree_is_cplx(x) for x in e[1])
    if t in ("T", "H"):
        return tree_is_cplx(e[1])
    if t == "ann":
        return tree_is_cplx(e[2])
    return False


def has_ring_only_leaf(e):
    """exact trees: an integer Dense leaf (unimodular, in general defective) or a Product is only good for the
    shortcut exponents (ring arithmetic); it is not a diagonalisable matrix with controlled spectrum"""
    t = e[0]
    if t in ("dense", "prod", "sum"):
        return True
    if t in ("kron", "kronsum"):
        return any(has_ring_only_leaf(x) for x in e[1:])
    if t == "bdiag":
        return any(has_ring_only_leaf(x) for x in e[1])
    if t in ("T", "H"):
        return has_ring_only_leaf(e[1])
    if t == "ann":
        return has_ring_only_leaf(e[2])
    return False


def truly_psd(e):
    """exact trees: real positive diagonal structure (then a PSD / SelfAdjoint declaration is true)"""
    t = e[0]
    if t == "diag":
        return all(isinstance(v, int) and v > 0 for v in e[2])
    if t == "scalar":
        return isinstance(e[2], int) and e[2] > 0
    if t == "eye":
        return True
    if t in ("kron", "kronsum", "prod"):
        return all(truly_psd(x) for x in e[1:])
    if t == "bdiag":
        return all(truly_psd(x) for x in e[1])
    if t in ("T", "H"):
        return truly_psd(e[1])
    if t == "ann":
        return truly_psd(e[2])
    return False


def base_leaves(e, fn, under_th=False, top=True):
    """-> list of (subtree, below a Transpose/Adjoint that sits above a composite?) the base rule is applied to,
    following the structural rules of the call.  `top`: still inside the entry rule of exp / pow (reached from the
    root through KronSum / Kronecker members only); below a BlockDiag / Transpose / Adjoint the recursion is
    apply_unary's, for which Kronecker and KronSum are base cases."""
    t = e[0]
    if t == "ann":
        return base_leaves(e[2], fn, under_th, top)
    if t in ("diag", "scalar", "eye"):
        return []
    if top and ((t == "kron" and fn in ("pow", "sqrt", "isqrt")) or (t == "kronsum" and fn == "exp")):
        out = []
        for x in e[1:]:
            out += base_leaves(x, fn, under_th, True)
        return out
    if t == "bdiag":
        out = []
        for x in e[1]:
            out += base_leaves(x, fn, under_th, False)
        return out
    if t in ("T", "H"):
        inner = e[1]
        while inner[0] == "ann":
            inner = inner[2]
        comp = inner[0] in ("bdiag", "kron", "kronsum", "T", "H")
        return [(x, th or comp) for (x, th) in base_leaves(e[1], fn, under_th, False)]
    return [(e, under_th)]


def krylov_iters(e, fn):
    """max_iters for Lanczos/Arnoldi such that every Krylov operator of the result runs exactly to the full
    dimension of a matrix with distinct eigenvalues, or None when no single value does (then the case is outside
    the property's quantifier: 'run to the full Krylov dimension').  Also None when a Transpose/Adjoint sits above
    a composite holding Krylov operators: the default `_rmatmat` goes through the shim's linear_transpose, which
    evaluates the operator on identity columns, i.e. hands ZERO columns to the blocks (0/0 in the start-vector
    normalisation: IEEE-only behaviour outside the exact model)."""
    leaves = base_leaves(e, fn)
    if not leaves:
        return size_of(e)
    sizes = set()
    for (x, th) in leaves:
        if th:
            return None
        y = x
        while y[0] == "ann":
            y = y[2]
        if y[0] == "dense":
            pass
        elif y[0] == "sum" and all(z[0] in ("dense", "ann") for z in y[1:]):
            pass
        elif y[0] == "prod" and y[1][0] == "scalar" and y[2][0] in ("dense", "ann"):
            pass
        else:
            return None
        if size_of(x) < 2:
            return None
        sizes.add(size_of(x))
    return sizes.pop() if len(sizes) == 1 else None


def has_complex_scalar(e):
    t = e[0]
    if t == "scalar":
        return isinstance(e[2], list) and e[2][1] != 0
    if t in ("prod", "sum", "kron", "kronsum"):
        return any(has_complex_scalar(x) for x in e[1:])
    if t == "bdiag":
        return any(has_complex_scalar(x) for x in e[1])
    if t in ("T", "H"):
        return has_complex_scalar(e[1])
    if t == "ann":
        return has_complex_scalar(e[2])
    return False


def sta_risk(e):
    """a Transpose/Adjoint above a composite that holds a complex ScalarMul: the rules return f(c) * I with Identity's
    annotations and the Transpose/Adjoint rule goes through the SelfAdjoint shortcut (recorded finding
    scalar-times-annotated; classified by the modelled stream, avoided by the model-free identity stream)"""
    t = e[0]
    if t in ("T", "H"):
        inner = e[1]
        while inner[0] == "ann":
            inner = inner[2]
        if inner[0] in ("bdiag", "kron", "kronsum", "T", "H") and has_complex_scalar(inner):
            return True
        return sta_risk(e[1])
    if t in ("prod", "sum", "kron", "kronsum"):
        return any(sta_risk(x) for x in e[1:])
    if t == "bdiag":
        return any(sta_risk(x) for x in e[1])
    if t == "ann":
        return sta_risk(e[2])
    return False


def inv_base_leaves(e):
    """the sub-operators `inv(., CG | GMRES)` hands to the iterative solver, following inv's structural rules
    (Identity, ScalarMul, Diagonal, BlockDiag, Kronecker, Product member-wise; anything else as a whole)"""
    t = e[0]
    if t == "ann":
        return inv_base_leaves(e[2])
    if t in ("diag", "scalar", "eye"):
        return []
    if t == "bdiag":
        return [y for x in e[1] for y in inv_base_leaves(x)]
    if t in ("kron", "prod"):
        return [y for x in e[1:] for y in inv_base_leaves(x)]
    return [e]


def krylov_iters_inv(e):
    """max_iters for pow(., -1, Lanczos | Arnoldi): every iterative solve is on a dense leaf with distinct spectrum
    whose size is max_iters (else the solver runs past a Krylov breakdown: C12/C13 matter), or None"""
    leaves = inv_base_leaves(e)
    if not leaves:
        return size_of(e)
    sizes = set()
    for x in leaves:
        y = x
        while y[0] == "ann":
            y = y[2]
        if y[0] != "dense" or size_of(x) < 2:
            return None
        sizes.add(size_of(x))
    return sizes.pop() if len(sizes) == 1 else None


def admissible(cls, fn, alpha, ufn):
    """is the spectrum class inside the function's domain (principal branch, finite values)?"""
    if cls == "spsd":
        if fn == "exp":
            return True
        if fn == "apply":
            return ufn in ("exp", "cube", "poly")
        if fn == "pow":
            al = frac(alpha)
            return al.denominator == 1 and al >= 0
        return False
    return True


def gen_cases(ctx, rng, nprng, n_trees):
    G = Gen9(rng, nprng)
    cases = []
    classes = ["pd", "pd", "rhp", "rhp", "spsd", "cplx", "exact", "exact"]
    for t in range(n_trees):
        cls = rng.choice(classes)
        n = rng.randint(2, 8)
        depth = rng.choice([0, 1, 1, 2, 2])
        if cls == "exact":
            e = G.exact_tree(n, depth)
        else:
            e = G.tree(n, cls, depth)
        ncomb = 5 if cls != "exact" else 7
        for _ in range(ncomb):
            fn = rng.choice(["exp", "log", "sqrt", "isqrt", "pow", "pow", "pow", "apply"])
            single = e[0] == "dense" or (e[0] == "ann" and e[2][0] == "dense")
            c = {"op": e, "fn": fn, "cls": cls, "alg": rng.choice(ALGS + (["lanczos", "arnoldi", "lanczos"] if single else []))}
            if fn == "pow":
                al = rng.choice(EXPONENTS)
                c["alpha"] = {"q": [al.numerator, al.denominator]}
                c["alpha_int"] = rng.random() < 0.5       # integer exponents passed as Python int or float
            if fn == "apply":
                c["ufn"] = rng.choice(["exp", "log", "cube", "poly"])
            if cls == "exact":
                # the exact stream: the functions that are exactly representable on the payloads; domain is the model's business
                if fn in ("exp", "log") and rng.random() < 0.7:
                    c["fn"] = "pow"
                    al = rng.choice(EXPONENTS)
                    c["alpha"] = {"q": [al.numerator, al.denominator]}
                    c["alpha_int"] = rng.random() < 0.5
                if has_ring_only_leaf(e):
                    c["fn"] = "pow"
                    c.pop("ufn", None)
                    al = rng.choice([Fraction(0), Fraction(1), Fraction(2), Fraction(3), Fraction(9), Fraction(-1)])
                    c["alpha"] = {"q": [al.numerator, al.denominator]}
                    c["alpha_int"] = rng.random() < 0.5
                X, vec, xdt = G.int_operand(n)
                c["dense"] = True
            else:
                if not admissible(cls, c["fn"], c.get("alpha"), c.get("ufn")):
                    continue
                X, vec, xdt = G.operand(n, tree_is_cplx(e))
            c.update({"x": X, "vec": vec, "xdt": xdt})
            if c["alg"] in ("lanczos", "arnoldi"):
                shortcut = c["fn"] == "pow" and frac(c["alpha"]) in (0, 1, 2, 3, 9)       # no Krylov operator is built
                ki = krylov_iters(e, c["fn"])
                if c["fn"] == "pow" and frac(c["alpha"]) == -1 and e[0] != "kron":
                    # inv through CG / GMRES (a unimodular integer leaf is defective: Krylov breakdown, C12/C13 matter)
                    ki = None if (cls == "exact" and has_ring_only_leaf(e)) else krylov_iters_inv(e)
                if ki is None and not shortcut:
                    c["alg"] = rng.choice(["none", "auto", "eig"])
                elif ki is not None:
                    c["kiters"] = ki
            cases.append(c)
    for i, c in enumerate(cases):
        c["id"] = i
    return cases


def exact_domain_ok(case, ans):
    """exact stream: keep the case only when the scalar function is finite on the spectrum (the model's `exact`
    flag says every argument is exactly representable; otherwise the tree is evaluated numerically, which needs
    the spectrum in the domain: positive payloads)"""
    return True


def driver_case(c):
    d = {"id": c["id"], "op": c["op"] if is_exact_tree(c["op"]) else stub(c["op"]), "fn": c["fn"], "alg": c["alg"]}
    if "alpha" in c:
        d["alpha"] = c["alpha"]
    if "ufn" in c:
        d["ufn"] = c["ufn"]
    return d


# ------------------------------------------------------------------------------------------------ engine
class Engine:
    def __init__(self, ctx):
        self.ctx = ctx
        self.known = dict(PROVISIONAL_KNOWN)
        for k, v in common.known_clauses(ctx.prop).items():
            self.known[k] = v["what"]
        self.stats = collections.Counter()
        self.dist = {k: collections.Counter() for k in ("fn", "alg", "cls", "alpha", "plan_root", "bases", "n", "cols", "depth", "clauses", "powplan")}
        self.distinct = set()
        self.samples = []
        self.maxerr = {"dense": 0.0, "krylov": 0.0}

    def evaluate(self, cases):
        ans = oracle.run_driver([driver_case(c) for c in cases], driver=DRIVER)
        out = []
        for c in cases:
            a = ans.get(c["id"], {"error": "no answer from driver"})
            real = run_real(c)
            try:
                st, det, facts = classify(c, a, real)
            except Exception as ex:  # noqa: BLE001  (reference computation failed: out-of-domain input of the generator)
                st, det, facts = "skipped", f"oracle failed: {type(ex).__name__}: {str(ex)[:100]}", {"clauses": []}
            out.append((c, a, real, st, det, facts))
        return out

    def nontrivial(self, c, a):
        return depth_of(c["op"]) >= 1 or c["op"][0] in ("dense", "ann") or (a.get("plan") or ["?"])[0] in ("base", "product", "inv")

    def account(self, c, a, real, st, det, facts):
        ctx = self.ctx
        self.stats["evaluations"] += 1
        self.stats[st if st != "known?" else "code!=spec"] += 1
        if st in ("ok", "known?"):
            key = common.canon([c["op"], c["fn"], c.get("alpha"), c.get("ufn"), c["alg"], c["x"], c.get("vec")])
            if self.nontrivial(c, a):
                self.distinct.add(key)
            self.dist["fn"][c["fn"] + (":" + c["ufn"] if "ufn" in c else "")] += 1
            self.dist["alg"][c["alg"]] += 1
            self.dist["cls"][c["cls"]] += 1
            if "alpha" in c:
                self.dist["alpha"][str(frac(c["alpha"]))] += 1
            self.dist["plan_root"][(a.get("plan") or ["?"])[0]] += 1
            self.dist["powplan"][a.get("powplan", "n/a").split()[0]] += 1
            for b in facts.get("bases", []):
                self.dist["bases"][b] += 1
            self.dist["n"][str(a.get("rows"))] += 1
            self.dist["cols"]["1-D" if c.get("vec") else str(len(c["x"][0]))] += 1
            self.dist["depth"][str(depth_of(c["op"]))] += 1
            if "err" in facts:
                k = "krylov" if facts.get("krylov") else "dense"
                self.maxerr[k] = max(self.maxerr[k], facts["err"]["real-spec"] if st == "ok" else 0.0)
            if facts.get("exact"):
                self.stats["exact-compared"] += 1
        if st == "ok" and len(self.samples) < 4 and self.nontrivial(c, a) and len(json.dumps(c)) < 1500:
            self.samples.append({"case": {k: v for k, v in c.items()}, "plan": a.get("plan"), "errors": facts.get("err")})
        if st in ("violation", "stale-model") and len(ctx.violations) >= 5:
            self.stats["further-" + st + "-not-reported"] += 1      # five replays are enough; keep the run short
            return
        if st == "known?":
            unknown = [cl for cl in det if cl not in self.known]
            if not det or unknown:
                common.violation(ctx, replay_payload(c, a, real, "real agrees with the rule model, the model differs from f(A), and no recorded finding covers it: clauses %s" % det, facts))
            else:
                for cl in det:
                    self.dist["clauses"][cl] += 1
                    common.known_finding(ctx, cl, self.known[cl])
        elif st == "violation":
            small = self.shrink(c, a, real, det, facts)
            common.violation(ctx, small)
        elif st == "stale-model":
            found = self.neighbourhood(c)
            if found is not None:
                common.violation(ctx, found)
            else:
                common.violation(ctx, dict(replay_payload(c, a, real, det, facts), broken="correspondence of the rule model (real agrees with f(A), not with the model)"),
                                 no_input=True)
        elif st == "driver-error":
            ctx.notes.append(f"driver error on case {c.get('id')}: {det}")

    def neighbourhood(self, c):
        """the model is off on `c`: look for an input near it on which the REAL code contradicts f(A)"""
        rng = random.Random(self.ctx.seed + 99)
        cands = []
        for i in range(24):
            d = dict(c)
            d["alg"] = rng.choice(ALGS)
            d["fn"] = rng.choice(["exp", "log", "sqrt", "isqrt", "pow", "apply"])
            if d["fn"] == "pow":
                al = rng.choice(EXPONENTS)
                d["alpha"] = {"q": [al.numerator, al.denominator]}
            if d["fn"] == "apply":
                d["ufn"] = rng.choice(["exp", "cube", "poly"])
            if not admissible(c.get("cls", "pd") if c.get("cls") != "exact" else "pd", d["fn"], d.get("alpha"), d.get("ufn")):
                continue
            d["id"] = 100000 + i
            cands.append(d)
        for (cc, a, real, st, det, facts) in self.evaluate(cands):
            if st == "violation":
                return replay_payload(cc, a, real, det, facts)
        return None

    def shrink(self, c, a, real, det, facts):
        """greedy: replace the tree by a sub-tree / simpler operand while the violation persists"""
        best = (c, a, real, det, facts)
        for _ in range(6):
            cur = best[0]
            cands = []
            subs = []
            e = cur["op"]
            if e[0] in ("prod", "sum", "kron", "kronsum"):
                subs = list(e[1:])
            elif e[0] == "bdiag":
                subs = list(e[1]) + [["bdiag", e[1], [1] * len(e[2])]] if any(m > 1 for m in e[2]) else list(e[1])
            elif e[0] in ("T", "H"):
                subs = [e[1]]
            elif e[0] == "ann":
                subs = [e[2]]
            for i, s in enumerate(subs):
                try:
                    n = size_of(s)
                except Exception:  # noqa: BLE001
                    continue
                d = dict(cur)
                d["op"] = s
                d["x"] = [row[:1] for row in cur["x"][:n]]
                while len(d["x"]) < n:
                    d["x"].append([1.0])
                d["id"] = 200000 + i
                cands.append(d)
            if len(cur["x"][0]) > 1:
                d = dict(cur)
                d["x"] = [row[:1] for row in cur["x"]]
                d["id"] = 200100
                cands.append(d)
            hit = None
            if cands:
                for r in self.evaluate(cands):
                    if r[3] == "violation":
                        hit = r
                        break
            if hit is None:
                break
            best = (hit[0], hit[1], hit[2], hit[4], hit[5])
        cc, aa, rr, dd, ff = best
        p = replay_payload(cc, aa, rr, dd, ff)
        p["original_case"] = {k: v for k, v in c.items()}
        return p

    def coverage(self):
        return {
            "evaluations": self.stats["evaluations"],
            "distinct_nontrivial": len(self.distinct),
            "outcomes": dict(self.stats),
            "distributions": {k: dict(v) for k, v in self.dist.items()},
            "max_relative_error_ok_cases": self.maxerr,
            "samples": self.samples,
            "compare": "relative max-norm error of F @ X against scipy's f(A) @ X: 1e-7 (dense paths), 1e-5 (Krylov paths run to the full dimension); "
                       "exact comparison of to_dense() with the Lean value on the exact-arithmetic subset; kind tree of the result = the model's plan",
        }


def replay_payload(c, a, real, det, facts):
    r = {k: (v.tolist() if isinstance(v, np.ndarray) else v) for k, v in real.items() if k in ("err", "msg", "kinds", "shape")}
    if "Y" in real:
        Y = np.asarray(real["Y"])
        r["Y"] = [[float(np.real(z)), float(np.imag(z))] for z in Y.reshape(-1)]
    return {"case": {k: v for k, v in c.items()}, "model": {k: a.get(k) for k in ("plan", "powplan", "raise", "clauses", "exact")},
            "real": r, "detail": det if isinstance(det, str) else json.dumps(det), "errors": facts.get("err"),
            "replay_cmd": f"./check C09 quick --replay <this file>"}


# ------------------------------------------------------------------------------------------------ extra identities
def identities(ctx, rng, nprng, N):
    """identities on REAL outputs only (no model): sqrt twice, integer powers vs matrix_power, pow -1 vs inverse,
    exp(KronSum) vs expm of the dense Kronecker sum"""
    import cola
    G = Gen9(rng, nprng)
    checked = collections.Counter()
    for t in range(N):
        n = rng.randint(2, 7)
        cls = rng.choice(["pd", "rhp", "cplx"])
        e = G.tree(n, cls, rng.choice([0, 1, 2]))
        if sta_risk(e):
            continue
        A = build.Builder().build(e)
        M = np.asarray(A.to_dense())
        X = nprng.standard_normal((n, rng.randint(1, 3)))
        for algn in rng.sample(["none", "auto", "eig", "arnoldi"], 2):
            ki = None
            if algn == "arnoldi":
                # only where every Krylov operator of the results runs exactly to the full dimension (see krylov_iters)
                kis = {krylov_iters(e, "sqrt"), krylov_iters(e, "apply")}
                if None in kis or len(kis) != 1:
                    continue
                ki = kis.pop()
            alg = alg_obj(algn, n, ki)
            ex = () if alg is None else (alg,)
            tol = TOL_KRYLOV if algn == "arnoldi" else TOL_DENSE
            try:
                S = cola.linalg.sqrt(A, *ex)
                err = relerr(S @ (S @ X), M @ X)
                checked["sqrt-twice"] += 1
                if err > tol:
                    common.violation(ctx, {"identity": "sqrt(A) @ (sqrt(A) @ X) = A @ X", "case": {"op": e, "alg": algn, "fn": "sqrt", "x": X.tolist(), "cls": cls},
                                           "error": err, "tolerance": tol})
                k = rng.choice([2, 3, 9])
                P = cola.linalg.pow(A, k, *ex)
                err = relerr(P @ X, np.linalg.matrix_power(M, k) @ X)
                checked["int-power"] += 1
                if err > tol:
                    common.violation(ctx, {"identity": f"pow(A, {k}) @ X = A^{k} @ X", "case": {"op": e, "alg": algn, "fn": "pow", "alpha": k, "x": X.tolist(), "cls": cls},
                                           "error": err, "tolerance": tol})
                if algn in ("none", "auto", "eig"):
                    Pi = cola.linalg.pow(A, -1, *ex)
                    err = relerr(Pi @ (M @ X), X)
                    checked["pow-neg-one"] += 1
                    if err > tol:
                        common.violation(ctx, {"identity": "pow(A, -1) @ (A @ X) = X", "case": {"op": e, "alg": algn, "fn": "pow", "alpha": -1, "x": X.tolist(), "cls": cls},
                                               "error": err, "tolerance": tol})
            except Exception as ex_:  # noqa: BLE001
                ctx.notes.append(f"identity stream: {type(ex_).__name__}: {str(ex_)[:120]}")
        # exp(KronSum) vs expm of the dense Kronecker sum
        d = rng.choice([2, 3])
        a, b = G.tree(d, cls, 1), G.tree(rng.choice([2, 3]), cls, 1)
        if sta_risk(a) or sta_risk(b):
            continue
        Aa, Bb = build.Builder().build(a), build.Builder().build(b)
        K = cola.ops.KronSum(Aa, Bb)
        Ma, Mb = np.asarray(Aa.to_dense()), np.asarray(Bb.to_dense())
        Ks = np.kron(Ma, np.eye(Mb.shape[0])) + np.kron(np.eye(Ma.shape[0]), Mb)
        X = nprng.standard_normal((Ks.shape[0], 2))
        try:
            E = cola.linalg.exp(K)
            err = relerr(E @ X, sl.expm(Ks) @ X)
            checked["exp-kronsum"] += 1
            if err > TOL_DENSE or kinds(E)[0] != "kron":
                common.violation(ctx, {"identity": "exp(KronSum(A, B)) @ X = expm(A (+) B) @ X, returned as a Kronecker product",
                                       "case": {"op": ["kronsum", a, b], "fn": "exp", "alg": "none", "x": X.tolist(), "cls": cls}, "error": err,
                                       "kinds": kinds(E)})
        except Exception as ex_:  # noqa: BLE001
            ctx.notes.append(f"identity stream (kronsum): {type(ex_).__name__}: {str(ex_)[:120]}")
    return dict(checked)


# ------------------------------------------------------------------------------------------------ entry point
WITNESSES = [
    # exp of a singular PSD matrix on the Krylov paths (the former zero-eigenvalue mask, repaired in a523921)
    {"op": ["ann", "PSD", ["dense", "f64", 2, 2, [[1.0, 1.0], [1.0, 1.0]]]], "fn": "exp", "alg": "lanczos", "x": [[1.0], [0.0]], "vec": True, "xdt": "f64", "cls": "spsd"},
    {"op": ["ann", "PSD", ["dense", "f64", 2, 2, [[1.0, 1.0], [1.0, 1.0]]]], "fn": "exp", "alg": "arnoldi", "x": [[1.0], [0.0]], "vec": True, "xdt": "f64", "cls": "spsd"},
    {"op": ["ann", "PSD", ["dense", "f64", 2, 2, [[1.0, 1.0], [1.0, 1.0]]]], "fn": "exp", "alg": "eigh", "x": [[1.0], [0.0]], "vec": True, "xdt": "f64", "cls": "spsd"},
    # complex operand on a real operator (repaired in /repo a98c0be: the Krylov buffers follow the promoted dtype)
    {"op": ["ann", "PSD", ["dense", "f64", 2, 2, [[2.0, 1.0], [1.0, 3.0]]]], "fn": "exp", "alg": "lanczos", "x": [[[1.0, 1.0]], [[2.0, -1.0]]], "vec": True, "xdt": "c128", "cls": "pd"},
    {"op": ["ann", "PSD", ["dense", "f64", 2, 2, [[2.0, 1.0], [1.0, 3.0]]]], "fn": "sqrt", "alg": "arnoldi", "x": [[[1.0, 1.0]], [[2.0, -1.0]]], "vec": True, "xdt": "c128", "cls": "pd"},
    # f(c) * I keeps Identity's annotations (recorded finding scalar-times-annotated): Transpose of a BlockDiag holding a complex f(c) I
    {"op": ["T", ["bdiag", [["scalar", "c128", [1.5, 0.3], 1], ["scalar", "c128", [1.4, 0.6], 1]], [2, 1]]], "fn": "pow", "alpha": {"q": [-1, 2]}, "alg": "none",
     "x": [[[-1.0, -0.1]], [[1.4, -0.8]], [[0.8, -0.3]]], "vec": True, "xdt": "c128", "cls": "cplx"},
    # pow -1 with the Krylov algorithm objects (CG / GMRES since 57e439f)
    {"op": ["ann", "PSD", ["dense", "f64", 2, 2, [[2.0, 1.0], [1.0, 2.0]]]], "fn": "pow", "alpha": {"q": [-1, 1]}, "alg": "lanczos", "x": [[1.0], [0.0]], "vec": True, "xdt": "f64", "cls": "pd"},
    {"op": ["dense", "f64", 2, 2, [[2.0, 1.0], [0.0, 3.0]]], "fn": "pow", "alpha": {"q": [-1, 1]}, "alg": "arnoldi", "x": [[1.0], [0.0]], "vec": True, "xdt": "f64", "cls": "rhp"},
    # the one-argument structural forms
    {"op": ["kronsum", ["diag", "f64", [1.0, 2.0]], ["scalar", "f64", 0.5, 2]], "fn": "exp", "alg": "none", "x": [[1.0], [2.0], [3.0], [4.0]], "vec": False, "xdt": "f64", "cls": "pd"},
    {"op": ["kron", ["diag", "f64", [1.0, 2.0]], ["scalar", "f64", 0.5, 2]], "fn": "pow", "alpha": {"q": [5, 2]}, "alg": "none", "x": [[1.0], [2.0], [3.0], [4.0]], "vec": False, "xdt": "f64", "cls": "pd"},
    {"op": ["kron", ["diag", "f64", [1.0, 2.0]], ["scalar", "f64", 0.5, 2]], "fn": "sqrt", "alg": "none", "x": [[1.0], [2.0], [3.0], [4.0]], "vec": False, "xdt": "f64", "cls": "pd"},
]


def run(ctx):
    gate = None
    gate_err = None
    try:
        gate = common.lean_gate(ctx, MODULE)
    except common.LeanGateError as ex:
        gate_err = str(ex)
    rng = random.Random(ctx.seed * 104729 + 9)
    nprng = np.random.default_rng(ctx.seed * 7 + 9)
    eng = Engine(ctx)
    ident = {}
    if ctx.replay:
        rp = json.load(open(ctx.replay))
        c = rp.get("case") or rp.get("original_case")
        c["id"] = 0
        c.setdefault("cls", "pd")
        c.setdefault("alg", "none")
        if "alpha" in c and not isinstance(c["alpha"], dict):
            fr = Fraction(c["alpha"]).limit_denominator(1000)
            c["alpha"] = {"q": [fr.numerator, fr.denominator]}
        c.setdefault("xdt", "f64")
        res = eng.evaluate([c])
        for r in res:
            eng.account(*r)
        print(json.dumps({"replayed": {k: v for k, v in c.items() if k != "x"}, "status": [r[3] for r in res], "detail": [str(r[4])[:300] for r in res]})[:2000])
    else:
        cases = [dict(w) for w in WITNESSES]
        ntrees = 200 if not ctx.thorough else 3000
        cases += gen_cases(ctx, rng, nprng, ntrees)
        for i, c in enumerate(cases):
            c["id"] = i
        batch = 800
        for i in range(0, len(cases), batch):
            for r in eng.evaluate(cases[i:i + batch]):
                eng.account(*r)
        ident = identities(ctx, rng, nprng, 30 if not ctx.thorough else 400)
    if gate_err is not None and not ctx.violations:
        common.violation(ctx, {"broken": f"Lean gate of {MODULE}", "detail": gate_err[-3000:]}, no_input=True)
    cov = eng.coverage()
    cov["identity_checks"] = ident
    cov["rule"] = ("operator trees of size 2-8, depth <= 2, over dense leaves with generator-controlled spectra (PD: Q diag(l) Q^H, l in [0.5,4] well separated; "
                   "right-half-plane non-normal: V D V^-1 with cond(V) < 2.1 and |Im l| <= Re l / 2; singular PSD; complex) and the structured kinds "
                   "(Diagonal, ScalarMul, Identity, BlockDiag with multiplicities, Kronecker, KronSum, Transpose, Adjoint, Sum, scaled), plus exact integer / perfect-square "
                   "trees; x functions exp/log/sqrt/isqrt/pow(11 exponents)/apply_unary(4 functions) x algorithm objects {omitted, Auto, Eigh, Eig, Lanczos(n,1e-12), Arnoldi(n)} "
                   "x operands 1-D / 1-3 columns; distinct = canonical JSON of (tree, function, exponent, algorithm, operand); non-trivial = the tree has depth >= 1 or a dense leaf, "
                   "or the plan is a base case / product / inverse")
    cov["provisional_known"] = PROVISIONAL_KNOWN
    cov["trusted_base_extra"] = [
        "numpy.linalg eigh/eig/inv as the parameters of the base cases when the plan is evaluated in float64 (harness/props/c09.py eval_plan); scipy.linalg expm/logm/sqrtm/fractional_matrix_power as the numerical specification",
        "rule selection is payload independent: for float payloads the Lean driver receives the tree with payloads replaced by 0"]
    common.write_evidence(ctx, gate, cov, assumptions=[
        "exact arithmetic in the theorems; the dense eigensolvers and inv are parameters with contracts (A V = V D with V invertible; V unitary for eigh; B A = 1)",
        "Krylov paths: the theorem assumes a complete factorisation A Q = Q T (full Krylov dimension or invariant subspace, from C14/C15); convergence of truncated runs is not claimed",
        "numerical comparison only on spectra inside the function's domain with well-conditioned eigenvectors (generator-controlled); tolerance 1e-7 relative (1e-5 Krylov)",
        "recorded findings come from known_findings.json only (PROVISIONAL_KNOWN is empty)"])
    print(json.dumps({"outcomes": cov["outcomes"], "distinct_nontrivial": cov["distinct_nontrivial"], "clauses": cov["distributions"]["clauses"],
                      "identity_checks": ident, "max_err": cov["max_relative_error_ok_cases"], "gate": (gate or {}).get("obligations"), "wall_s": round(ctx.wall(), 1),
                      "notes": ctx.notes[:5]}))
