"""C09 — matrix functions exp / log / sqrt / isqrt / pow / apply_unary equal f of the matrix.

Three-way comparison per case (operator tree, function, exponent, algorithm object, operand):
  real  — cola in-process: F = fn(A, alg); Y = F @ X; kind tree of F;
  code  — the rule model: the Lean driver (lean/DriverC09.lean, ColaVerif/Model/Unary.lean) returns the PLAN of
          the returned operator (which rule fires at which node, pow's shortcut decision, raising nodes) and,
          on the exact-arithmetic subset, the exact value; for the other cases the plan is evaluated in
          float64 by `eval_plan` with the base cases taken from numpy (the parameters of the theorems:
          eigh / eig / inverse); Krylov base cases are f(A) by numpy's eig there (SPEC-ONLY value: in exact arithmetic a
          complete Krylov factorisation returns exactly f(A) v -- KrylovCompose.{lanczos,arnoldi}_unary_exact -- and the
          code's `_weighted` guard of /repo 25c506e does not change the value), except for polynomial f on exact payloads,
          where the Lean driver evaluates the exact Krylov model (stream krylov-exact);
  spec  — f of the dense matrix: scipy.linalg expm / logm / sqrtm / fractional_matrix_power,
          np.linalg.matrix_power / inv for integer exponents (exact ℚ[i] arithmetic on the exact subset).
Spectra are controlled by the generator (positive definite, right half plane with well-conditioned eigenvectors,
singular PSD, complex), so a relative tolerance of 1e-7 (1e-5 on the Krylov paths) separates rounding from defects.

Early-termination stream (`gen_early_cases`, cls "early", key "stream"): explicit Arnoldi(max_iters, tol) / Lanczos(max_iters, tol)
objects on inputs whose Krylov space is exhausted after m < n steps (few distinct eigenvalues; start vectors in a 2-3 dimensional
invariant subspace; batches that stop at the same step, at different steps, and with exactly zero padding), same expected value
f(A) X, same tolerance.  Case fields "kiters" / "ktol" give max_iters / tol of the algorithm object (absent: the old defaults).
"""
import collections
import json
import os
import random
import warnings
from fractions import Fraction

import numpy as np
import scipy.linalg as sl

import build
import common
import oracle
import treecheck

warnings.simplefilter("ignore")

MODULE = "ColaVerif.Properties.C09"
# round 5: property sub-modules, gated in addition to the main module (their obligations are added to the evidence)
SUB_MODULES = ["ColaVerif.Properties.C09.Arnoldi", "ColaVerif.Properties.C09.SoundEWitness"]
DRIVER = "DriverC09.lean"

# ---- recorded clauses.  All findings of this check are recorded in /verif/known_findings.json (scalar-times-annotated,
# kron-pow-principal-branch, krylov-batch-unequal-exhaustion, krylov-zero-column) and read through common.known_clauses; none is
# provisional.  (The earlier clauses krylov-zero-mask and pow-neg-one-krylov-alg no longer exist: repaired in /repo, a523921, 57e439f.)
# The two run-level clauses are DECIDED BY THE DRIVER on the input (DriverC09 `clauses`):
#   krylov-batch-unequal-exhaustion (the recorded C15 / C14 defect breakdownNotMasked / batch-member-breakdown surfacing through C09):
#     Lean `KrylovExact.unequalExhaustion` -- the columns, run alone under the relative stopping rule in exact arithmetic, stop at
#     different steps; applied only to a wrong batch of the sub-stream early-batch-unequal whose columns, run one by one through the
#     same call, are ALL right (Engine.unequal_batch);
#   krylov-zero-column: Lean `UnOp.zeroFibreClause` -- a Krylov member of the Kronecker plan receives an exactly zero fibre; applied
#     only to a NaN / inf result or a LinAlgError (Engine.zero_column).
# The Python predicates (`krylov_zero_column`, the generator's "exhaust" steps) are cross-checks: Engine.cross_check, a disagreement
# with the driver is a VIOLATION (no-failing-input-found).
PROVISIONAL_KNOWN = {}

EXPONENTS = [Fraction(-2), Fraction(-1), Fraction(-1, 2), Fraction(0), Fraction(1, 2), Fraction(1), Fraction(2), Fraction(3),
             Fraction(9), Fraction(10), Fraction(5, 2)]
ALGS = ["none", "auto", "eigh", "eig", "lanczos", "arnoldi"]
TOL_DENSE = 1e-7
TOL_KRYLOV = 1e-5

KIND = dict(treecheck.KIND)
KIND.update({"LanczosUnary": "LanczosUnary", "ArnoldiUnary": "ArnoldiUnary", "TriangularInv": "TriangularInv",
             "CGInverse": "CGInverse", "GMRESInverse": "GMRESInverse", "LUInverse": "LUInverse", "CholeskyInverse": "CholeskyInverse"})


# ------------------------------------------------------------------------------------------------ helpers
def kinds(op):
    """kind tree of a real operator, kinds only"""
    name = type(op).__name__.split("[")[0]
    k = KIND.get(name, "?" + name)
    kids = []
    if k in ("prod", "sum", "kron", "kronsum", "bdiag", "concat"):
        kids = list(op.Ms)
    elif k in ("T", "H", "slice"):
        kids = [op.A]
    return [k] + [kinds(x) for x in kids]


def strip_anns(sk):
    """driver skeleton [kind, anns, kids...] -> [kind, kids...]"""
    return [sk[0]] + [strip_anns(x) for x in sk[2:]]


def stub(e):
    """the tree with float payloads replaced by 0 (rule selection never looks at payload values; the exact
    stream sends its integer payloads unchanged)"""
    t = e[0]
    if t == "dense":
        return ["dense", e[1], e[2], e[3], [[0] * e[3] for _ in range(e[2])]]
    if t == "diag":
        return ["diag", e[1], [0] * len(e[2])]
    if t == "scalar":
        return ["scalar", e[1], 0, e[3]]
    if t in ("prod", "sum", "kron", "kronsum"):
        return [t] + [stub(x) for x in e[1:]]
    if t == "bdiag":
        return ["bdiag", [stub(x) for x in e[1]], e[2]]
    if t in ("T", "H"):
        return [t, stub(e[1])]
    if t == "ann":
        return ["ann", e[1], stub(e[2])]
    return e


def dy_scalar(v):
    """a payload scalar as an EXACT rational of the case language: a double is a dyadic rational (float.as_integer_ratio)"""
    if isinstance(v, dict):
        return v
    if isinstance(v, (list, tuple)):
        return [dy_scalar(v[0]), dy_scalar(v[1])]
    if isinstance(v, bool):
        return int(v)
    if isinstance(v, int):
        return v
    n, d = float(v).as_integer_ratio()
    return n if d == 1 else {"q": [n, d]}


def dyadic(e):
    """the tree with every float payload replaced by its exact dyadic value (sent to the driver where it DECIDES a recorded clause
    on the input: zero patterns, exhaustion steps)"""
    t = e[0]
    if t == "dense":
        return ["dense", e[1], e[2], e[3], [[dy_scalar(z) for z in row] for row in e[4]]]
    if t == "diag":
        return ["diag", e[1], [dy_scalar(z) for z in e[2]]]
    if t == "scalar":
        return ["scalar", e[1], dy_scalar(e[2]), e[3]]
    if t in ("prod", "sum", "kron", "kronsum"):
        return [t] + [dyadic(x) for x in e[1:]]
    if t == "bdiag":
        return ["bdiag", [dyadic(x) for x in e[1]], e[2]]
    if t in ("T", "H"):
        return [t, dyadic(e[1])]
    if t == "ann":
        return ["ann", e[1], dyadic(e[2])]
    return e


def is_exact_tree(e):
    """all payloads are ints / exact rationals (then the tree goes to Lean unchanged)"""
    def okv(v):
        if isinstance(v, list):
            return all(okv(x) for x in v)
        if isinstance(v, dict):
            return True
        return isinstance(v, int) and not isinstance(v, bool)
    t = e[0]
    if t == "dense":
        return okv(e[4])
    if t == "diag":
        return okv(e[2])
    if t == "scalar":
        return okv(e[2])
    if t in ("prod", "sum", "kron", "kronsum"):
        return all(is_exact_tree(x) for x in e[1:])
    if t == "bdiag":
        return all(is_exact_tree(x) for x in e[1])
    if t in ("T", "H"):
        return is_exact_tree(e[1])
    if t == "ann":
        return is_exact_tree(e[2])
    return True


def size_of(e):
    t = e[0]
    if t == "dense":
        return e[2]
    if t == "diag":
        return len(e[2])
    if t in ("scalar",):
        return e[3]
    if t == "eye":
        return e[2]
    if t in ("prod", "sum"):
        return size_of(e[1])
    if t in ("kron", "kronsum"):
        n = 1
        for x in e[1:]:
            n *= size_of(x)
        return n
    if t == "bdiag":
        return sum(size_of(x) * m for x, m in zip(e[1], e[2]))
    if t in ("T", "H"):
        return size_of(e[1])
    if t == "ann":
        return size_of(e[2])
    raise ValueError(t)


def depth_of(e):
    t = e[0]
    if t in ("prod", "sum", "kron", "kronsum"):
        return 1 + max(depth_of(x) for x in e[1:])
    if t == "bdiag":
        return 1 + max(depth_of(x) for x in e[1])
    if t in ("T", "H"):
        return 1 + depth_of(e[1])
    if t == "ann":
        return depth_of(e[2])
    return 0


def frac(a):
    return Fraction(a["q"][0], a["q"][1]) if isinstance(a, dict) else Fraction(a)


def scalar_fn(case):
    """the scalar function of the call, on numpy arrays (principal branches)"""
    fn = case["fn"]
    if fn == "exp":
        return np.exp
    if fn == "log":
        return np.log
    if fn == "apply":
        return UFN[case["ufn"]]
    al = float(frac(case["alpha"])) if fn == "pow" else (0.5 if fn == "sqrt" else -0.5)
    return lambda x: x ** al


def f_at_zero(case):
    fn = case["fn"]
    if fn == "exp":
        return 1.0
    if fn == "log":
        return -np.inf
    if fn == "apply":
        return {"exp": 1.0, "log": -np.inf, "cube": 0.0, "poly": 1.0}[case["ufn"]]
    al = float(frac(case["alpha"])) if fn == "pow" else (0.5 if fn == "sqrt" else -0.5)
    return 1.0 if al == 0 else (0.0 if al > 0 else np.inf)


def _cube(x):
    return x ** 3


def _poly(x):
    return x * x + 1


UFN = {"exp": np.exp, "log": np.log, "cube": _cube, "poly": _poly}


def alg_obj(name, n, kiters=None, ktol=None):
    """the algorithm object of a case.  Old cases / replays (no "ktol"): Lanczos(max_iters=kiters or n, tol=1e-12),
    Arnoldi(max_iters=kiters or n) as before; the early-termination stream sets both fields explicitly"""
    import cola
    from cola.linalg.decompositions.decompositions import Arnoldi, Lanczos
    if name == "auto":
        return cola.linalg.Auto()
    if name == "eigh":
        return cola.linalg.Eigh()
    if name == "eig":
        return cola.linalg.Eig()
    if name == "lanczos":
        return Lanczos(max_iters=kiters or n, tol=1e-12 if ktol is None else float(ktol))
    if name == "arnoldi":
        if ktol is None:
            return Arnoldi(max_iters=kiters or n)
        return Arnoldi(max_iters=kiters or n, tol=float(ktol))
    return None


def call_real(case, A):
    """the public call of the case on the operator A"""
    import cola
    L = cola.linalg
    alg = alg_obj(case["alg"], int(A.shape[0]), case.get("kiters"), case.get("ktol"))
    extra = () if alg is None else (alg,)
    fn = case["fn"]
    if fn == "exp":
        return L.exp(A, *extra)
    if fn == "log":
        return L.log(A, *extra)
    if fn == "sqrt":
        return L.sqrt(A, *extra)
    if fn == "isqrt":
        return L.isqrt(A, *extra)
    if fn == "pow":
        al = frac(case["alpha"])
        a = int(al) if (al.denominator == 1 and case.get("alpha_int", True)) else float(al)
        return L.pow(A, a, *extra)
    if fn == "apply":
        return L.apply_unary(UFN[case["ufn"]], A, *extra)
    raise ValueError(fn)


def operand(case):
    X = np.array([[build.z(v) for v in row] for row in case["x"]])
    if not np.iscomplexobj(X) or np.all(X.imag == 0):
        X = X.real.astype(np.float64) if case.get("xdt", "f64") == "f64" else X.astype(np.complex128)
    return X[:, 0] if case.get("vec") else X


# ------------------------------------------------------------------------------------------------ spec (scipy)
def spec_dense(case, M):
    """f of the dense matrix, independent of cola's rules"""
    fn = case["fn"]
    n = M.shape[0]
    if fn == "exp":
        return sl.expm(M)
    if fn == "log":
        return sl.logm(M)
    if fn == "sqrt":
        return sl.sqrtm(M)
    if fn == "isqrt":
        return np.linalg.inv(sl.sqrtm(M))
    if fn == "apply":
        u = case["ufn"]
        if u == "exp":
            return sl.expm(M)
        if u == "log":
            return sl.logm(M)
        if u == "cube":
            return M @ M @ M
        return M @ M + np.eye(n)
    al = frac(case["alpha"])
    if al.denominator == 1:
        k = int(al)
        return np.linalg.matrix_power(M, k) if k >= 0 else np.linalg.matrix_power(np.linalg.inv(M), -k)
    return sl.fractional_matrix_power(M, float(al))


# ------------------------------------------------------------------------------------------------ code (plan evaluation)
class PlanError(Exception):
    pass


def core_kind(op):
    return KIND.get(type(op).__name__.split("[")[0], "?")


def eval_plan(plan, A, case, info):
    """float64/complex128 value of the planned operator; `info` collects facts used for the classification"""
    f = scalar_fn(case)
    tag = plan[0]
    if tag == "diagF":
        if core_kind(A) != "diag":
            raise PlanError("diagF on " + core_kind(A))
        return np.diag(f(np.asarray(A.diag)))
    if tag == "scaledEye":
        k = core_kind(A)
        n = int(A.shape[0])
        if k == "eye":
            c = np.array(1.0, dtype=A.dtype)
        elif k == "scalar":
            c = np.asarray(A.c)
        else:
            raise PlanError("scaledEye on " + k)
        return f(c) * np.eye(n)
    M = None
    if tag in ("eyeLike", "product", "inv", "base"):
        M = np.asarray(A.to_dense())
    n = int(A.shape[0])
    if tag == "eyeLike":
        return np.eye(n)
    if tag == "product":
        k = int(case["powplan"].split()[1])
        return np.linalg.matrix_power(M, k)
    if tag == "inv":
        if plan[1] in ("cg", "gmres"):
            info["base"].add(plan[1])          # iterative solver: Krylov tolerance
        return np.linalg.inv(M)
    if tag == "bdiag":
        if core_kind(A) != "bdiag" or len(A.Ms) != len(plan[1]):
            raise PlanError("bdiag on " + core_kind(A))
        blocks = []
        for p, a, m in zip(plan[1], A.Ms, plan[2]):
            b = eval_plan(p, a, case, info)
            blocks += [b] * m
        return sl.block_diag(*blocks)
    if tag == "kron":
        if core_kind(A) not in ("kron", "kronsum") or len(A.Ms) != len(plan) - 1:
            raise PlanError("kron on " + core_kind(A))
        out = np.eye(1)
        for p, a in zip(plan[1:], A.Ms):
            out = np.kron(out, eval_plan(p, a, case, info))
        return out
    if tag in ("T", "H"):
        K = eval_plan(plan[1], A.A, case, info)
        if len(plan) > 2 and plan[2]:
            # the planned operand reports SelfAdjoint and has no _rmatmat of its own: the default takes the conjugation
            # shortcut (C01's code model): Transpose acts as conj(K), Adjoint as K -- right iff K really is Hermitian
            info["sa_shortcut"] = True
            return K.conj() if tag == "T" else K
        return K.T if tag == "T" else K.conj().T
    if tag == "base":
        kind = plan[1]
        info["base"].add(kind)
        if kind == "eigh":
            w, V = np.linalg.eigh(M)
            return (V * f(w)) @ V.conj().T
        w, V = np.linalg.eig(M)
        if kind == "eig":
            return (V * f(w.astype(np.complex128))) @ np.linalg.inv(V)
        # Krylov operators run to the full dimension: Ritz values = eigenvalues (no magnitude mask since a523921)
        return (V * f(w.astype(np.complex128))) @ np.linalg.inv(V)
    raise PlanError("tag " + tag)


def inv_alg(name, case=None, n=None):
    """the algorithm object `pow(., -1, alg)` hands to inv (CG / GMRES take tol, max_iters, pbar of the Krylov object)"""
    import cola
    from cola.linalg.decompositions.decompositions import LU, Cholesky
    from cola.linalg.inverse.cg import CG
    from cola.linalg.inverse.gmres import GMRES
    if name in ("cg", "gmres"):
        src = alg_obj(case["alg"], n, case.get("kiters"), case.get("ktol"))
        return (CG if name == "cg" else GMRES)(tol=src.tol, max_iters=src.max_iters, pbar=src.pbar)
    return {"auto": cola.linalg.Auto(), "cholesky": Cholesky(), "lu": LU()}[name]


def inv_reference_raise(plan, A, case=None, n=None):
    """`inv(A_sub, mapped algorithm)` is C06's matter: the class of the exception the reference call raises on an
    `inv` node of the plan (Cholesky() asserts PSD), or None"""
    import cola
    tag = plan[0]
    try:
        if tag == "inv":
            try:
                cola.linalg.inv(A, inv_alg(plan[1], case, n))
            except Exception as ex:  # noqa: BLE001
                return treecheck.err_class(ex)
            return None
        if tag == "bdiag":
            for p, a in zip(plan[1], A.Ms):
                r = inv_reference_raise(p, a, case, n)
                if r:
                    return r
        if tag == "kron":
            for p, a in zip(plan[1:], A.Ms):
                r = inv_reference_raise(p, a, case, n)
                if r:
                    return r
        if tag in ("T", "H"):
            return inv_reference_raise(plan[1], A.A, case, n)
    except AttributeError:
        return None
    return None


def expected_kinds(plan, A, case):
    """kind tree the plan predicts for the returned operator (kinds only)"""
    import cola
    tag = plan[0]
    if tag == "diagF":
        return ["diag"]
    if tag == "scaledEye":
        return ["prod", ["scalar"], ["eye"]]
    if tag == "eyeLike":
        return ["eye"]
    if tag == "product":
        return strip_anns(plan[1])
    if tag == "bdiag":
        return ["bdiag"] + [expected_kinds(p, a, case) for p, a in zip(plan[1], A.Ms)]
    if tag == "kron":
        return ["kron"] + [expected_kinds(p, a, case) for p, a in zip(plan[1:], A.Ms)]
    if tag == "T":
        return ["T", expected_kinds(plan[1], A.A, case)]
    if tag == "H":
        return ["H", expected_kinds(plan[1], A.A, case)]
    if tag == "inv":
        return kinds(cola.linalg.inv(A, inv_alg(plan[1], case, case.get("_n"))))      # the structure of inv's result is C06's matter: reference call
    if tag == "base":
        k = plan[1]
        if k == "eigh":
            return ["prod", ["dense"], ["diag"], ["dense"]]
        if k == "eig":
            n = int(A.shape[0])
            ref = kinds(cola.linalg.inv(cola.ops.Dense(np.eye(n, dtype=np.complex128) + 0.1)))
            tail = ref[1:] if ref[0] == "prod" else [ref]
            return ["prod", ["dense"], ["diag"]] + tail
        return ["LanczosUnary"] if k == "lanczos" else ["ArnoldiUnary"]
    raise PlanError("tag " + tag)


# ------------------------------------------------------------------------------------------------ observations
def run_real(case):
    try:
        A = build.Builder().build(case["op"])
        F = call_real(case, A)
        X = operand(case)
        Y = np.asarray(F @ X)
        out = {"Y": Y, "kinds": kinds(F), "shape": [int(F.shape[0]), int(F.shape[1])], "F": F, "A": A}
        if case.get("dense"):
            out["D"] = np.asarray(F.to_dense())
        return out
    except Exception as ex:  # noqa: BLE001
        return {"err": treecheck.err_class(ex), "msg": f"{type(ex).__name__}: {str(ex)[:200]}"}


def relerr(a, b):
    a = np.asarray(a, dtype=np.complex128)
    b = np.asarray(b, dtype=np.complex128)
    if a.shape != b.shape:
        return np.inf
    if not (np.all(np.isfinite(a)) and np.all(np.isfinite(b))):
        return np.inf
    return float(np.max(np.abs(a - b)) / max(np.max(np.abs(b)), 1e-300)) if a.size else 0.0


def exact_to_np(m):
    def q(x):
        if isinstance(x, str):
            n, d = x.split("/")
            return Fraction(int(n), int(d))
        return Fraction(x)
    return [[(q(z[0]), q(z[1])) for z in row] for row in m]


def exact_float(m):
    return np.array([[complex(float(z[0]), float(z[1])) for z in row] for row in m])


def classify(case, ans, real):
    """-> (status, detail, facts).  status: ok | known? | violation | stale-model | skipped | driver-error"""
    facts = {"krylov": False, "exact": False, "tol": TOL_DENSE, "clauses": []}
    if "error" in ans:
        return "driver-error", ans["error"], facts
    if not ans.get("wf", True):
        return "skipped", "not well-formed", facts
    case = dict(case)
    case["powplan"] = ans.get("powplan", "n/a")
    plan = ans["plan"]
    # (the run-level clauses the driver decides from the input explain ONE failure class each -- NaN / LinAlgError resp. a wrong
    #  batch whose columns are right -- and are applied by Engine.zero_column / Engine.unequal_batch only)
    clauses = [cl for cl in ans.get("clauses", []) if cl not in RUN_CLAUSES]
    # ---- the model says the call raises
    if ans.get("raise"):
        want = ans["raise"]
        facts["clauses"] = clauses
        if "err" in real:
            if real["err"] == want:
                if want == "error:AssertionError":
                    return "ok", "inadmissible algorithm rejected (assertion)", facts    # precondition, not a defect
                return "known?", clauses, facts                                         # real = code (raises), spec = a value
            return "violation", f"model predicts {want}, real raised {real['err']}: {real.get('msg')}", facts
        # real returned a value although the model raises: is the value right?
        A = build.Builder().build(case["op"])
        ref = spec_dense(case, np.asarray(A.to_dense())) @ operand(case)
        if relerr(real["Y"], ref) <= TOL_KRYLOV:
            return "stale-model", f"model predicts {want} but the call returns the correct value", facts
        return "violation", f"model predicts {want}; the call returned a wrong value", facts
    if "err" in real:
        Aref = build.Builder().build(case["op"])
        rr = inv_reference_raise(plan, Aref, case, int(Aref.shape[0]))
        if rr is not None and rr == real["err"] and rr == "error:AssertionError":
            return "ok", "inv rejects the mapped algorithm on this operand (assertion; C06's precondition)", facts
        return "violation", f"the call raised {real['err']}: {real.get('msg')} (model: plan {json.dumps(plan)[:200]})", facts
    A, X = real["A"], operand(case)
    M = np.asarray(A.to_dense())
    info = {"base": set(), "masked": False, "sa_shortcut": False}
    case["_n"] = int(A.shape[0])
    try:
        C = eval_plan(plan, A, case, info)
        ek = expected_kinds(plan, A, case)
    except PlanError as ex:
        return "stale-model", f"plan does not fit the operator: {ex}", facts
    krylov = bool(info["base"] & {"lanczos", "arnoldi", "cg", "gmres"})
    tol = TOL_KRYLOV if krylov else TOL_DENSE
    facts.update({"krylov": krylov, "tol": tol, "bases": sorted(info["base"])})
    S = spec_dense(case, M)
    Yc, Ys, Yr = C @ X, S @ X, real["Y"]
    e_rc, e_cs, e_rs = relerr(Yr, Yc), relerr(Yc, Ys), relerr(Yr, Ys)
    facts["err"] = {"real-code": e_rc, "code-spec": e_cs, "real-spec": e_rs}
    # ---- exact subset: Lean's exact code and spec values
    exact_note = ""
    if is_exact_tree(case["op"]) and ans.get("exact") and ans.get("code") is not None:
        facts["exact"] = True
        Ce = exact_float(exact_to_np(ans["code"]))
        e1 = relerr(C, Ce)
        kmodel = bool(ans.get("krylov_model"))
        facts["krylov_model"] = kmodel
        # (plans with a Krylov base node are evaluated in float64 through numpy's eig of the whole matrix: 1e-9 there)
        if e1 > (1e-9 if kmodel else 1e-12):
            return "stale-model", f"float evaluation of the plan differs from the exact model value ({e1:.2e})", facts
        if kmodel:
            # the exact Krylov MODEL (Lean, Q p(H) e1 over Q[i]) against the real Krylov operator, on the operand
            ek_ = relerr(Yr, Ce @ X)
            facts["err"]["real-exact-krylov-model"] = ek_
            if ek_ > TOL_KRYLOV:
                return "violation", f"real differs from the exact Krylov model value by {ek_:.2e} (tolerance {TOL_KRYLOV:g})", facts
        if ans.get("spec") is not None and ans["code"] != ans["spec"] and not info["sa_shortcut"]:
            return "known?", clauses + ["exact-code-differs-from-spec"], facts
        if "D" in real:
            D = real["D"]
            ring = case["powplan"].startswith("product") or case["powplan"] == "identity" or (case["fn"] == "apply" and case["ufn"] in ("cube", "poly"))
            ed = relerr(D, Ce)
            if ring and np.all(np.abs(Ce) < 2 ** 50) and np.allclose(Ce, np.round(Ce)):
                if not np.array_equal(np.asarray(D, dtype=np.complex128), Ce):
                    return "violation", "to_dense() of the result differs from the exact value (integer ring arithmetic)", facts
            elif ed > 1e-13:
                return "violation", f"to_dense() of the result differs from the exact value by {ed:.2e}", facts
            exact_note = "exact"
    if ek != real["kinds"]:
        if e_rs <= tol:
            return "stale-model", f"kind tree {json.dumps(real['kinds'])} differs from the plan's {json.dumps(ek)} (value is right)", facts
        return "violation", f"kind tree {json.dumps(real['kinds'])} differs from the plan's {json.dumps(ek)} and the value is wrong ({e_rs:.2e})", facts
    if e_rc <= tol:
        if e_cs <= tol:
            return "ok", exact_note, facts
        cl = list(facts.get("clauses") or clauses)
        if info["sa_shortcut"]:
            cl += [c for c in ans.get("op_clauses", []) if c == "scalar-times-annotated"]
        if kron_branch_violated(case, A):
            cl.append(BRANCH_CLAUSE)
        facts["clauses"] = cl
        return "known?", cl, facts
    if e_rs <= tol:
        return "stale-model", f"real agrees with the specification ({e_rs:.2e}) but not with the evaluated plan ({e_rc:.2e})", facts
    return "violation", f"real differs from the evaluated plan by {e_rc:.2e} and from f(A) by {e_rs:.2e} (tolerance {tol:g})", facts


BRANCH_CLAUSE = "kron-pow-principal-branch"


def kron_branch_violated(case, A):
    """the decidable domain predicate of the Kronecker rule of pow (Lean: MatFun.ArgSumOK, theorem C09_kron_pow_domain):
    True iff the call is pow / sqrt / isqrt with a NON-INTEGER exponent on a Kronecker product and some choice of one
    non-zero eigenvalue PER MEMBER (all k members, not only pairs: the n-ary statement is C09_pow_kron_nary, the two-factor
    one C09_kron_pow_domain) has its sum of arguments outside (-pi, pi] (with a margin: a sum within 1e-6 of the boundary
    is not decided here and does not get the clause).  This predicate is evaluated in PYTHON on numpy eigenvalues of the
    members (the driver does not decide this clause); the generated spectra keep 0.12 rad distance from the cut."""
    fn = case["fn"]
    if fn not in ("pow", "sqrt", "isqrt"):
        return False
    al = frac(case["alpha"]) if fn == "pow" else Fraction(1, 2)
    if al.denominator == 1 or core_kind(A) != "kron":
        return False
    import itertools
    specs = [np.linalg.eigvals(np.asarray(M.to_dense()).astype(np.complex128)) for M in A.Ms]
    # left fold: the spectrum of M1 (x) ... (x) Mk is the set of products; the rule is applied to all members at once,
    # (a1 ... ak)**al = a1**al ... ak**al needs the running sum of arguments to stay in (-pi, pi]
    for combo in itertools.product(*specs):
        if any(abs(z) < 1e-12 for z in combo):
            continue
        tot = sum(np.angle(z) for z in combo)
        if tot > np.pi + 1e-6 or tot <= -np.pi - 1e-6:
            return True
    return False


# ------------------------------------------------------------------------------------------------ generator
class Gen9:
    """operator trees with controlled spectra.  cls: pd | rhp | spsd | cplx | exact"""

    def __init__(self, rng, nprng):
        self.rng = rng
        self.np = nprng

    # ---- spectra
    def eigs_pd(self, n, lo=0.5, hi=4.0):
        """n well separated values in [lo, hi]"""
        step = (hi - lo) / n
        lam = [lo + step * (i + 0.15 + 0.7 * self.rng.random()) for i in range(n)]
        self.rng.shuffle(lam)
        return np.array(lam)

    def unitary(self, n, cplx):
        B = self.np.standard_normal((n, n)) + (1j * self.np.standard_normal((n, n)) if cplx else 0)
        Q, R = np.linalg.qr(B)
        return Q

    def wellcond(self, n, cplx):
        """V with cond(V) <= (1 + .35) / (1 - .35) < 2.1"""
        N = self.np.standard_normal((n, n)) + (1j * self.np.standard_normal((n, n)) if cplx else 0)
        N = 0.35 * N / np.linalg.norm(N, 2)
        return self.unitary(n, cplx) @ (np.eye(n) + N)

    def rows(self, M, cplx):
        if cplx:
            return [[[float(z.real), float(z.imag)] for z in row] for row in M]
        return [[float(z) for z in row] for row in np.real(M)]

    def dense_leaf(self, n, cls):
        rng = self.rng
        if cls in ("pd", "spsd"):
            cplx = rng.random() < 0.3
            lam = self.eigs_pd(n)
            if cls == "spsd":
                lam = self.eigs_pd(n, 0.5, 3.0)
                for i in rng.sample(range(n), 1 if n < 4 or rng.random() < 0.6 else 2):
                    lam[i] = 0.0
            Q = self.unitary(n, cplx)
            A = (Q * lam) @ Q.conj().T
            A = (A + A.conj().T) / 2
            e = ["dense", "c128" if cplx else "f64", n, n, self.rows(A, cplx)]
            r = rng.random()
            if r < 0.6:
                return ["ann", "PSD", e]
            if r < 0.8:
                return ["ann", "SelfAdjoint", e]
            return e
        if cls == "rhp":
            # real non-normal: 2x2 rotation-scaling blocks a ± ib (|b| <= a/2) and real eigenvalues
            lam = list(self.eigs_pd(n))
            D = np.zeros((n, n))
            i = 0
            while i < n:
                if i + 1 < n and rng.random() < 0.5:
                    a = lam[i]
                    b = a * (0.1 + 0.4 * rng.random()) * rng.choice([-1, 1])
                    D[i:i + 2, i:i + 2] = [[a, b], [-b, a]]
                    i += 2
                else:
                    D[i, i] = lam[i]
                    i += 1
            V = self.wellcond(n, False)
            A = V @ D @ np.linalg.inv(V)
            return ["dense", "f64", n, n, self.rows(A, False)]
        if cls == "cplx":
            a = self.eigs_pd(n)
            lam = np.array([x * (1 + 1j * (rng.random() - 0.5)) for x in a])     # |Im| <= Re / 2
            V = self.wellcond(n, True)
            A = (V * lam) @ np.linalg.inv(V)
            return ["dense", "c128", n, n, self.rows(A, True)]
        raise ValueError(cls)

    def struct_leaf(self, n, cls):
        rng = self.rng
        k = rng.choice(["diag", "diag", "scalar", "eye"])
        cplx = cls == "cplx"
        dt = "c128" if cplx else "f64"
        if k == "diag":
            lam = self.eigs_pd(n)
            if cls == "spsd":
                lam[rng.randrange(n)] = 0.0
            if cplx:
                return ["diag", dt, [[float(x), float(x * (rng.random() - 0.5))] for x in lam]]
            return ["diag", dt, [float(x) for x in lam]]
        if k == "scalar":
            c = 0.5 + 3.5 * rng.random()
            return ["scalar", dt, [c, c * (rng.random() - 0.5)] if cplx else c, n]
        return ["eye", dt, n]

    def leaf(self, n, cls):
        if n == 1 or self.rng.random() < 0.25:
            return self.struct_leaf(n, cls)
        return self.dense_leaf(n, cls)

    def tree(self, n, cls, depth):
        """a tree of size n whose spectrum is in the class"""
        rng = self.rng
        if depth == 0 or n == 1:
            return self.leaf(n, cls)
        forms = ["leaf", "T", "H", "bdiag", "bdiag"]
        divs = [d for d in range(2, n) if n % d == 0]
        if divs:
            forms += ["kron", "kron", "kronsum", "kronsum"]
        if cls in ("pd",):
            forms += ["sum"]
        forms += ["scaled"]
        k = rng.choice(forms)
        if k == "leaf":
            return self.leaf(n, cls)
        if k in ("T", "H"):
            return [k, self.tree(n, cls, depth - 1)]
        if k == "bdiag":
            # n = sum m_i n_i
            parts, mults, left = [], [], n
            while left > 0:
                ni = rng.randint(1, left)
                m = rng.choice([d for d in range(1, 4) if ni % d == 0])
                parts.append(ni // m)
                mults.append(m)
                left -= ni
            return ["bdiag", [self.tree(p, cls, depth - 1) for p in parts], mults]
        if k in ("kron", "kronsum"):
            d = rng.choice(divs)
            kcls = cls
            a, b = self.tree(d, kcls, depth - 1), self.tree(n // d, kcls, depth - 1)
            if k == "kronsum":
                return ["kronsum", a, b]
            return ["kron", a, b]
        if k == "sum":
            a, b = self.dense_leaf(n, "pd"), self.dense_leaf(n, "pd")
            cplx = a[-1][1] == "c128" if a[0] == "ann" else a[1] == "c128"
            e = ["sum", a, b]
            return ["ann", "PSD", e] if rng.random() < 0.7 else e
        if k == "scaled":
            c = 0.5 + 1.5 * rng.random()
            inner = self.dense_leaf(n, cls) if n > 1 else self.struct_leaf(n, cls)
            dt = "c128" if cls == "cplx" else "f64"
            return ["prod", ["scalar", dt, c, n], inner]
        raise ValueError(k)

    # ---- exact trees: integer payloads, perfect squares
    def exact_leaf(self, n):
        rng = self.rng
        k = rng.choice(["diag", "diag", "diag", "scalar", "eye", "dense"] if n > 1 else ["diag", "scalar", "eye"])
        dt = rng.choice(["f64", "f64", "c128"])
        sq = [1, 4, 9, 16, 25, 1, 4]
        if k == "diag":
            if dt == "c128" and rng.random() < 0.5:
                return ["diag", dt, [[rng.choice([2, 3, 4]), rng.choice([-1, 0, 1])] for _ in range(n)]]
            pool = sq if rng.random() < 0.7 else [1, 2, 3, 5]
            return ["diag", dt, [rng.choice(pool) for _ in range(n)]]
        if k == "scalar":
            return ["scalar", dt, rng.choice(sq + [2, 3]), n]
        if k == "eye":
            return ["eye", dt, n]
        # small integer dense matrix, unimodular (integer inverse): product of elementary matrices
        M = np.eye(n, dtype=np.int64)
        for _ in range(rng.randint(1, 3)):
            i, j = rng.randrange(n), rng.randrange(n)
            if i != j:
                E = np.eye(n, dtype=np.int64)
                E[i, j] = rng.choice([-1, 1])
                M = M @ E
        return ["dense", "f64", n, n, [[int(v) for v in row] for row in M]]

    def exact_tree(self, n, depth):
        rng = self.rng
        if depth == 0 or n == 1:
            return self.exact_leaf(n)
        divs = [d for d in range(2, n) if n % d == 0]
        forms = ["leaf", "T", "H", "bdiag", "bdiag", "ann", "prod"] + (["kron", "kron", "kronsum"] if divs else [])
        k = rng.choice(forms)
        if k == "leaf":
            return self.exact_leaf(n)
        if k in ("T", "H"):
            return [k, self.exact_tree(n, depth - 1)]
        if k == "ann":
            inner = self.exact_tree(n, depth - 1)
            return ["ann", rng.choice(["PSD", "SelfAdjoint"]), inner] if truly_psd(inner) else inner
        if k == "prod":
            return ["prod", self.exact_leaf(n), self.exact_leaf(n)]
        if k == "bdiag":
            parts, mults, left = [], [], n
            while left > 0:
                ni = rng.randint(1, left)
                m = rng.choice([d for d in range(1, 4) if ni % d == 0])
                parts.append(ni // m)
                mults.append(m)
                left -= ni
            return ["bdiag", [self.exact_tree(p, depth - 1) for p in parts], mults]
        d = rng.choice(divs)
        return [k, self.exact_tree(d, depth - 1), self.exact_tree(n // d, depth - 1)]

    # ---- operands
    def operand(self, n, cplx):
        rng = self.rng
        vec = rng.random() < 0.35
        cols = 1 if vec else rng.randint(1, 3)
        X = self.np.standard_normal((n, cols))
        if (cplx and rng.random() < 0.5) or rng.random() < 0.12:
            X = X + 1j * self.np.standard_normal((n, cols))
            return [[[float(z.real), float(z.imag)] for z in row] for row in X], vec, "c128"
        return [[float(z) for z in row] for row in X], vec, "f64"

    def int_operand(self, n):
        rng = self.rng
        vec = rng.random() < 0.35
        cols = 1 if vec else rng.randint(1, 3)
        X = [[rng.randint(-2, 2) for _ in range(cols)] for _ in range(n)]
        for j in range(cols):
            # no zero column: the iterative paths (Krylov operators, inv through CG/GMRES) normalise by the norm of the
            # operand, 0/0 = NaN for a zero column -- IEEE-only behaviour outside the exact model (C12/C13/C14/C15 matter)
            if all(X[i][j] == 0 for i in range(n)):
                X[rng.randrange(n)][j] = 1
        return X, vec, "f64"


def tree_is_cplx(e):
    t = e[0]
    if t in ("dense", "diag", "scalar", "eye"):
        return e[1] in ("c64", "c128")
    if t in ("prod", "sum", "kron", "kronsum"):
        return any(tree_is_cplx(x) for x in e[1:])
    if t == "bdiag":
        return any(tree_is_cplx(x) for x in e[1])
    if t in ("T", "H"):
        return tree_is_cplx(e[1])
    if t == "ann":
        return tree_is_cplx(e[2])
    return False


def has_ring_only_leaf(e):
    """exact trees: an integer Dense leaf (unimodular, in general defective) or a Product is only good for the
    shortcut exponents (ring arithmetic); it is not a diagonalisable matrix with controlled spectrum"""
    t = e[0]
    if t in ("dense", "prod", "sum"):
        return True
    if t in ("kron", "kronsum"):
        return any(has_ring_only_leaf(x) for x in e[1:])
    if t == "bdiag":
        return any(has_ring_only_leaf(x) for x in e[1])
    if t in ("T", "H"):
        return has_ring_only_leaf(e[1])
    if t == "ann":
        return has_ring_only_leaf(e[2])
    return False


def truly_psd(e):
    """exact trees: real positive diagonal structure (then a PSD / SelfAdjoint declaration is true)"""
    t = e[0]
    if t == "diag":
        return all(isinstance(v, int) and v > 0 for v in e[2])
    if t == "scalar":
        return isinstance(e[2], int) and e[2] > 0
    if t == "eye":
        return True
    if t in ("kron", "kronsum", "prod"):
        return all(truly_psd(x) for x in e[1:])
    if t == "bdiag":
        return all(truly_psd(x) for x in e[1])
    if t in ("T", "H"):
        return truly_psd(e[1])
    if t == "ann":
        return truly_psd(e[2])
    return False


def base_leaves(e, fn, under_th=False, top=True):
    """-> list of (subtree, below a Transpose/Adjoint that sits above a composite?) the base rule is applied to,
    following the structural rules of the call.  `top`: still inside the entry rule of exp / pow (reached from the
    root through KronSum / Kronecker members only); below a BlockDiag / Transpose / Adjoint the recursion is
    apply_unary's, for which Kronecker and KronSum are base cases."""
    t = e[0]
    if t == "ann":
        return base_leaves(e[2], fn, under_th, top)
    if t in ("diag", "scalar", "eye"):
        return []
    if top and ((t == "kron" and fn in ("pow", "sqrt", "isqrt")) or (t == "kronsum" and fn == "exp")):
        out = []
        for x in e[1:]:
            out += base_leaves(x, fn, under_th, True)
        return out
    if t == "bdiag":
        out = []
        for x in e[1]:
            out += base_leaves(x, fn, under_th, False)
        return out
    if t in ("T", "H"):
        inner = e[1]
        while inner[0] == "ann":
            inner = inner[2]
        comp = inner[0] in ("bdiag", "kron", "kronsum", "T", "H")
        return [(x, th or comp) for (x, th) in base_leaves(e[1], fn, under_th, False)]
    return [(e, under_th)]


def krylov_iters(e, fn):
    """max_iters for Lanczos/Arnoldi such that every Krylov operator of the result runs exactly to the full
    dimension of a matrix with distinct eigenvalues, or None when no single value does (then the case is outside
    the property's quantifier: 'run to the full Krylov dimension').  Also None when a Transpose/Adjoint sits above
    a composite holding Krylov operators: the default `_rmatmat` goes through the shim's linear_transpose, which
    evaluates the operator on identity columns, i.e. hands ZERO columns to the blocks (0/0 in the start-vector
    normalisation: IEEE-only behaviour outside the exact model)."""
    leaves = base_leaves(e, fn)
    if not leaves:
        return size_of(e)
    sizes = set()
    for (x, th) in leaves:
        if th:
            return None
        y = x
        while y[0] == "ann":
            y = y[2]
        if y[0] == "dense":
            pass
        elif y[0] == "sum" and all(z[0] in ("dense", "ann") for z in y[1:]):
            pass
        elif y[0] == "prod" and y[1][0] == "scalar" and y[2][0] in ("dense", "ann"):
            pass
        else:
            return None
        if size_of(x) < 2:
            return None
        sizes.add(size_of(x))
    return sizes.pop() if len(sizes) == 1 else None


def has_complex_scalar(e):
    t = e[0]
    if t == "scalar":
        return isinstance(e[2], list) and e[2][1] != 0
    if t in ("prod", "sum", "kron", "kronsum"):
        return any(has_complex_scalar(x) for x in e[1:])
    if t == "bdiag":
        return any(has_complex_scalar(x) for x in e[1])
    if t in ("T", "H"):
        return has_complex_scalar(e[1])
    if t == "ann":
        return has_complex_scalar(e[2])
    return False


def sta_risk(e):
    """a Transpose/Adjoint above a composite that holds a complex ScalarMul: the rules return f(c) * I with Identity's
    annotations and the Transpose/Adjoint rule goes through the SelfAdjoint shortcut (recorded finding
    scalar-times-annotated; classified by the modelled stream, avoided by the model-free identity stream)"""
    t = e[0]
    if t in ("T", "H"):
        inner = e[1]
        while inner[0] == "ann":
            inner = inner[2]
        if inner[0] in ("bdiag", "kron", "kronsum", "T", "H") and has_complex_scalar(inner):
            return True
        return sta_risk(e[1])
    if t in ("prod", "sum", "kron", "kronsum"):
        return any(sta_risk(x) for x in e[1:])
    if t == "bdiag":
        return any(sta_risk(x) for x in e[1])
    if t == "ann":
        return sta_risk(e[2])
    return False


def inv_base_leaves(e):
    """the sub-operators `inv(., CG | GMRES)` hands to the iterative solver, following inv's structural rules
    (Identity, ScalarMul, Diagonal, BlockDiag, Kronecker, Product member-wise; anything else as a whole)"""
    t = e[0]
    if t == "ann":
        return inv_base_leaves(e[2])
    if t in ("diag", "scalar", "eye"):
        return []
    if t == "bdiag":
        return [y for x in e[1] for y in inv_base_leaves(x)]
    if t in ("kron", "prod"):
        return [y for x in e[1:] for y in inv_base_leaves(x)]
    return [e]


def krylov_iters_inv(e):
    """max_iters for pow(., -1, Lanczos | Arnoldi): every iterative solve is on a dense leaf with distinct spectrum
    whose size is max_iters (else the solver runs past a Krylov breakdown: C12/C13 matter), or None"""
    leaves = inv_base_leaves(e)
    if not leaves:
        return size_of(e)
    sizes = set()
    for x in leaves:
        y = x
        while y[0] == "ann":
            y = y[2]
        if y[0] != "dense" or size_of(x) < 2:
            return None
        sizes.add(size_of(x))
    return sizes.pop() if len(sizes) == 1 else None


def kron_zero_column_risk(e, c, cls):
    """the members of a Kronecker product act on RESHAPED slices of the operand: an iterative member (Krylov operator, or
    inv through CG / GMRES) can be handed a ZERO column -- by a singular structured co-member (f(0) = 0 for positive powers),
    or by the reshape of an operand with zero entries -- and 0/0 in the start-vector normalisation gives NaN (the IEEE-only
    behaviour this harness keeps out of the CONTRACT streams, see int_operand; recorded for C09 as krylov-zero-column -- the
    labelled stream gen_zero_column_cases generates it on purpose -- and for C07 as krylov-blockdiag-zero-probe).
    Found by the thorough tier: pow(Kronecker(Diagonal([0, 1.7]), SelfAdjoint(Dense)), 10, Lanczos(2)) and
    pow(Kronecker(T(Diagonal), T(Diagonal)), -1, Arnoldi(4)) with an integer operand."""
    y = e
    while y[0] == "ann":
        y = y[2]
    if y[0] != "kron" or c["fn"] not in ("pow", "sqrt", "isqrt"):
        return False
    if cls == "spsd":
        return True
    if c["fn"] == "pow" and frac(c["alpha"]) == -1:
        return any(inv_base_leaves(m) for m in y[1:])
    return cls == "exact"       # integer operands have zero entries: a reshaped slice may vanish


def admissible(cls, fn, alpha, ufn):
    """is the spectrum class inside the function's domain (principal branch, finite values)?"""
    if cls == "spsd":
        if fn == "exp":
            return True
        if fn == "apply":
            return ufn in ("exp", "cube", "poly")
        if fn == "pow":
            al = frac(alpha)
            return al.denominator == 1 and al >= 0
        return False
    return True


def gen_cases(ctx, rng, nprng, n_trees):
    G = Gen9(rng, nprng)
    cases = []
    classes = ["pd", "pd", "rhp", "rhp", "spsd", "cplx", "exact", "exact"]
    for t in range(n_trees):
        cls = rng.choice(classes)
        n = rng.randint(2, 8)
        depth = rng.choice([0, 1, 1, 2, 2])
        if cls == "exact":
            e = G.exact_tree(n, depth)
        else:
            e = G.tree(n, cls, depth)
        ncomb = 5 if cls != "exact" else 7
        for _ in range(ncomb):
            fn = rng.choice(["exp", "log", "sqrt", "isqrt", "pow", "pow", "pow", "apply"])
            single = e[0] == "dense" or (e[0] == "ann" and e[2][0] == "dense")
            c = {"op": e, "fn": fn, "cls": cls, "alg": rng.choice(ALGS + (["lanczos", "arnoldi", "lanczos"] if single else []))}
            if fn == "pow":
                al = rng.choice(EXPONENTS)
                c["alpha"] = {"q": [al.numerator, al.denominator]}
                c["alpha_int"] = rng.random() < 0.5       # integer exponents passed as Python int or float
            if fn == "apply":
                c["ufn"] = rng.choice(["exp", "log", "cube", "poly"])
            if cls == "exact":
                # the exact stream: the functions that are exactly representable on the payloads; domain is the model's business
                if fn in ("exp", "log") and rng.random() < 0.7:
                    c["fn"] = "pow"
                    al = rng.choice(EXPONENTS)
                    c["alpha"] = {"q": [al.numerator, al.denominator]}
                    c["alpha_int"] = rng.random() < 0.5
                if has_ring_only_leaf(e):
                    c["fn"] = "pow"
                    c.pop("ufn", None)
                    al = rng.choice([Fraction(0), Fraction(1), Fraction(2), Fraction(3), Fraction(9), Fraction(-1)])
                    c["alpha"] = {"q": [al.numerator, al.denominator]}
                    c["alpha_int"] = rng.random() < 0.5
                X, vec, xdt = G.int_operand(n)
                c["dense"] = True
            else:
                if not admissible(cls, c["fn"], c.get("alpha"), c.get("ufn")):
                    continue
                X, vec, xdt = G.operand(n, tree_is_cplx(e))
            c.update({"x": X, "vec": vec, "xdt": xdt})
            if c["alg"] in ("lanczos", "arnoldi"):
                shortcut = c["fn"] == "pow" and frac(c["alpha"]) in (0, 1, 2, 3, 9)       # no Krylov operator is built
                ki = krylov_iters(e, c["fn"])
                if c["fn"] == "pow" and frac(c["alpha"]) == -1 and e[0] != "kron":
                    # inv through CG / GMRES (a unimodular integer leaf is defective: Krylov breakdown, C12/C13 matter)
                    ki = None if (cls == "exact" and has_ring_only_leaf(e)) else krylov_iters_inv(e)
                if kron_zero_column_risk(e, c, cls):
                    ki = None
                if ki is None and not shortcut:
                    c["alg"] = rng.choice(["none", "auto", "eig"])
                elif ki is not None:
                    c["kiters"] = ki
            cases.append(c)
    for i, c in enumerate(cases):
        c["id"] = i
    return cases


# ------------------------------------------------------------------------------------------------ early termination stream
# Krylov paths whose Krylov space is EXHAUSTED after m < n steps (invariant-subspace breakdown), with explicit algorithm
# objects Arnoldi(max_iters, tol) / Lanczos(max_iters, tol).  In exact arithmetic such a run gives exactly f(A) v (the
# theorem's hypothesis "complete factorisation A Q = Q T" holds on the invariant subspace), so the expected value is the
# same f(A) X as for the runs to the full dimension; the tolerance stays TOL_KRYLOV.
EARLY_TOLS = [1e-7, 1e-10, 1e-12]
EARLY_GUARD = 100.0      # the exhaustion residual must be below tol / EARLY_GUARD (relative to the first residual) ...
EARLY_LIVE = 1e-4        # ... and every residual before the exhaustion step above EARLY_LIVE: 1000 x the largest tolerance
EARLY_UNEQUAL = "early-batch-unequal"
EARLY_STREAMS = ["early-few-distinct", "early-invariant-subspace", "early-batch-equal", EARLY_UNEQUAL, "early-exact-padding"]
EARLY_WEIGHTS = [30, 25, 15, 15, 15]
BATCH_CLAUSE = "krylov-batch-unequal-exhaustion"
RUN_CLAUSES = ("krylov-batch-unequal-exhaustion", "krylov-zero-column")


def krylov_profile(M, x, herm):
    """independent float64 model of the step norms of the Krylov recurrences (modified Gram-Schmidt Arnoldi; twice
    re-orthogonalised for the Hermitian / Lanczos case): [r_1 / r_1, r_2 / r_1, ...] with r_j the norm of the residual
    after step j -- the quantities cola's RELATIVE stopping tests look at (arnoldi_fact: norm > tol * H[1, 0];
    lanczos_fact: subdiag[i - 1] > tol * subdiag[1]).  Stops at an exactly zero residual."""
    n = M.shape[0]
    dt = np.promote_types(M.dtype, x.dtype)
    Q = np.zeros((n, n + 1), dtype=dt)
    Q[:, 0] = x / np.linalg.norm(x)
    r = []
    for j in range(n):
        w = M @ Q[:, j]
        for _ in range(2 if herm else 1):
            for i in range(j + 1):
                w = w - (np.conj(Q[:, i]) @ w) * Q[:, i]
        nr = float(np.linalg.norm(w))
        r.append(nr)
        if nr == 0.0:
            break
        Q[:, j + 1] = w / nr
    if r[0] == 0.0:
        return [0.0]
    return [v / r[0] for v in r]


def early_admissible_tols(M, X, steps, herm, nprng, exact=False):
    """the tolerances of EARLY_TOLS at which the exhaustion of EVERY column (column j after steps[j] steps) is visible to
    cola's relative stopping test with a margin, according to the independent model `krylov_profile`: the residual at
    the exhaustion step is rounding noise (about eps x an amplification that grows when the eigenvalues involved are
    close), so it must lie below tol / EARLY_GUARD in three noise realisations (the operand and two one-ulp perturbations
    of it), and no earlier residual may come near any tolerance (no premature stop, which would be a TRUNCATED run whose
    convergence the property does not claim).  `exact`: the residual must be exactly 0.0 (exact-padding sub-stream)."""
    n = M.shape[0]
    worst = 0.0
    for j, m in enumerate(steps):
        for rep in range(1 if exact else 3):
            x = X[:, j] if rep == 0 else X[:, j] * (1.0 + 2.2e-16 * nprng.standard_normal(n))
            prof = krylov_profile(M, x, herm)
            if len(prof) < min(m, n) or any(v < EARLY_LIVE for v in prof[1:m - 1]):
                return []
            if m < n:
                if exact and not (len(prof) == m and prof[m - 1] == 0.0):
                    return []
                worst = max(worst, prof[m - 1])
    return [t for t in EARLY_TOLS if worst <= t / EARLY_GUARD]


def early_function(rng, allow_inv):
    """(fn, alpha): >= 60 % on the functions that are singular at 0 (log, isqrt, pow -2), where a spurious zero Ritz value
    of a badly trimmed buffer shows as inf / NaN"""
    r = rng.random()
    for (p, fn, al) in [(0.25, "log", None), (0.45, "isqrt", None), (0.66, "pow", Fraction(-2)), (0.76, "pow", Fraction(-1, 2)), (0.82, "sqrt", None),
                        (0.88, "exp", None), (0.94, "pow", Fraction(5, 2)), (1.01, "pow", Fraction(-1))]:
        if r < p:
            break
    if fn == "pow" and al == -1 and not allow_inv:
        fn, al = "log", None
    return fn, al


class EarlyGen:
    """cases of the early-termination stream (sub-streams EARLY_STREAMS); every case carries "stream", "kiters", "ktol",
    "kcap" (how max_iters was chosen) and "exhaust" (the step at which the Krylov space of each column is exhausted)"""

    def __init__(self, rng, nprng):
        self.rng = rng
        self.np = nprng
        self.G = Gen9(rng, nprng)

    def xrows(self, X):
        if np.iscomplexobj(X):
            return [[[float(z.real), float(z.imag)] for z in row] for row in X], "c128"
        return [[float(z) for z in row] for row in X], "f64"

    def spread(self, lam, k, gap):
        """k indices whose eigenvalues are pairwise at least `gap` apart (close eigenvalues amplify the rounding noise of
        the exhaustion residual), or None"""
        n = len(lam)
        for _ in range(40):
            idx = self.rng.sample(range(n), k)
            if all(abs(lam[i] - lam[j]) >= gap for a, i in enumerate(idx) for j in idx[a + 1:]):
                return idx
        return None

    def combo(self, V, idx, cplx):
        """combination of the eigenvectors V[:, idx]: coefficients of magnitude in [0.5, 2], random sign (random phase for a
        complex operand)"""
        rng = self.rng
        co = []
        for _ in idx:
            m = 0.5 + 1.5 * rng.random()
            co.append(m * np.exp(2j * np.pi * rng.random()) if cplx else m * rng.choice([-1.0, 1.0]))
        return V[:, idx] @ np.array(co)

    def generic(self, n, cplx):
        x = self.np.standard_normal(n)
        return x + 1j * self.np.standard_normal(n) if cplx else x

    def finish(self, stream, e, M, X, vec, steps, herm, alg, fn, al, exact=False):
        rng = self.rng
        n = M.shape[0]
        tols = early_admissible_tols(M, X, steps, herm and alg == "lanczos", self.np, exact)
        if not tols:
            return None
        m = max(steps)
        caps = [("n", n), ("n+3", n + 3)] + ([("m+1", m + 1)] * 2 if m < n else [])       # always > the exhaustion step
        kcap, kiters = rng.choice(caps)
        rows, xdt = self.xrows(X)
        c = {"op": e, "fn": fn, "cls": "early", "stream": stream, "alg": alg, "kiters": kiters, "ktol": rng.choice(tols), "kcap": kcap,
             "exhaust": [int(s) for s in steps], "x": rows, "vec": bool(vec), "xdt": xdt}
        if fn == "pow":
            c["alpha"] = {"q": [al.numerator, al.denominator]}
            c["alpha_int"] = rng.random() < 0.5
        return c

    def case(self, stream):
        rng = self.rng
        if stream == "early-exact-padding":
            return self.exact_padding_case(stream)
        n = rng.randint(4, 9)
        alg = "arnoldi" if rng.random() < 0.55 else "lanczos"
        herm = alg == "lanczos" or rng.random() < 0.2
        cplx = rng.random() < 0.3
        V = self.G.unitary(n, cplx) if herm else self.G.wellcond(n, cplx)
        few = stream == "early-few-distinct" or (stream == "early-batch-equal" and rng.random() < 0.5)
        if few:
            # 2..4 distinct, well separated eigenvalues, every one present, never a single distinct value
            d = rng.randint(2, min(4, n - 1))
            vals = [float(v) for v in self.G.eigs_pd(d, 0.7, 3.5)]
            lam = vals + [rng.choice(vals) for _ in range(n - d)]
            rng.shuffle(lam)
        else:
            lam = [float(v) for v in self.G.eigs_pd(n, 0.7, 3.5)]
        lam = np.array(lam)
        if herm:
            A = (V * lam) @ V.conj().T
            A = (A + A.conj().T) / 2
        else:
            A = (V * lam) @ np.linalg.inv(V)
        M = np.array(A) if cplx else np.array(np.real(A))
        xc = (rng.random() < 0.6) if cplx else (rng.random() < 0.1)       # complex operand (on a real operator: promoted buffers)
        single = stream in ("early-few-distinct", "early-invariant-subspace")
        fn, al = early_function(rng, allow_inv=single)
        if stream == "early-few-distinct":
            cols, steps = [self.generic(n, xc)], [d]
        elif stream == "early-invariant-subspace":
            k = rng.choice([2, 3])
            idx = self.spread(lam, k, 0.5)
            if idx is None:
                return None
            cols, steps = [self.combo(V, idx, xc)], [k]
        elif stream == "early-batch-equal":
            ncols = rng.randint(2, 3)
            if few:
                cols, steps = [self.generic(n, xc) for _ in range(ncols)], [d] * ncols
            else:
                k = rng.choice([2, 3])
                sets = []
                for _ in range(ncols):
                    idx = self.spread(lam, k, 0.5)
                    if idx is None or sorted(idx) in sets:
                        return None
                    sets.append(sorted(idx))
                cols, steps = [self.combo(V, s, xc) for s in sets], [k] * ncols
        else:
            # members that stop at DIFFERENT steps: one column in a 2- or 3-dimensional invariant subspace, the others generic
            # (exhausted at n) or in a larger invariant subspace (then the whole run still terminates early)
            k1 = rng.choice([2, 2, 3])
            kinds_ = [k1]
            for _ in range(rng.randint(1, 2)):
                kinds_.append(n if rng.random() < 0.5 or k1 + 1 > min(5, n - 1) else rng.randint(k1 + 1, min(5, n - 1)))
            rng.shuffle(kinds_)
            cols, steps = [], []
            for k in kinds_:
                if k == n:
                    cols.append(self.generic(n, xc))
                else:
                    idx = self.spread(lam, k, 0.5 if k <= 3 else 0.35)
                    if idx is None:
                        return None
                    cols.append(self.combo(V, idx, xc))
                steps.append(k)
        X = np.stack(cols, axis=1)
        if not xc:
            X = np.real(X)
        vec = X.shape[1] == 1 and rng.random() < 0.5
        e = ["dense", "c128" if cplx else "f64", n, n, self.G.rows(A, cplx)]
        inv_call = fn == "pow" and al == -1
        if alg == "lanczos":
            e = ["ann", "PSD" if (inv_call or rng.random() < 0.5) else "SelfAdjoint", e]      # pow -1 goes to CG, which asserts PSD
        elif herm and rng.random() < 0.5:
            e = ["ann", rng.choice(["PSD", "SelfAdjoint"]), e]
        return self.finish(stream, e, M, X, vec, steps, herm, alg, fn, al)

    def exact_padding_case(self, stream):
        """batch members that stop at different steps with EXACTLY zero residual: a dense block diagonal matrix with
        tridiagonal blocks of dyadic entries (positive sub- and super-diagonal, strictly diagonally dominant: real
        spectrum >= 1/2) and scaled first / last canonical vectors of blocks of different sizes as columns.  Arnoldi from
        such a vector walks through the canonical vectors of its block in exact arithmetic (every product, projection and
        norm is exact), the residual at the end of the block is exactly 0, the finished member keeps exact zero padding
        while the others go on, and the padding must not contribute (f(0) * 0).  Arnoldi only: the batched Lanczos loop
        divides the finished member by its zero norm (recorded finding C14 batch-member-breakdown)."""
        rng = self.rng
        sizes = [rng.randint(2, 4) for _ in range(rng.randint(2, 3))]
        if len(set(sizes)) == 1:
            sizes[rng.randrange(len(sizes))] = sizes[0] % 3 + 2
        n = sum(sizes)
        sym = rng.random() < 0.5
        M = np.zeros((n, n))
        offs, o = [], 0
        for s in sizes:
            for i in range(s):
                M[o + i, o + i] = rng.choice([2.5, 2.75, 3.0, 3.25, 3.5, 3.75, 4.0, 4.25, 4.5])
                if i + 1 < s:
                    b = rng.choice([0.5, 1.0])
                    M[o + i + 1, o + i] = b
                    M[o + i, o + i + 1] = b if sym else rng.choice([0.25, 0.5, 1.0])
            offs.append(o)
            o += s
        w = np.sort(np.linalg.eigvals(M).real)
        if np.min(np.diff(w)) < 0.05:          # the reference is evaluated through numpy's eig: keep the spectrum simple
            return None
        blocks = list(range(len(sizes)))
        if len(blocks) == 3 and rng.random() < 0.4:
            drop = rng.choice(blocks)
            rest = [b for b in blocks if b != drop]
            if sizes[rest[0]] != sizes[rest[1]]:
                blocks = rest
        rng.shuffle(blocks)
        X = np.zeros((n, len(blocks)))
        for j, b in enumerate(blocks):
            X[offs[b] + (0 if rng.random() < 0.6 else sizes[b] - 1), j] = rng.choice([1.0, 2.0, -1.0, 0.5, -1.5])
        steps = [sizes[b] for b in blocks]
        fn, al = early_function(rng, allow_inv=False)
        e = ["dense", "f64", n, n, [[float(v) for v in row] for row in M]]
        if sym and rng.random() < 0.4:
            e = ["ann", rng.choice(["PSD", "SelfAdjoint"]), e]
        return self.finish(stream, e, M, X, False, steps, False, "arnoldi", fn, al, exact=True)


def gen_early_cases(ctx, rng, nprng, n_cases):
    """the early-termination stream: `n_cases` cases over the sub-streams EARLY_STREAMS (a candidate whose exhaustion the
    model does not see with the required margin at any tolerance is dropped and redrawn)"""
    EG = EarlyGen(rng, nprng)
    cases = []
    for _ in range(n_cases):
        stream = rng.choices(EARLY_STREAMS, weights=EARLY_WEIGHTS)[0]
        for _attempt in range(60):
            c = EG.case(stream)
            if c is not None:
                cases.append(c)
                break
    return cases


# ------------------------------------------------------------------------------------------------ branch-domain stream
def gen_branch_cases(ctx, rng, nprng, n_cases):
    """pow / sqrt / isqrt of a Kronecker product of COMPLEX factors, inside and OUTSIDE the domain of the rule
    (a b)**alpha = a**alpha b**alpha (principal branch: arg a + arg b in (-pi, pi], Lean `MatFun.ArgSumOK`).  Inside, the
    result must be the principal power of the Kronecker product; outside, cola returns another branch: real = rule model,
    both differ from the principal f(A (x) B) -> recorded clause kron-pow-principal-branch (the clause is attached by the
    decidable predicate `kron_branch_violated`, never by the outcome).  Arguments are kept >= 0.12 rad away from the cut
    and argument sums >= 0.12 rad away from +-pi, so that rounding cannot move an eigenvalue across the branch cut."""
    G = Gen9(rng, nprng)
    cases = []
    angles = [0.0, 0.3, -0.3, 0.55, -0.55, 0.8, -0.8, 0.92, -0.92]          # in units of pi

    def spectrum(k, ang_pool):
        lam = []
        for _ in range(k):
            r = 0.6 + 2.4 * rng.random()
            lam.append(r * np.exp(1j * np.pi * rng.choice(ang_pool)))
        return np.array(lam)

    def sums_ok(specs):
        import itertools
        for combo in itertools.product(*specs):
            tot = sum(np.angle(z) for z in combo)
            for b in (np.pi, -np.pi, 3 * np.pi, -3 * np.pi):
                if abs(tot - b) < 0.12:
                    return False
        return True

    tries = 0
    while len(cases) < n_cases and tries < 40 * n_cases:
        tries += 1
        nf = rng.choice([2, 2, 2, 3])
        sizes = [rng.choice([2, 2, 3]) for _ in range(nf)]
        if int(np.prod(sizes)) > 12:
            continue
        inside = rng.random() < 0.35
        pool = [0.0, 0.3, -0.3] if inside else angles
        specs = [spectrum(k, pool) for k in sizes]
        if not sums_ok(specs):
            continue
        members = []
        for k, lam in zip(sizes, specs):
            if rng.random() < 0.5:
                members.append(["diag", "c128", [[float(z.real), float(z.imag)] for z in lam]])
            else:
                Q = G.unitary(k, True)
                Mx = (Q * lam) @ Q.conj().T
                members.append(["dense", "c128", k, k, G.rows(Mx, True)])
        e = ["kron"] + members
        n = int(np.prod(sizes))
        fn = rng.choice(["sqrt", "isqrt", "pow", "pow", "pow"])
        c = {"op": e, "fn": fn, "cls": "branch", "stream": "branch-" + ("inside" if inside else "mixed"), "alg": rng.choice(["none", "auto", "eig"])}
        if fn == "pow":
            al = rng.choice([Fraction(5, 2), Fraction(-1, 2), Fraction(1, 2), Fraction(-2), Fraction(10)])
            c["alpha"] = {"q": [al.numerator, al.denominator]}
            c["alpha_int"] = True
        X, vec, xdt = G.operand(n, True)
        c.update({"x": X, "vec": vec, "xdt": xdt})
        cases.append(c)
    # exact Gaussian-integer witnesses (the Lean counter-example and its neighbours)
    for d1, d2, fn in [([-1, 1], [-1, 1], "sqrt"), ([[0, 1], 2], [[0, 1], 3], "sqrt"), ([-1, [0, 2]], [[0, 1], 1], "isqrt"),
                       ([[-1, 1], 2], [[-1, 1], 1], "sqrt")]:
        cases.append({"op": ["kron", ["diag", "c128", d1], ["diag", "c128", d2]], "fn": fn, "cls": "branch", "stream": "branch-exact", "alg": "none",
                      "x": [[1.0], [2.0], [-1.0], [0.5]], "vec": True, "xdt": "f64"})
    return cases


# ------------------------------------------------------------------------------------------------ zero-column defect stream
ZERO_CLAUSE = "krylov-zero-column"


def krylov_zero_column(case, plan, A, X):
    """the decidable predicate of the clause krylov-zero-column: the call is pow / sqrt / isqrt on a Kronecker product whose plan has
    a Krylov base member, and -- following Kronecker._matmat (members applied in order i = 0, 1, ... to the fibres along axis i of the
    operand reshaped to (n_1, ..., n_k, cols)) -- that member receives an EXACTLY zero fibre.  The earlier members are applied as their
    principal f(M_j) (numpy eig / elementwise on a Diagonal); a zero fibre stays exactly zero under them."""
    if plan[0] != "kron" or core_kind(A) != "kron" or len(plan) - 1 != len(A.Ms):
        return False
    f = scalar_fn(case)
    sizes = [int(M.shape[0]) for M in A.Ms]
    Xa = np.asarray(X, dtype=np.complex128)
    if Xa.ndim == 1:
        Xa = Xa[:, None]
    ev = Xa.reshape(*sizes, -1)
    for i, (p, M) in enumerate(zip(plan[1:], A.Ms)):
        front = np.moveaxis(ev, i, 0).reshape(sizes[i], -1)
        if p[0] == "base" and p[1] in ("lanczos", "arnoldi"):
            if np.any(np.all(front == 0, axis=0)):
                return True
        if core_kind(M) == "diag":
            F = np.diag(f(np.asarray(M.diag).astype(np.complex128)))
        else:
            w, V = np.linalg.eig(np.asarray(M.to_dense()).astype(np.complex128))
            F = (V * f(w)) @ np.linalg.inv(V)
        F = np.where(np.isfinite(F), F, 0)
        out = (F @ front).reshape(sizes[i], *np.moveaxis(ev, i, 0).shape[1:])
        ev = np.moveaxis(out, 0, i)
    return False


def gen_zero_column_cases(ctx, rng, nprng, n_cases):
    """LABELLED DEFECT stream (not part of the contract streams, which avoid the situation: `kron_zero_column_risk`): Kronecker
    products whose Krylov member is handed a zero column.  A case that fails must fail by NaN / inf / LinAlgError AND the
    DRIVER must list the clause for it (Lean `UnOp.zeroFibreClause` on plan and exact operand; Engine.zero_column) -- then
    KNOWN-FINDING krylov-zero-column; the Python simulation `krylov_zero_column` is only the cross-check of the driver's
    decision (Engine.cross_check).  Anything else must be right."""
    G = Gen9(rng, nprng)
    cases = []
    for t in range(n_cases):
        k = rng.choice([2, 2, 3])
        herm = rng.random() < 0.6
        leaf = G.dense_leaf(k, "pd")
        if leaf[0] != "ann":
            leaf = ["ann", "SelfAdjoint", leaf]
        alg = "lanczos" if herm and rng.random() < 0.6 else "arnoldi"
        cplx = tree_is_cplx(leaf)
        c = {"cls": "zero-column", "stream": "defect-zero-column", "alg": alg, "kiters": k, "ktol": 1e-12}
        if t % 2 == 0:
            # singular structured co-member in front: f(0) = 0 zeroes a slice of the operand
            d = [0.0] + [0.7 + 2.0 * rng.random() for _ in range(rng.choice([1, 2]))]
            rng.shuffle(d)
            e = ["kron", ["diag", "c128" if cplx else "f64", d], leaf]
            n = len(d) * k
            X, vec, xdt = G.operand(n, cplx)
        else:
            # Krylov member first, operand with a vanishing slice
            m = rng.choice([2, 3])
            e = ["kron", leaf, ["diag", "c128" if cplx else "f64", [0.8 + 2.0 * rng.random() for _ in range(m)]]]
            n = k * m
            Xm = nprng.standard_normal((k, m))
            Xm[:, rng.randrange(m)] = 0.0
            X, vec, xdt = [[float(v)] for v in Xm.reshape(-1)], True, "f64"
        fn = rng.choice(["pow10", "pow52", "sqrt"])
        if fn == "sqrt":
            c["fn"] = "sqrt"
        else:
            al = Fraction(10) if fn == "pow10" else Fraction(5, 2)
            c.update({"fn": "pow", "alpha": {"q": [al.numerator, al.denominator]}, "alpha_int": True})
        c.update({"op": e, "x": X, "vec": vec, "xdt": xdt})
        cases.append(c)
    return cases


# ------------------------------------------------------------------------------------------------ exact Krylov-model stream
def gen_krylov_exact_cases(ctx, rng, nprng, n_cases):
    """Krylov base cases whose value the Lean driver computes by the EXACT Krylov model (un-normalised Lanczos / Arnoldi
    recurrence over Q[i], `A Q = Q H` re-checked, Q p(H) e1): integer Dense leaves that are diagonalisable with well
    separated eigenvalues and well conditioned eigenvectors, POLYNOMIAL functions (cube, x^2 + 1, x ** 10), explicit
    Lanczos / Arnoldi objects run to the full dimension, integer operands without zero block.  Three values: real (cola's
    float Krylov operator), code (exact Krylov model), spec (exact polynomial of the matrix); code == spec exactly."""
    cases = []
    tries = 0
    while len(cases) < n_cases and tries < 60 * n_cases:
        tries += 1
        n = rng.randint(3, 6)
        sym = rng.random() < 0.55
        if sym:
            M = np.zeros((n, n), dtype=np.int64)
            d = rng.sample(range(1, 2 * n + 3), n)
            for i in range(n):
                M[i, i] = d[i]
            for i in range(n - 1):
                M[i, i + 1] = M[i + 1, i] = rng.choice([1, 1, -1, 2])
            if rng.random() < 0.4 and n > 2:
                i, j = rng.sample(range(n), 2)
                if abs(i - j) > 1:
                    M[i, j] = M[j, i] = rng.choice([1, -1])
        else:
            M = np.zeros((n, n), dtype=np.int64)
            d = rng.sample(range(1, 2 * n + 3), n)
            for i in range(n):
                M[i, i] = d[i]
                for j in range(i + 1, n):
                    if rng.random() < 0.5:
                        M[i, j] = rng.choice([1, -1, 2])
            if rng.random() < 0.5:
                M = M.T.copy()
        w, V = np.linalg.eig(M.astype(float))
        gaps = np.abs(w[:, None] - w[None, :]) + 10 * np.eye(n)
        if np.min(gaps) < 0.4 or np.linalg.cond(V) > 30 or np.max(np.abs(w.imag)) > 0:
            continue
        leaf = ["dense", "f64", n, n, [[int(v) for v in row] for row in M]]
        alg = "arnoldi"
        if sym:
            pd = np.min(w.real) > 0
            leaf = ["ann", "PSD" if (pd and rng.random() < 0.5) else "SelfAdjoint", leaf]
            alg = rng.choice(["lanczos", "lanczos", "arnoldi"])
        shape = rng.choice(["leaf", "leaf", "bdiag", "T"])
        if shape == "leaf":
            e, N = leaf, n
        elif shape == "T":
            # (no composite below the Transpose: the action of Transpose(KrylovOperator) goes through the shim's linear_transpose)
            e, N = leaf, n
        else:
            # multiplicity 1: with a multiplicity m > 1 the member receives the m sub-vectors of the operand as ONE batch, and integer
            # sub-vectors may have different Krylov grades (found by the thorough tier: (3,-2,-1) has grade 2 for [[1,1,0],[1,3,1],[0,1,5]],
            # (3,3,3) grade 3 -> LinAlgError in the batched Lanczos loop: C14 batch-member-breakdown, C09 krylov-batch-unequal-exhaustion)
            m = 1
            e, N = ["bdiag", [leaf, ["diag", "f64", [rng.choice([1, 2, 3]) for _ in range(2)]]], [m, 1]], m * n + 2
        fn = rng.choice(["cube", "poly", "pow10"])
        c = {"op": e, "cls": "krylov-exact", "stream": "krylov-exact", "alg": alg, "kiters": n, "ktol": 1e-12}
        if fn == "pow10":
            c.update({"fn": "pow", "alpha": {"q": [10, 1]}, "alpha_int": rng.random() < 0.5})
        else:
            c.update({"fn": "apply", "ufn": fn})
        X = [[rng.choice([-2, -1, 1, 2, 3])] for _ in range(N)]
        c.update({"x": X, "vec": True, "xdt": "f64"})
        cases.append(c)
    return cases


def exact_domain_ok(case, ans):
    """exact stream: keep the case only when the scalar function is finite on the spectrum (the model's `exact`
    flag says every argument is exactly representable; otherwise the tree is evaluated numerically, which needs
    the spectrum in the domain: positive payloads)"""
    return True


def strip_ann(e):
    while e[0] == "ann":
        e = e[2]
    return e


def wants_clause_decision(c):
    """the cases on which the DRIVER decides the run-level clauses (RUN_CLAUSES) from the input: Kronecker roots (krylov-zero-column
    needs the zero pattern of operand and Diagonal members) and the unequal-batch sub-stream (krylov-batch-unequal-exhaustion needs
    operand, tol and max_iters)"""
    return strip_ann(c["op"])[0] == "kron" or c.get("stream") in (EARLY_UNEQUAL, "defect-zero-column")


def driver_case(c):
    d = {"id": c["id"], "op": c["op"] if is_exact_tree(c["op"]) else stub(c["op"]), "fn": c["fn"], "alg": c["alg"]}
    if wants_clause_decision(c):
        if not is_exact_tree(c["op"]):
            d["op"], d["dy"] = dyadic(c["op"]), True
        d["x"] = [[dy_scalar(z) for z in row] for row in c["x"]]
        if c.get("stream") == EARLY_UNEQUAL and c.get("ktol") is not None and c.get("kiters") is not None:
            d["ktol"] = dy_scalar(float(c["ktol"])) if not isinstance(c["ktol"], dict) else c["ktol"]
            d["kiters"] = int(c["kiters"])
    if "alpha" in c:
        d["alpha"] = c["alpha"]
    if "ufn" in c:
        d["ufn"] = c["ufn"]
    return d


# ------------------------------------------------------------------------------------------------ engine
class Engine:
    def __init__(self, ctx):
        self.ctx = ctx
        self.known = dict(PROVISIONAL_KNOWN)
        for k, v in common.known_clauses(ctx.prop).items():
            self.known[k] = v["what"]
        self.stats = collections.Counter()
        self.dist = {k: collections.Counter() for k in ("fn", "alg", "cls", "alpha", "plan_root", "bases", "n", "cols", "depth", "clauses", "powplan",
                                                       "stream", "early_stop", "early_alg_tol", "early_cap", "early_fn")}
        self.distinct = set()
        self.samples = []
        self.early_samples = {}
        self.maxerr = {"dense": 0.0, "krylov": 0.0}
        self.maxerr_stream = {}

    def evaluate(self, cases):
        ans = oracle.run_driver([driver_case(c) for c in cases], driver=DRIVER)
        out = []
        for c in cases:
            a = ans.get(c["id"], {"error": "no answer from driver"})
            real = run_real(c)
            try:
                st, det, facts = classify(c, a, real)
            except Exception as ex:  # noqa: BLE001  (reference computation failed: out-of-domain input of the generator)
                st, det, facts = "skipped", f"oracle failed: {type(ex).__name__}: {str(ex)[:100]}", {"clauses": []}
            if c.get("stream"):
                facts["steps"] = krylov_steps(real)
            self.cross_check(c, a, real)
            if st == "violation" and c.get("stream") == EARLY_UNEQUAL and "Y" in real:
                st, det, facts = self.unequal_batch(c, a, st, det, facts)
            if st == "violation":
                st, det, facts = self.zero_column(c, a, real, st, det, facts)
            out.append((c, a, real, st, det, facts))
        return out

    def driver_run_clauses(self, a):
        return [cl for cl in (a.get("clauses") or []) if cl in RUN_CLAUSES]

    def py_zero_column(self, c, a, real):
        """the Python cross-check of the driver's decision (None: not computable)"""
        try:
            A = real["A"] if "A" in real else build.Builder().build(c["op"])
            return bool(krylov_zero_column(c, a["plan"], A, operand(c)))
        except Exception:  # noqa: BLE001
            return None

    def py_unequal(self, c, a):
        """the generator's own statement about the batch: the columns' exhaustion steps (capped by min(max_iters, n)) differ"""
        if c.get("stream") != EARLY_UNEQUAL or c.get("vec") or len(c["x"][0]) < 2 or "exhaust" not in c:
            return None
        cap = min(int(c.get("kiters") or a.get("rows") or 0), int(a.get("rows") or 0))
        return len({min(int(s), cap) for s in c["exhaust"]}) > 1

    def cross_check(self, c, a, real):
        """the recorded run-level clauses are attributed by the DRIVER's list (decidable Lean predicates on the input:
        UnOp.zeroFibreClause, KrylovExact.unequalExhaustion); the Python predicates stay as a cross-check, on EVERY case the decision
        was requested for (failing or not): a disagreement means one of the two models of the clause is wrong"""
        if not wants_clause_decision(c) or "plan" not in a or "error" in a:
            return
        drv = self.driver_run_clauses(a)
        checks = []
        if strip_ann(c["op"])[0] == "kron":
            checks.append((ZERO_CLAUSE, self.py_zero_column(c, a, real)))
        checks.append((BATCH_CLAUSE, self.py_unequal(c, a)))
        for cl, py in checks:
            if py is None:
                continue
            self.stats["clause-predicate-cross-checked"] += 1
            if py != (cl in drv):
                self.stats["clause-predicate-disagreement"] += 1
                if self.stats["clause-predicate-disagreement"] <= 3:
                    common.violation(self.ctx, {"broken": f"the driver's decision of the clause {cl} ({cl in drv}; stop_steps {a.get('stop_steps')}) disagrees with "
                                                          f"the Python predicate ({py}; exhaust {c.get('exhaust')})",
                                                "case": {k: v for k, v in c.items()}, "plan": a.get("plan")}, no_input=True)

    def zero_column(self, c, a, real, st, det, facts):
        """a failing call is reported through the clause krylov-zero-column only if (i) it failed by NaN / inf in the result or by a
        LinAlgError and (ii) the DRIVER lists the clause for this input (Lean predicate `UnOp.zeroFibreClause` on plan and operand;
        the Python predicate `krylov_zero_column` is the cross-check)"""
        nonfinite = "Y" in real and not np.all(np.isfinite(np.asarray(real["Y"], dtype=np.complex128)))
        if not (nonfinite or real.get("err") == "error:LinAlgError") or "plan" not in a:
            return st, det, facts
        if ZERO_CLAUSE not in self.driver_run_clauses(a):       # attribution by the DRIVER's list (cross-checked in cross_check)
            return st, det, facts
        facts = dict(facts)
        facts["clauses"] = [ZERO_CLAUSE]
        return "known?", [ZERO_CLAUSE], facts

    def unequal_batch(self, c, a, st, det, facts):
        """a batch of the sub-stream `early-batch-unequal` came out wrong: re-run the SAME call column by column (each column
        as its own 1-D operand).  Only if every single-column result is right (same classification, same tolerance) the
        batching is the cause -- cola's batched Arnoldi / Lanczos loops keep stepping a member whose Krylov space is
        exhausted (recorded for C15 / C14: breakdownNotMasked, batch-member-breakdown) -- and the case is reported through
        the clause BATCH_CLAUSE; otherwise it stays an ordinary violation."""
        ncols = len(c["x"][0])
        if c.get("vec") or ncols < 2:
            return st, det, facts
        if BATCH_CLAUSE not in self.driver_run_clauses(a):      # attribution by the DRIVER's list (cross-checked in cross_check)
            return st, f"{det}; the driver's exhaustion steps of the columns {a.get('stop_steps')} do not differ", facts
        errs = []
        for j in range(ncols):
            cj = dict(c)
            cj["x"] = [[row[j]] for row in c["x"]]
            cj["vec"] = True
            rj = run_real(cj)
            try:
                sj, dj, fj = classify(cj, a, rj)
            except Exception as ex:  # noqa: BLE001
                sj, dj, fj = "skipped", f"{type(ex).__name__}", {}
            if sj != "ok":
                return st, f"{det}; column {j} alone: {sj} ({str(dj)[:160]})", facts
            errs.append(fj["err"]["real-spec"])
        facts = dict(facts)
        facts["clauses"] = [BATCH_CLAUSE]
        facts["columnwise"] = errs
        return "known?", [BATCH_CLAUSE], facts

    def nontrivial(self, c, a):
        return depth_of(c["op"]) >= 1 or c["op"][0] in ("dense", "ann") or (a.get("plan") or ["?"])[0] in ("base", "product", "inv")

    def account(self, c, a, real, st, det, facts):
        ctx = self.ctx
        self.stats["evaluations"] += 1
        self.stats[st if st != "known?" else ("batch-defect(columns alone are right)" if "columnwise" in facts else "code!=spec")] += 1
        if st in ("ok", "known?"):
            key = common.canon([c["op"], c["fn"], c.get("alpha"), c.get("ufn"), c["alg"], c["x"], c.get("vec")])
            if self.nontrivial(c, a):
                self.distinct.add(key)
            self.dist["fn"][c["fn"] + (":" + c["ufn"] if "ufn" in c else "")] += 1
            self.dist["alg"][c["alg"]] += 1
            self.dist["cls"][c["cls"]] += 1
            if "alpha" in c:
                self.dist["alpha"][str(frac(c["alpha"]))] += 1
            self.dist["plan_root"][(a.get("plan") or ["?"])[0]] += 1
            self.dist["powplan"][a.get("powplan", "n/a").split()[0]] += 1
            for b in facts.get("bases", []):
                self.dist["bases"][b] += 1
            self.dist["n"][str(a.get("rows"))] += 1
            self.dist["cols"]["1-D" if c.get("vec") else str(len(c["x"][0]))] += 1
            self.dist["depth"][str(depth_of(c["op"]))] += 1
            if "err" in facts:
                k = "krylov" if facts.get("krylov") else "dense"
                self.maxerr[k] = max(self.maxerr[k], facts["err"]["real-spec"] if st == "ok" else 0.0)
            if facts.get("exact"):
                self.stats["exact-compared"] += 1
            if facts.get("krylov_model"):
                self.stats["exact-krylov-model-compared"] += 1
                self.maxerr["real-vs-exact-krylov-model"] = max(self.maxerr.get("real-vs-exact-krylov-model", 0.0),
                                                                (facts.get("err") or {}).get("real-exact-krylov-model", 0.0))
            if c.get("stream"):
                sm = c["stream"]
                self.dist["stream"][sm] += 1
                self.dist["early_alg_tol"][f"{c['alg']}:{c.get('ktol')}"] += 1
                self.dist["early_cap"][str(c.get("kcap"))] += 1
                self.dist["early_fn"][c["fn"] + (":" + str(frac(c["alpha"])) if "alpha" in c else "")] += 1
                steps = facts.get("steps")
                if steps is not None:
                    cap = min(int(c.get("kiters") or a.get("rows") or 0), int(a.get("rows") or 0))
                    self.dist["early_stop"][sm + (":stopped-before-the-cap" if steps < cap else ":ran-to-the-cap")] += 1
                if st == "ok" and "err" in facts:
                    self.maxerr_stream[sm] = max(self.maxerr_stream.get(sm, 0.0), facts["err"]["real-spec"])
                    if sm not in self.early_samples and len(json.dumps(c)) < 2500:
                        self.early_samples[sm] = {"case": {k: v for k, v in c.items()}, "plan": a.get("plan"), "errors": facts.get("err"), "steps_executed": steps}
        if st == "ok" and len(self.samples) < 4 and self.nontrivial(c, a) and len(json.dumps(c)) < 1500:
            self.samples.append({"case": {k: v for k, v in c.items()}, "plan": a.get("plan"), "errors": facts.get("err")})
        if st in ("violation", "stale-model") and len(ctx.violations) >= 5:
            self.stats["further-" + st + "-not-reported"] += 1      # five replays are enough; keep the run short
            return
        if st == "known?":
            unknown = [cl for cl in det if cl not in self.known]
            if not det or unknown:
                common.violation(ctx, replay_payload(c, a, real, "real agrees with the rule model, the model differs from f(A), and no recorded finding covers it: clauses %s" % det, facts))
            else:
                for cl in det:
                    self.dist["clauses"][cl] += 1
                    common.known_finding(ctx, cl, self.known[cl])
        elif st == "violation":
            small = self.shrink(c, a, real, det, facts)
            common.violation(ctx, small)
        elif st == "stale-model":
            found = self.neighbourhood(c)
            if found is not None:
                common.violation(ctx, found)
            else:
                common.violation(ctx, dict(replay_payload(c, a, real, det, facts), broken="correspondence of the rule model (real agrees with f(A), not with the model)"),
                                 no_input=True)
        elif st == "driver-error":
            ctx.notes.append(f"driver error on case {c.get('id')}: {det}")

    def neighbourhood(self, c):
        """the model is off on `c`: look for an input near it on which the REAL code contradicts f(A)"""
        rng = random.Random(self.ctx.seed + 99)
        cands = []
        for i in range(24):
            d = dict(c)
            d["alg"] = rng.choice(ALGS)
            d["fn"] = rng.choice(["exp", "log", "sqrt", "isqrt", "pow", "apply"])
            if d["fn"] == "pow":
                al = rng.choice(EXPONENTS)
                d["alpha"] = {"q": [al.numerator, al.denominator]}
            if d["fn"] == "apply":
                d["ufn"] = rng.choice(["exp", "cube", "poly"])
            if not admissible(c.get("cls", "pd") if c.get("cls") != "exact" else "pd", d["fn"], d.get("alpha"), d.get("ufn")):
                continue
            d["id"] = 100000 + i
            cands.append(d)
        for (cc, a, real, st, det, facts) in self.evaluate(cands):
            if st == "violation":
                return replay_payload(cc, a, real, det, facts)
        return None

    def shrink(self, c, a, real, det, facts):
        """greedy: replace the tree by a sub-tree / simpler operand while the violation persists"""
        best = (c, a, real, det, facts)
        for _ in range(6):
            cur = best[0]
            cands = []
            subs = []
            e = cur["op"]
            if e[0] in ("prod", "sum", "kron", "kronsum"):
                subs = list(e[1:])
            elif e[0] == "bdiag":
                subs = list(e[1]) + [["bdiag", e[1], [1] * len(e[2])]] if any(m > 1 for m in e[2]) else list(e[1])
            elif e[0] in ("T", "H"):
                subs = [e[1]]
            elif e[0] == "ann":
                subs = [e[2]]
            for i, s in enumerate(subs):
                try:
                    n = size_of(s)
                except Exception:  # noqa: BLE001
                    continue
                d = dict(cur)
                d["op"] = s
                d["x"] = [row[:1] for row in cur["x"][:n]]
                while len(d["x"]) < n:
                    d["x"].append([1.0])
                d["id"] = 200000 + i
                cands.append(d)
            if len(cur["x"][0]) > 1:
                d = dict(cur)
                d["x"] = [row[:1] for row in cur["x"]]
                d["id"] = 200100
                cands.append(d)
            hit = None
            if cands:
                for r in self.evaluate(cands):
                    if r[3] == "violation":
                        hit = r
                        break
            if hit is None:
                break
            best = (hit[0], hit[1], hit[2], hit[4], hit[5])
        cc, aa, rr, dd, ff = best
        p = replay_payload(cc, aa, rr, dd, ff)
        p["original_case"] = {k: v for k, v in c.items()}
        return p

    def coverage(self):
        return {
            "evaluations": self.stats["evaluations"],
            "distinct_nontrivial": len(self.distinct),
            "outcomes": dict(self.stats),
            "distributions": {k: dict(v) for k, v in self.dist.items()},
            "max_relative_error_ok_cases": self.maxerr,
            "max_relative_error_ok_cases_early_streams": self.maxerr_stream,
            "samples": self.samples + list(self.early_samples.values())[:2],
            "compare": "relative max-norm error of F @ X against scipy's f(A) @ X: 1e-7 (dense paths), 1e-5 (Krylov paths run to the full dimension or to the "
                       "exhaustion of the Krylov space of the operand); "
                       "exact comparison of to_dense() with the Lean value on the exact-arithmetic subset; kind tree of the result = the model's plan",
        }


def krylov_steps(real):
    """number of Krylov steps the returned LanczosUnary / ArnoldiUnary executed in its last product (info['iterations'] is
    one more), or None for other kinds of results"""
    F = real.get("F")
    info = getattr(F, "info", None)
    if isinstance(info, dict) and "iterations" in info:
        try:
            return int(info["iterations"]) - 1
        except Exception:  # noqa: BLE001
            return None
    return None


def replay_payload(c, a, real, det, facts):
    r = {k: (v.tolist() if isinstance(v, np.ndarray) else v) for k, v in real.items() if k in ("err", "msg", "kinds", "shape")}
    if "Y" in real:
        Y = np.asarray(real["Y"])
        r["Y"] = [[float(np.real(z)), float(np.imag(z))] for z in Y.reshape(-1)]
    return {"case": {k: v for k, v in c.items()}, "model": {k: a.get(k) for k in ("plan", "powplan", "raise", "clauses", "exact")},
            "real": r, "detail": det if isinstance(det, str) else json.dumps(det), "errors": facts.get("err"), "krylov_steps_executed": facts.get("steps"),
            "replay_cmd": f"./check C09 quick --replay <this file>"}


# ------------------------------------------------------------------------------------------------ extra identities
def identities(ctx, rng, nprng, N):
    """identities on REAL outputs only (no model): sqrt twice, integer powers vs matrix_power, pow -1 vs inverse,
    exp(KronSum) vs expm of the dense Kronecker sum"""
    import cola
    G = Gen9(rng, nprng)
    checked = collections.Counter()
    for t in range(N):
        n = rng.randint(2, 7)
        cls = rng.choice(["pd", "rhp", "cplx"])
        e = G.tree(n, cls, rng.choice([0, 1, 2]))
        if sta_risk(e):
            continue
        A = build.Builder().build(e)
        M = np.asarray(A.to_dense())
        X = nprng.standard_normal((n, rng.randint(1, 3)))
        for algn in rng.sample(["none", "auto", "eig", "arnoldi"], 2):
            ki = None
            if algn == "arnoldi":
                # only where every Krylov operator of the results runs exactly to the full dimension (see krylov_iters)
                kis = {krylov_iters(e, "sqrt"), krylov_iters(e, "apply")}
                if None in kis or len(kis) != 1:
                    continue
                ki = kis.pop()
            alg = alg_obj(algn, n, ki)
            ex = () if alg is None else (alg,)
            tol = TOL_KRYLOV if algn == "arnoldi" else TOL_DENSE
            try:
                S = cola.linalg.sqrt(A, *ex)
                err = relerr(S @ (S @ X), M @ X)
                checked["sqrt-twice"] += 1
                if err > tol:
                    common.violation(ctx, {"identity": "sqrt(A) @ (sqrt(A) @ X) = A @ X", "case": {"op": e, "alg": algn, "fn": "sqrt", "x": X.tolist(), "cls": cls},
                                           "error": err, "tolerance": tol})
                k = rng.choice([2, 3, 9])
                P = cola.linalg.pow(A, k, *ex)
                err = relerr(P @ X, np.linalg.matrix_power(M, k) @ X)
                checked["int-power"] += 1
                if err > tol:
                    common.violation(ctx, {"identity": f"pow(A, {k}) @ X = A^{k} @ X", "case": {"op": e, "alg": algn, "fn": "pow", "alpha": k, "x": X.tolist(), "cls": cls},
                                           "error": err, "tolerance": tol})
                if algn in ("none", "auto", "eig"):
                    Pi = cola.linalg.pow(A, -1, *ex)
                    err = relerr(Pi @ (M @ X), X)
                    checked["pow-neg-one"] += 1
                    if err > tol:
                        common.violation(ctx, {"identity": "pow(A, -1) @ (A @ X) = X", "case": {"op": e, "alg": algn, "fn": "pow", "alpha": -1, "x": X.tolist(), "cls": cls},
                                               "error": err, "tolerance": tol})
            except Exception as ex_:  # noqa: BLE001
                ctx.notes.append(f"identity stream: {type(ex_).__name__}: {str(ex_)[:120]}")
        # exp(KronSum) vs expm of the dense Kronecker sum
        d = rng.choice([2, 3])
        a, b = G.tree(d, cls, 1), G.tree(rng.choice([2, 3]), cls, 1)
        if sta_risk(a) or sta_risk(b):
            continue
        Aa, Bb = build.Builder().build(a), build.Builder().build(b)
        K = cola.ops.KronSum(Aa, Bb)
        Ma, Mb = np.asarray(Aa.to_dense()), np.asarray(Bb.to_dense())
        Ks = np.kron(Ma, np.eye(Mb.shape[0])) + np.kron(np.eye(Ma.shape[0]), Mb)
        X = nprng.standard_normal((Ks.shape[0], 2))
        try:
            E = cola.linalg.exp(K)
            err = relerr(E @ X, sl.expm(Ks) @ X)
            checked["exp-kronsum"] += 1
            if err > TOL_DENSE or kinds(E)[0] != "kron":
                common.violation(ctx, {"identity": "exp(KronSum(A, B)) @ X = expm(A (+) B) @ X, returned as a Kronecker product",
                                       "case": {"op": ["kronsum", a, b], "fn": "exp", "alg": "none", "x": X.tolist(), "cls": cls}, "error": err,
                                       "kinds": kinds(E)})
        except Exception as ex_:  # noqa: BLE001
            ctx.notes.append(f"identity stream (kronsum): {type(ex_).__name__}: {str(ex_)[:120]}")
    return dict(checked)


def identities_early(ctx, rng, nprng, N):
    """model-free identities on early-terminating Krylov operands (no Lean plan, no eig reference for the result): operators
    and operands of the sub-streams early-few-distinct / early-invariant-subspace / early-batch-equal with explicit
    Arnoldi / Lanczos objects;  sqrt(A) @ (sqrt(A) @ X) = A @ X  and  isqrt(A) @ (isqrt(A) @ (A @ X)) = X.
    Every intermediate operand (sqrt(A) X, A X, isqrt(A) A X) lies in the same invariant subspace, so each of the
    products terminates early; the visibility of the exhaustion (early_admissible_tols) is checked on the scipy values of
    those intermediate operands as well.  The tolerance of the algorithm objects is 1e-7 here (cola's default for Arnoldi):
    the second and third operand are COMPUTED (relative error up to about 1e-13), so they lie in the invariant subspace only
    to that accuracy and their exhaustion residual is correspondingly larger than rounding level."""
    import cola
    EG = EarlyGen(rng, nprng)
    checked = collections.Counter()
    reported = 0
    for t in range(N):
        c = None
        for _ in range(60):
            c = EG.case(rng.choice(["early-few-distinct", "early-invariant-subspace", "early-batch-equal"]))
            if c is not None:
                break
        if c is None:
            continue
        A = build.Builder().build(c["op"])
        M = np.asarray(A.to_dense())
        X = operand(c)
        X2 = X[:, None] if X.ndim == 1 else X
        herm = c["alg"] == "lanczos"
        Ms, Mi = sl.sqrtm(M), np.linalg.inv(sl.sqrtm(M))
        tols = {EARLY_TOLS[0]}
        for Z in (X2, Ms @ X2, M @ X2, Mi @ (M @ X2)):
            tols &= set(early_admissible_tols(M, np.asarray(Z), c["exhaust"], herm, nprng))
        if not tols:
            continue
        ktol = rng.choice(sorted(tols))
        case = {"op": c["op"], "alg": c["alg"], "kiters": c["kiters"], "ktol": ktol, "exhaust": c["exhaust"], "stream": c["stream"], "x": c["x"], "vec": c["vec"],
                "xdt": c["xdt"], "cls": "early"}
        alg = alg_obj(c["alg"], int(A.shape[0]), c["kiters"], ktol)
        for name, fname, what in (("early:sqrt-twice", "sqrt", "sqrt(A) @ (sqrt(A) @ X) = A @ X"),
                                  ("early:isqrt-twice-times-A", "isqrt", "isqrt(A) @ (isqrt(A) @ (A @ X)) = X")):
            if reported >= 3:
                break                   # three replays of this kind are enough
            try:
                if fname == "sqrt":
                    F = cola.linalg.sqrt(A, alg)
                    err = relerr(F @ (F @ X), M @ X)
                else:
                    F = cola.linalg.isqrt(A, alg)
                    err = relerr(F @ (F @ (M @ X)), X)
                detail = None
            except Exception as ex_:  # noqa: BLE001
                err, detail = np.inf, f"the call raised {type(ex_).__name__}: {str(ex_)[:200]}"
            checked[name] += 1
            steps = krylov_steps({"F": F}) if detail is None else None
            if steps is not None and steps < min(c["kiters"], M.shape[0]):
                checked[name + ":stopped-before-the-cap"] += 1
            if not err <= TOL_KRYLOV:
                reported += 1
                common.violation(ctx, {"identity": what + " (early-terminating Krylov run)", "case": dict(case, fn=fname), "error": err, "detail": detail,
                                       "tolerance": TOL_KRYLOV})
    return dict(checked)


# ------------------------------------------------------------------------------------------------ scale family (round 5)
# The Krylov operators LanczosUnary / ArnoldiUnary return  Q P (f(theta) * w),  w = P^-1 e1 * ||v||  (`_weighted`, unary.py).
# The model (KrylovPoly.krylovVec / weighted) and the specification f(A) v are LINEAR in v: f(A)(c v) = c f(A) v for every
# scalar c, and the guard of `_weighted` drops a Ritz pair only when its weight is EXACTLY zero (KrylovPoly.weighted: `w = 0`).
# The weights carry the norm of the operand, so any ABSOLUTE threshold on them (e.g. `abs(w) <= eps`) breaks homogeneity for
# operands of small norm and drops dominant terms f(theta_j) w_j with a tiny w_j and a huge f(theta_j).  The other Krylov
# streams draw operands of norm O(1) only; this family scales them.
SCALES = [1e-8, 1e-17, 1e-30]
SCALE_ALPHAS = [Fraction(-2), Fraction(5, 2), Fraction(-1, 2), Fraction(1, 3), Fraction(10)]      # no integer shortcut: always apply_unary(x ** alpha)
SMALL_REL = [(1e-9, 1e-8), (1e-8, 1e-9)]     # (relative component on the largest eigenvalue, norm of the operand): weight = 1e-17 either way


def xrows_of(X):
    X = np.asarray(X)
    if np.iscomplexobj(X):
        return [[[float(z.real), float(z.imag)] for z in row] for row in X]
    return [[float(z) for z in row] for row in X]


def scale_family(ctx, rng, nprng, N):
    """HOMOGENEITY of the Krylov paths in the operand, and small components on eigenvalues where f is huge (model-free on the
    real side: the expected value is the numerical specification scipy f(M) / numpy eigh, scaled).
    * scale-single / scale-batch: Dense leaves as in the main stream (PD for Lanczos(n, 1e-12); right-half-plane non-normal,
      PD or complex for Arnoldi(n) / Arnoldi(n, 1e-12)), size 2-7, exp / log / sqrt / isqrt / pow(-2, 5/2, -1/2, 1/3, 10) /
      apply_unary(4 functions), a generic operand v of norm O(1); for every c in SCALES the call on the 1-D operand c v, and
      on the two-column operand [w, c v] next to a generic O(1) column w, must equal c * f(M) v (and f(M) w) — error of each
      column relative to the max-norm of ITS expected column, tolerance TOL_KRYLOV as for the unscaled case.
    * small-component: PD matrices with n - 1 eigenvalues in [0.5, 4] and the largest in [30, 36], f = exp, operand of norm
      1e-8 / 1e-9 with a relative component 1e-9 / 1e-8 along the eigenvector of the largest eigenvalue (absolute weight
      1e-17): exp(36) * 1e-9 dominates the result by a factor 2e2 .. 5e4; Lanczos(n, 1e-12) / Arnoldi(n, 1e-12) (with the
      default relative tolerance 1e-7 of Arnoldi the run may legitimately stop before it resolves a 1e-9 component: outside
      the quantifier 'run to the full Krylov dimension').  Expected: numpy eigh of the symmetric matrix (f(M) v = Q exp(l) Q^H v);
      observed rounding error on the unchanged code <= 7e-7 (= eps / relative component, 1200 cases), tolerance TOL_KRYLOV."""
    G = Gen9(rng, nprng)
    checked = collections.Counter()
    reported = collections.Counter()
    worst = 0.0

    def report(what, case, err, extra):
        reported[case["stream"]] += 1
        checked["failed:" + case["stream"]] += 1
        if reported[case["stream"]] <= 2:       # two replays per sub-family are enough
            common.violation(ctx, dict({"identity": what, "case": case, "error": err, "tolerance": TOL_KRYLOV}, **extra))

    def columns_err(Y, E):
        Y, E = np.asarray(Y), np.asarray(E)
        if Y.shape != E.shape:
            return np.inf
        if Y.ndim == 1:
            return relerr(Y, E)
        return max(relerr(Y[:, j], E[:, j]) for j in range(E.shape[1]))

    for t in range(N):
        n = rng.randint(2, 7)
        algn = rng.choice(["lanczos", "arnoldi"])
        cls = "pd" if algn == "lanczos" else rng.choice(["rhp", "pd", "cplx"])
        e = G.dense_leaf(n, cls)
        if algn == "lanczos" and e[0] != "ann":
            e = ["ann", "PSD", e]
        fn = rng.choice(["exp", "log", "sqrt", "isqrt", "pow", "apply"])
        base = {"op": e, "alg": algn, "fn": fn, "kiters": n, "cls": cls, "stream": "scale"}
        if algn == "lanczos" or rng.random() < 0.5:
            base["ktol"] = 1e-12
        if fn == "pow":
            al = rng.choice(SCALE_ALPHAS)
            base["alpha"] = {"q": [al.numerator, al.denominator]}
        if fn == "apply":
            base["ufn"] = rng.choice(["exp", "log", "cube", "poly"])
        try:
            A = build.Builder().build(e)
            M = np.asarray(A.to_dense())
            S = spec_dense(base, M)
            F = call_real(base, A)
        except Exception as ex_:  # noqa: BLE001
            ctx.notes.append(f"scale stream (setup): {type(ex_).__name__}: {str(ex_)[:120]}")
            continue
        cplx = np.iscomplexobj(M) or rng.random() < 0.2
        v = nprng.standard_normal(n) + (1j * nprng.standard_normal(n) if cplx else 0)
        w = nprng.standard_normal(n) + (1j * nprng.standard_normal(n) if cplx else 0)
        xdt = "c128" if cplx else "f64"
        Sv, Sw = S @ v, S @ w
        for c in SCALES:
            for batch in (False, True):
                X = np.stack([w, c * v], axis=1) if batch else (c * v)
                E = np.stack([Sw, c * Sv], axis=1) if batch else (c * Sv)
                name = "scale-batch" if batch else "scale-single"
                case = dict(base, x=xrows_of(X if batch else X[:, None]), vec=not batch, xdt=xdt, stream=name)
                try:
                    err, detail = columns_err(F @ X, E), None
                except Exception as ex_:  # noqa: BLE001
                    err, detail = np.inf, f"the call raised {type(ex_).__name__}: {str(ex_)[:200]}"
                checked[name] += 1
                if err <= TOL_KRYLOV:
                    worst = max(worst, err)
                else:
                    report("f(A) @ (c v) = c * (f(A) @ v): the Krylov paths are homogeneous in the operand (a Ritz pair is dropped only when its weight is "
                           "exactly zero)" + (", second column of [w, c v]" if batch else ""), case, err, {"scale": c, "detail": detail})
    # small component on an eigenvalue where f is huge
    for t in range(max(N // 2, 1)):
        n = rng.randint(3, 7)
        algn = rng.choice(["lanczos", "arnoldi"])
        cplx = rng.random() < 0.3
        lam = np.concatenate([G.eigs_pd(n - 1, 0.5, 4.0), [30.0 + 6.0 * rng.random()]])
        Q = G.unitary(n, cplx)
        Am = (Q * lam) @ Q.conj().T
        Am = (Am + Am.conj().T) / 2
        e = ["ann", "PSD", ["dense", "c128" if cplx else "f64", n, n, G.rows(Am, cplx)]]
        co = np.array([rng.choice([-1, 1]) * (0.5 + 1.5 * rng.random()) for _ in range(n - 1)] + [0.0])
        x = Q @ co
        x = x / np.linalg.norm(x)
        rel, sc = rng.choice(SMALL_REL)
        v = sc * (x + rel * Q[:, -1])
        case = {"op": e, "alg": algn, "fn": "exp", "kiters": n, "ktol": 1e-12, "cls": "pd", "stream": "scale-small-component",
                "x": xrows_of(v[:, None]), "vec": True, "xdt": "c128" if cplx else "f64"}
        try:
            A = build.Builder().build(e)
            M = np.asarray(A.to_dense())
            l2, Q2 = np.linalg.eigh(M)
            E = (Q2 * np.exp(l2)) @ (Q2.conj().T @ v)
            err, detail = relerr(call_real(case, A) @ v, E), None
        except Exception as ex_:  # noqa: BLE001
            err, detail = np.inf, f"the call raised {type(ex_).__name__}: {str(ex_)[:200]}"
        checked["scale-small-component"] += 1
        if err <= TOL_KRYLOV:
            worst = max(worst, err)
        else:
            report("exp(A) @ v = Q exp(L) Q^H v for an operand of norm %g with a relative component %g along the eigenvector of the largest eigenvalue "
                   "(where exp is huge: the term dominates the result)" % (sc, rel), case, err, {"scale": sc, "relative_component": rel, "detail": detail})
    out = dict(checked)
    out["scale:max-relative-error-ok"] = worst
    return out


# ------------------------------------------------------------------------------------------------ entry point
WITNESSES = [
    # exp of a singular PSD matrix on the Krylov paths (the former zero-eigenvalue mask, repaired in a523921)
    {"op": ["ann", "PSD", ["dense", "f64", 2, 2, [[1.0, 1.0], [1.0, 1.0]]]], "fn": "exp", "alg": "lanczos", "x": [[1.0], [0.0]], "vec": True, "xdt": "f64", "cls": "spsd"},
    {"op": ["ann", "PSD", ["dense", "f64", 2, 2, [[1.0, 1.0], [1.0, 1.0]]]], "fn": "exp", "alg": "arnoldi", "x": [[1.0], [0.0]], "vec": True, "xdt": "f64", "cls": "spsd"},
    {"op": ["ann", "PSD", ["dense", "f64", 2, 2, [[1.0, 1.0], [1.0, 1.0]]]], "fn": "exp", "alg": "eigh", "x": [[1.0], [0.0]], "vec": True, "xdt": "f64", "cls": "spsd"},
    # complex operand on a real operator (repaired in /repo a98c0be: the Krylov buffers follow the promoted dtype)
    {"op": ["ann", "PSD", ["dense", "f64", 2, 2, [[2.0, 1.0], [1.0, 3.0]]]], "fn": "exp", "alg": "lanczos", "x": [[[1.0, 1.0]], [[2.0, -1.0]]], "vec": True, "xdt": "c128", "cls": "pd"},
    {"op": ["ann", "PSD", ["dense", "f64", 2, 2, [[2.0, 1.0], [1.0, 3.0]]]], "fn": "sqrt", "alg": "arnoldi", "x": [[[1.0, 1.0]], [[2.0, -1.0]]], "vec": True, "xdt": "c128", "cls": "pd"},
    # f(c) * I keeps Identity's annotations (recorded finding scalar-times-annotated): Transpose of a BlockDiag holding a complex f(c) I
    {"op": ["T", ["bdiag", [["scalar", "c128", [1.5, 0.3], 1], ["scalar", "c128", [1.4, 0.6], 1]], [2, 1]]], "fn": "pow", "alpha": {"q": [-1, 2]}, "alg": "none",
     "x": [[[-1.0, -0.1]], [[1.4, -0.8]], [[0.8, -0.3]]], "vec": True, "xdt": "c128", "cls": "cplx"},
    # pow -1 with the Krylov algorithm objects (CG / GMRES since 57e439f)
    {"op": ["ann", "PSD", ["dense", "f64", 2, 2, [[2.0, 1.0], [1.0, 2.0]]]], "fn": "pow", "alpha": {"q": [-1, 1]}, "alg": "lanczos", "x": [[1.0], [0.0]], "vec": True, "xdt": "f64", "cls": "pd"},
    {"op": ["dense", "f64", 2, 2, [[2.0, 1.0], [0.0, 3.0]]], "fn": "pow", "alpha": {"q": [-1, 1]}, "alg": "arnoldi", "x": [[1.0], [0.0]], "vec": True, "xdt": "f64", "cls": "rhp"},
    # the one-argument structural forms
    {"op": ["kronsum", ["diag", "f64", [1.0, 2.0]], ["scalar", "f64", 0.5, 2]], "fn": "exp", "alg": "none", "x": [[1.0], [2.0], [3.0], [4.0]], "vec": False, "xdt": "f64", "cls": "pd"},
    {"op": ["kron", ["diag", "f64", [1.0, 2.0]], ["scalar", "f64", 0.5, 2]], "fn": "pow", "alpha": {"q": [5, 2]}, "alg": "none", "x": [[1.0], [2.0], [3.0], [4.0]], "vec": False, "xdt": "f64", "cls": "pd"},
    {"op": ["kron", ["diag", "f64", [1.0, 2.0]], ["scalar", "f64", 0.5, 2]], "fn": "sqrt", "alg": "none", "x": [[1.0], [2.0], [3.0], [4.0]], "vec": False, "xdt": "f64", "cls": "pd"},
    # early termination (Krylov space exhausted after 2 of 4 steps): the start vector (2,1,0,0) lies in the invariant subspace span(e1, e2)
    {"op": ["dense", "f64", 4, 4, [[1.0, 1.0, 0.0, 0.0], [0.0, 2.0, 1.0, 0.0], [0.0, 0.0, 3.0, 1.0], [0.0, 0.0, 0.0, 4.0]]], "fn": "log", "alg": "arnoldi", "kiters": 4, "ktol": 1e-7,
     "kcap": "n", "exhaust": [2], "stream": "early-invariant-subspace", "x": [[2.0], [1.0], [0.0], [0.0]], "vec": True, "xdt": "f64", "cls": "early"},
    {"op": ["ann", "PSD", ["dense", "f64", 4, 4, [[2.0, 1.0, 0.0, 0.0], [1.0, 2.0, 0.0, 0.0], [0.0, 0.0, 3.0, 1.0], [0.0, 0.0, 1.0, 4.0]]]], "fn": "isqrt", "alg": "lanczos", "kiters": 4,
     "ktol": 1e-10, "kcap": "n", "exhaust": [2], "stream": "early-invariant-subspace", "x": [[1.0], [2.0], [0.0], [0.0]], "vec": True, "xdt": "f64", "cls": "early"},
    # the witness of the recorded clause krylov-batch-unequal-exhaustion (columns exhausted after 2 and after 3 steps: (1,1,1,1) stays in x3 = x4)
    {"op": ["dense", "f64", 4, 4, [[1.0, 1.0, 0.0, 0.0], [0.0, 2.0, 1.0, 0.0], [0.0, 0.0, 3.0, 1.0], [0.0, 0.0, 0.0, 4.0]]], "fn": "pow", "alpha": {"q": [-2, 1]}, "alg": "arnoldi",
     "kiters": 4, "ktol": 1e-7, "kcap": "n", "exhaust": [2, 3], "stream": EARLY_UNEQUAL, "x": [[2.0, 1.0], [1.0, 1.0], [0.0, 1.0], [0.0, 1.0]], "vec": False, "xdt": "f64", "cls": "early"},
]


def run(ctx):
    gate = None
    gate_err = None
    try:
        gate = dict(common.lean_gate(ctx, MODULE))
        checked = [MODULE]
        for mod in SUB_MODULES:
            g = common.lean_gate(ctx, mod)
            gate["obligations"] += g["obligations"]
            gate["discharged"] += g["discharged"]
            gate["theorems"] = sorted(set(gate["theorems"]) | set(g["theorems"]))
            gate.setdefault("sub_modules", {})[mod] = {"status": "discharged", "obligations": g["obligations"]}
            checked.append(mod)
        files = " && ".join("lake env lean " + os.path.join("ColaVerif", *m.split(".")[1:]) + ".lean" for m in checked)
        gate["checker_cmd"] = f"cd lean && lake build {' '.join(checked)} && {files}" + \
            (" && " + " && ".join("lake env leanchecker " + m for m in checked) if ctx.thorough else "") + \
            "   # kernel re-check + #print axioms audit"
    except common.LeanGateError as ex:
        gate, gate_err = None, str(ex)
    rng = random.Random(ctx.seed * 104729 + 9)
    nprng = np.random.default_rng(ctx.seed * 7 + 9)
    eng = Engine(ctx)
    ident = {}
    if ctx.replay:
        rp = json.load(open(ctx.replay))
        c = rp.get("case") or rp.get("original_case")
        c["id"] = 0
        c.setdefault("cls", "pd")
        c.setdefault("alg", "none")
        if "alpha" in c and not isinstance(c["alpha"], dict):
            fr = Fraction(c["alpha"]).limit_denominator(1000)
            c["alpha"] = {"q": [fr.numerator, fr.denominator]}
        c.setdefault("xdt", "f64")
        res = eng.evaluate([c])
        for r in res:
            eng.account(*r)
        print(json.dumps({"replayed": {k: v for k, v in c.items() if k != "x"}, "status": [r[3] for r in res], "detail": [str(r[4])[:300] for r in res]})[:2000])
    else:
        cases = [dict(w) for w in WITNESSES]
        ntrees = 200 if not ctx.thorough else 3000
        cases += gen_cases(ctx, rng, nprng, ntrees)
        # the early-termination stream draws from generators of its own (derived from the seed), so the streams above and the
        # identity stream below see exactly the random sequence they saw before it existed
        erng = random.Random(ctx.seed * 104729 + 909)
        enprng = np.random.default_rng(ctx.seed * 7 + 909)
        cases += gen_early_cases(ctx, erng, enprng, 160 if not ctx.thorough else 1600)
        # round 2: the domain of the Kronecker rule for principal powers, and Krylov base cases evaluated by the exact Krylov model
        brng = random.Random(ctx.seed * 104729 + 1709)
        bnprng = np.random.default_rng(ctx.seed * 7 + 1709)
        cases += gen_branch_cases(ctx, brng, bnprng, 40 if not ctx.thorough else 400)
        cases += gen_krylov_exact_cases(ctx, brng, bnprng, 40 if not ctx.thorough else 400)
        cases += gen_zero_column_cases(ctx, brng, bnprng, 12 if not ctx.thorough else 120)
        for i, c in enumerate(cases):
            c["id"] = i
        batch = 800
        for i in range(0, len(cases), batch):
            for r in eng.evaluate(cases[i:i + batch]):
                eng.account(*r)
        ident = identities(ctx, rng, nprng, 30 if not ctx.thorough else 400)
        ident.update(identities_early(ctx, erng, enprng, 24 if not ctx.thorough else 240))
        # round 5: the scale family (own generators: the streams above see the random sequence they saw before it existed)
        srng = random.Random(ctx.seed * 104729 + 2909)
        snprng = np.random.default_rng(ctx.seed * 7 + 2909)
        ident.update(scale_family(ctx, srng, snprng, 60 if not ctx.thorough else 600))
    if gate_err is not None and not ctx.violations:
        common.violation(ctx, {"broken": f"Lean gate of {MODULE} / {', '.join(SUB_MODULES)}", "detail": gate_err[-3000:]}, no_input=True)
    cov = eng.coverage()
    cov["identity_checks"] = ident
    cov["rule"] = ("operator trees of size 2-8, depth <= 2, over dense leaves with generator-controlled spectra (PD: Q diag(l) Q^H, l in [0.5,4] well separated; "
                   "right-half-plane non-normal: V D V^-1 with cond(V) < 2.1 and |Im l| <= Re l / 2; singular PSD; complex) and the structured kinds "
                   "(Diagonal, ScalarMul, Identity, BlockDiag with multiplicities, Kronecker, KronSum, Transpose, Adjoint, Sum, scaled), plus exact integer / perfect-square "
                   "trees; x functions exp/log/sqrt/isqrt/pow(11 exponents)/apply_unary(4 functions) x algorithm objects {omitted, Auto, Eigh, Eig, Lanczos(n,1e-12), Arnoldi(n)} "
                   "x operands 1-D / 1-3 columns; distinct = canonical JSON of (tree, function, exponent, algorithm, operand); non-trivial = the tree has depth >= 1 or a dense leaf, "
                   "or the plan is a base case / product / inverse; "
                   "EARLY-TERMINATION stream (cls early, distribution `stream`): dense leaves of size 4-9 (exact-padding: 4-10) with explicit Arnoldi(max_iters, tol) / "
                   "Lanczos(max_iters, tol), max_iters in {exhaustion step + 1, n, n + 3}, tol in {1e-7, 1e-10, 1e-12} restricted to those at which an independent float64 "
                   "model of the recurrence sees the exhaustion with a margin of 100 (and no earlier residual below 1e-4): few-distinct (2-4 distinct eigenvalues in [0.7, 3.5], "
                   "generic operand), invariant-subspace (simple spectrum, operand = combination of 2-3 eigenvectors with eigenvalues >= 0.5 apart, coefficients in "
                   "[0.5, 2]), batch-equal (2-3 columns exhausted at the same step), batch-unequal (columns exhausted at different steps; a wrong batch whose columns are "
                   "all right one by one AND for which the driver decides unequal exhaustion steps is the recorded clause krylov-batch-unequal-exhaustion), exact-padding (block diagonal dyadic tridiagonal blocks, canonical "
                   "start vectors: exactly zero residual and padding, Arnoldi); functions log / isqrt / pow -2 (>= 60 %), pow -1/2, sqrt, exp, pow 5/2, pow -1 (single "
                   "column only); "
                   "BRANCH stream (cls branch): Kronecker products of 2-3 complex Diagonal / normal Dense factors (size <= 12) with eigenvalue arguments in "
                   "{0, +-0.3, +-0.55, +-0.8, +-0.92} pi, sqrt / isqrt / pow(5/2, -1/2, 1/2, -2, 10), 35 % inside the domain of the Kronecker rule, + 4 exact witnesses; "
                   "KRYLOV-EXACT stream (cls krylov-exact): integer Dense leaves 3-6 (symmetric tridiagonal+ / triangular, eigenvalue gaps >= 0.4, cond V <= 30), alone or in "
                   "a BlockDiag, cube / x^2+1 / x**10 with Lanczos(n, 1e-12) / Arnoldi(n, 1e-12), integer operand: real vs exact Krylov model vs exact spec; "
                   "DEFECT-ZERO-COLUMN stream (cls zero-column, labelled defect stream, not a contract stream): Kronecker(Diagonal with a zero entry, SelfAdjoint PD Dense leaf) "
                   "or Kronecker(leaf, Diagonal) with an operand whose reshaped slice vanishes, pow 10 / pow 5/2 / sqrt, Lanczos(k, 1e-12) / Arnoldi(k, 1e-12); "
                   "SCALE family (round 5, counted under identity_checks scale-single / scale-batch / scale-small-component, model-free): Dense leaves 2-7 with "
                   "Lanczos(n, 1e-12) / Arnoldi(n[, 1e-12]), all six functions, operands c v with c in {1e-8, 1e-17, 1e-30} alone and as second column next to an O(1) "
                   "column: f(A)(c v) = c f(A) v per column at 1e-5 relative to that column; PD matrices with largest eigenvalue in [30, 36], f = exp, operand of norm "
                   "1e-8 / 1e-9 with a 1e-9 / 1e-8 relative component on that eigenvalue (a Ritz weight of 1e-17 whose term dominates the result)")
    cov["provisional_known"] = PROVISIONAL_KNOWN
    cov["trusted_base_extra"] = [
        "numpy.linalg eigh/eig/inv as the parameters of the base cases when the plan is evaluated in float64 (harness/props/c09.py eval_plan); scipy.linalg expm/logm/sqrtm/fractional_matrix_power as the numerical specification",
        "rule selection is payload independent: for float payloads the Lean driver receives the tree with payloads replaced by 0 -- except on Kronecker roots and the "
        "sub-stream early-batch-unequal, where it receives tree and operand as exact dyadic rationals and decides the run-level clauses"]
    common.write_evidence(ctx, gate, cov, assumptions=[
        "exact arithmetic in the theorems; the dense eigensolvers and inv are parameters with contracts (A V = V D with V invertible; V unitary for eigh; B A = 1)",
        "Krylov paths: the theorem assumes a complete factorisation A Q = Q T (full Krylov dimension or invariant subspace, from C14/C15); convergence of truncated runs is not claimed",
        "numerical comparison only on spectra inside the function's domain with well-conditioned eigenvectors (generator-controlled); tolerance 1e-7 relative (1e-5 Krylov)",
        "early-termination stream: the exhaustion of the Krylov space is a floating-point event (residual at rounding level); cases are kept only when an independent "
        "float64 model of the recurrence puts that residual a factor 100 below the tolerance of the algorithm object, single eigenvectors and operators with one distinct "
        "eigenvalue are never generated (first-step breakdown is invisible to cola's relative test: C14 eigenvector-start-undetected, C15 breakdownNotMasked)",
        "UnOp.SoundE (contracts only: LAPACK eigendecomposition A V = V D, Vi V = 1; inv a left inverse; KrylovOK) replaces the assumption that the oracle matrix "
        "is f(A).  Round 3: for Lanczos KrylovOK is DERIVED from the loop model of C14 (C09_krylov_ok_of_lanczos; what remains assumed is EighContract = LAPACK eigh "
        "on the small tridiagonal matrix, satisfiable: eighSpectral_contract) and witnessed (C09_krylov_ok_witness, C09_lanczos_path_closed on [[2,1],[1,2]]); for "
        "Arnoldi (round 5, Properties/C09/Arnoldi.lean) KrylovOK is DERIVED for the model arnoldiK defined from C15's Arnoldi.run (C09_krylov_ok_of_arnoldi under C15's clauses "
        "noClip / stopExact + a diagonalisable Hessenberg block; C09_krylov_ok_of_arnoldi_full for runs to the full dimension: only noClip; tol > 0; remaining contract "
        "EigContract = LAPACK eig + solve on the small matrix, satisfiable: C09_eig_contract_satisfiable) and witnessed on the non-symmetric [[3,1],[2,2]] "
        "(C09_arnoldi_path_closed, C09_arnoldi_ok_witness); the .inv / .product clauses of SoundE are witnessed (Properties/C09/SoundEWitness.lean); "
        "driver's exact Krylov model vs theorem-side models: both equal p(A) v for polynomial f (C09_arnoldi_model_poly, C09_lanczos_model_poly; stream krylov-exact "
        "compares the driver's value with the exact p(A) v); stream `krylov-exact`: the Lean driver evaluates Krylov base "
        "cases with polynomial f by the exact Krylov model (Q p(H) e1 over Q[i], invariance re-checked) -- for non-polynomial f the Krylov value is SPEC-ONLY "
        "(f(A) by numpy eig in eval_plan), compared with tolerance 1e-5",
        "stream `branch-*`: principal powers of Kronecker products of complex factors; the clause kron-pow-principal-branch is attached by the decidable predicate "
        "`kron_branch_violated` (argument sums of member eigenvalues outside (-pi, pi], margin 1e-6; generated spectra keep 0.12 rad distance from the cut), "
        "Lean: C09_kron_pow_domain, C09_kron_pow_domain_witness, C09_kron_pow_counterexample; trees: C09_pow_kron_complex (+ _witness), any number of members "
        "C09_pow_kron_nary (+ _witness: three factors), positive spectra C09_pow_kron_positive",
        "labelled defect stream `defect-zero-column` (Kronecker products whose Krylov member receives a zero column): every failure must be NaN / LinAlgError AND "
        "the DRIVER must list the clause (Lean predicate UnOp.zeroFibreClause on plan and exact operand: Kronecker._matmat's member order, certainly-zero entries) "
        "-> recorded clause krylov-zero-column; the Python simulation `krylov_zero_column` is a cross-check on every Kronecker-root case",
        "recorded findings come from known_findings.json (scalar-times-annotated, kron-pow-principal-branch, krylov-zero-column, krylov-batch-unequal-exhaustion = C15 "
        "breakdownNotMasked / C14 batch-member-breakdown surfacing through C09); the latter is applied only to a wrong batch for which the DRIVER decides unequal "
        "exhaustion steps (Lean KrylovExact.unequalExhaustion: Gram pivots of the Krylov vectors, relative stopping rule, exact arithmetic on the dyadic inputs) and "
        "whose columns are all right when the same call is run on them one by one; cross-check: the generator's exhaustion steps; a disagreement between driver and "
        "Python predicate is a VIOLATION no-failing-input-found (outcome clause-predicate-disagreement)"])
    print(json.dumps({"outcomes": cov["outcomes"], "distinct_nontrivial": cov["distinct_nontrivial"], "clauses": cov["distributions"]["clauses"],
                      "identity_checks": ident, "max_err": cov["max_relative_error_ok_cases"], "gate": (gate or {}).get("obligations"), "wall_s": round(ctx.wall(), 1),
                      "notes": ctx.notes[:5]}))
