"""C05 — reported structural annotations are true of the represented matrix."""
import os

import common
from props import c01

MODULE = "ColaVerif.Properties.C05"
CALLS = ["info"]
CORPUS = os.path.join(common.ROOT, "harness", "corpus", "c05.jsonl")
ROUTINE_CALLS = {"groups": 0, "raised": 0, "classes": {}}


def run(ctx):
    def extra(ctx):
        checked, problems, samples = routine_stream(ctx)
        seen = set()
        for p in problems:
            key = (p["routine"], p["annotation"])
            if key in seen:
                continue
            seen.add(key)
            known = common.known_clauses(ctx.prop)
            if p["routine"] == "arnoldi.Q" and p["shape"][1] > p["shape"][0] and "arnoldi-q-more-columns-than-rows" in known:
                common.known_finding(ctx, "arnoldi-q-more-columns-than-rows", known["arnoldi-q-more-columns-than-rows"]["what"])
                continue
            common.violation(ctx, {"stream": "routine outputs", "problem": p,
                                   "why": f"{p['routine']} returned an operator annotated {p['annotation']} whose dense matrix does not have that property"})
        if ROUTINE_CALLS["groups"] == 0 or ROUTINE_CALLS["raised"] > 0.02 * ROUTINE_CALLS["groups"]:
            common.violation(ctx, {"broken": "routine-output stream of C05: too many routine calls raised, their annotations were not checked",
                                   "routine_calls": dict(ROUTINE_CALLS)}, no_input=True)
        return {"routine_outputs_checked": checked, "routine_output_samples": samples, "routine_notes": ctx.notes[:5],
                "routine_calls": {"groups": ROUTINE_CALLS["groups"], "raised": ROUTINE_CALLS["raised"], "raised_classes": ROUTINE_CALLS["classes"],
                                  "limit": "more than 2 % raising ends the run with a VIOLATION"},
                "routine_compare": "numerical: atol 1e-7 (Hermitian / PSD scaled by max|M|) on float64 / complex128 LAPACK results",
                "identity_assumption": "Python `is` is modelled by structural equality (Op.sameObj); build.Builder shares equal "
                                       "sub-expressions so that the two coincide on the generated inputs"}
    c01.run(ctx, calls=CALLS, module=MODULE, corpus=CORPUS, gen_kw={"ann_p": 0.5}, extra=extra)


# ------------------------------------------------------------------------------------------------
# routine outputs: annotations attached by library routines to their own results
def routine_stream(ctx):
    """calls lanczos / arnoldi / eig / svd / matrix functions on small matrices and tests every
    annotation of every returned operator numerically (orthonormality to atol 1e-7 etc.)."""
    import random
    import sys
    import numpy as np
    import shim  # noqa: F401
    import cola
    import importlib
    from cola.linalg.decompositions.lanczos import lanczos
    from cola.linalg.decompositions.arnoldi import arnoldi
    svdmod = importlib.import_module("cola.linalg.svd.svd")
    from cola.linalg.decompositions.decompositions import Lanczos, Arnoldi
    rng = random.Random(ctx.seed * 31 + 5)
    nprng = np.random.default_rng(ctx.seed + 11)
    checked, problems, samples = 0, [], []

    def truth(op, where, case):
        nonlocal checked
        M = np.asarray(op.to_dense())
        r, c = M.shape
        for a in op.annotations:
            n = a.__name__
            tol = 1e-7 * max(1.0, np.abs(M).max())
            if n == "SelfAdjoint":
                ok = r == c and np.allclose(M, M.conj().T, atol=tol)
            elif n == "PSD":
                ok = r == c and np.allclose(M, M.conj().T, atol=tol) and np.linalg.eigvalsh((M + M.conj().T) / 2).min() >= -tol
            elif n == "Stiefel":
                ok = np.allclose(M.conj().T @ M, np.eye(c), atol=1e-7)
            elif n == "Unitary":
                ok = r == c and np.allclose(M.conj().T @ M, np.eye(c), atol=1e-7) and np.allclose(M @ M.conj().T, np.eye(r), atol=1e-7)
            else:
                ok = False
            checked += 1
            if not ok:
                problems.append({"routine": where, "annotation": n, "shape": [r, c], "case": case})
        if len(samples) < 4:
            samples.append({"routine": where, "shape": [r, c], "annotations": sorted(a.__name__ for a in op.annotations)})

    N = 12 if not ctx.thorough else 80
    ROUTINE_CALLS.update({"groups": 0, "raised": 0, "classes": {}})
    for t in range(N):
        n = rng.randint(2, 7)
        cplx = rng.random() < 0.4
        B = nprng.standard_normal((n, n)) + (1j * nprng.standard_normal((n, n)) if cplx else 0)
        H = B + B.conj().T + n * np.eye(n)
        G = B + 2 * n * np.eye(n)
        k = rng.randint(1, n)
        case = {"n": n, "complex": cplx, "k": k, "t": t}
        Hop = cola.SelfAdjoint(cola.ops.Dense(H))
        Pop = cola.PSD(cola.ops.Dense(H @ H.conj().T))
        Gop = cola.ops.Dense(G)
        v = nprng.standard_normal(n) + (1j * nprng.standard_normal(n) if cplx else 0)
        def r_lanczos():
            Q, T, _ = lanczos(Hop, v.astype(H.dtype), max_iters=k, tol=1e-12)
            truth(Q, "lanczos.Q", case)
            truth(T, "lanczos.T", case)

        def r_arnoldi():
            Q, Hh, _ = arnoldi(Gop, v.astype(G.dtype), max_iters=k, tol=1e-12)
            truth(Q, "arnoldi.Q", case)

        def r_eig_alg():
            for alg, Aop, nm in [(cola.linalg.Eigh(), Hop, "eig.Eigh"), (cola.linalg.Eig(), Gop, "eig.Eig"),
                                 (Lanczos(max_iters=n, tol=1e-12), Hop, "eig.Lanczos"),
                                 (Arnoldi(max_iters=n, tol=1e-12), Gop, "eig.Arnoldi")]:
                vals, vecs = cola.linalg.eig(Aop, k, "LM", alg)
                truth(vecs, nm, case)

        d = nprng.standard_normal(n)

        def r_eig_struct():
            for Aop, nm in [(cola.ops.Diagonal(d), "eig.Diagonal"), (cola.ops.Identity((n, n), np.float64), "eig.Identity"),
                            (cola.ops.Triangular(np.triu(nprng.standard_normal((n, n))) + np.diag(np.arange(1., n + 1)), lower=False), "eig.Triangular")]:
                vals, vecs = cola.linalg.eig(Aop, k, "LM")
                truth(vecs, nm, case)

        m2 = rng.randint(2, 6)
        R = nprng.standard_normal((n, m2)) + (1j * nprng.standard_normal((n, m2)) if cplx else 0)
        kk = rng.randint(1, min(n, m2))

        def r_svd_alg():
            for alg, nm in [(svdmod.DenseSVD(), "svd.Dense"), (Lanczos(max_iters=min(n, m2), tol=1e-12), "svd.Lanczos")]:
                U, S, V = svdmod.svd(cola.ops.Dense(R), kk, "LM", alg)
                truth(U, nm + ".U", case)
                truth(V, nm + ".V", case)

        def r_svd_struct():
            for Aop, nm in [(cola.ops.Diagonal(np.abs(d) + 1), "svd.Diagonal"), (cola.ops.Identity((n, n), np.float64), "svd.Identity")]:
                U, S, V = svdmod.svd(Aop, kk, "LM")
                truth(U, nm + ".U", case)
                truth(V, nm + ".V", case)

        def r_unary():
            for f, nm in [(cola.linalg.exp, "exp"), (cola.linalg.sqrt, "sqrt")]:
                F = f(Pop if nm == "sqrt" else Hop, Lanczos(max_iters=n, tol=1e-12))
                truth(F, "unary." + nm + ".Lanczos", case)

        def r_unary_all():
            # every public matrix function on every dense path, on a PSD operator whose spectrum lies on BOTH sides of 1 (so that
            # log is indefinite) and on an indefinite SelfAdjoint one; user functions that go negative / non-real on the spectrum
            # (seeded change c05_m4: the Eigh path labelled its result PSD / SelfAdjoint whatever f is)
            w, Q = np.linalg.eigh(H @ H.conj().T)
            wn = np.exp(np.linspace(-1.5, 1.5, n)) if n > 1 else np.array([0.5])
            P2 = cola.PSD(cola.ops.Dense((Q * wn) @ Q.conj().T))
            algs = [("omitted", None), ("Auto", cola.linalg.Auto()), ("Eigh", cola.linalg.Eigh()), ("Eig", cola.linalg.Eig())]
            fns = [("exp", lambda A, *a: cola.linalg.exp(A, *a)), ("log", lambda A, *a: cola.linalg.log(A, *a)),
                   ("sqrt", lambda A, *a: cola.linalg.sqrt(A, *a)), ("isqrt", lambda A, *a: cola.linalg.isqrt(A, *a)),
                   ("pow2.5", lambda A, *a: cola.linalg.pow(A, 2.5, *a)), ("pow-2", lambda A, *a: cola.linalg.pow(A, -2, *a)),
                   ("apply(x-1)", lambda A, *a: cola.linalg.apply_unary(lambda x: x - 1.0, A, *a)),
                   ("apply(exp(ix))", lambda A, *a: cola.linalg.apply_unary(lambda x: np.exp(1j * x), A, *a))]
            for an, alg in algs:
                for fn, f in fns:
                    if fn.startswith("apply") and alg is None:
                        continue
                    F = f(P2, *([alg] if alg is not None else []))
                    truth(F, f"unary.{fn}.{an}.psd", case)
                for fn, f in (fns[0], fns[6]):
                    if fn.startswith("apply") and alg is None:
                        continue
                    F = f(Hop, *([alg] if alg is not None else []))
                    truth(F, f"unary.{fn}.{an}.selfadjoint", case)

        def r_inv_unitary():
            Ui = cola.linalg.inv(cola.Unitary(cola.ops.Dense(np.linalg.qr(B)[0])))
            truth(Ui, "inv.Unitary", case)

        # an exception is an observation: a routine group that raises has checked nothing, it is counted (with the class)
        # and does not abandon the other groups of the iteration; the caller fails the run when more than 2 % raised
        for grp in (r_lanczos, r_arnoldi, r_eig_alg, r_eig_struct, r_svd_alg, r_svd_struct, r_unary, r_unary_all, r_inv_unitary):
            ROUTINE_CALLS["groups"] += 1
            try:
                grp()
            except Exception as ex:  # noqa: BLE001
                ROUTINE_CALLS["raised"] += 1
                ROUTINE_CALLS["classes"][f"{grp.__name__[2:]}: {type(ex).__name__}"] = \
                    ROUTINE_CALLS["classes"].get(f"{grp.__name__[2:]}: {type(ex).__name__}", 0) + 1
                ctx.notes.append(f"routine stream case {case} {grp.__name__[2:]}: {type(ex).__name__}: {str(ex)[:120]}")
    return checked, problems, samples
