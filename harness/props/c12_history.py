"""C12, history part of "reports the step count and residual history": a report that was correct when it was returned must
stay what it was while later solves (or other instrumented loops) run — reports are values, not views of shared state.

The main C12 stream checks each report right after its own solve.  This stream keeps the reports of a sequence of solves
(cg calls, lazy `inv(A, CG())` operators, a Lanczos / Arnoldi loop in between) and re-reads every earlier report after each
later step (seeded change c12_m4: `while_loop_winfo(..., info={})`, one dictionary shared by all loops).

Observations are exact (integers, and float arrays compared bit for bit with their own earlier copies): nothing here
depends on rounding, so the stream cannot raise a false alarm."""
import copy

import numpy as np


def _snap(info):
    out = {}
    for k, v in info.items():
        try:
            out[k] = copy.deepcopy(np.asarray(v)) if not isinstance(v, (int, float)) else v
        except Exception:  # noqa: BLE001
            out[k] = repr(v)
    return out


def _same(a, b):
    if set(a) != set(b):
        return False
    for k in a:
        x, y = a[k], b[k]
        if isinstance(x, np.ndarray) or isinstance(y, np.ndarray):
            x, y = np.asarray(x), np.asarray(y)
            if x.shape != y.shape or not np.array_equal(x, y, equal_nan=True):
                return False
        elif x != y:
            return False
    return True


def history_stream(ctx, rng):
    """returns (n_checks, problems, samples); a problem is a dict usable as replay"""
    import shim  # noqa: F401
    import cola
    from cola.linalg.inverse.cg import cg
    from cola.linalg.decompositions.lanczos import lanczos
    from cola.linalg.decompositions.arnoldi import arnoldi
    nprng = np.random.default_rng(rng.getrandbits(32))
    problems, samples, checks = [], [], 0
    rounds = 6 if not ctx.thorough else 40
    for t in range(rounds):
        cplx = rng.random() < 0.4
        held = []   # (label, info object, snapshot, object id)
        steps = []
        L = rng.randint(3, 6)
        for s in range(L):
            n = rng.choice([6, 10, 16, 30])
            kappa = rng.choice([2.0, 50.0, 2000.0])      # very different iteration counts from one solve to the next
            Q = np.linalg.qr(nprng.standard_normal((n, n)) + (1j * nprng.standard_normal((n, n)) if cplx else 0))[0]
            d = np.geomspace(1.0, kappa, n)
            A = (Q * d) @ Q.conj().T
            A = (A + A.conj().T) / 2
            Aop = cola.PSD(cola.ops.Dense(A))
            b = nprng.standard_normal(n) + (1j * nprng.standard_normal(n) if cplx else 0)
            kind = rng.choice(["cg", "cg", "inv", "lanczos", "arnoldi", "cg-cap"])
            steps.append({"kind": kind, "n": n, "kappa": kappa, "complex": cplx})
            if kind == "cg":
                x, info = cg(Aop, b.astype(A.dtype), tol=1e-10, max_iters=5 * n)
            elif kind == "cg-cap":
                x, info = cg(Aop, b.astype(A.dtype), tol=1e-12, max_iters=2)
            elif kind == "inv":
                Ai = cola.linalg.inv(Aop, cola.linalg.CG(tol=1e-9, max_iters=5 * n))
                Ai @ b.astype(A.dtype)
                info = Ai.info
            elif kind == "lanczos":
                _, _, info = lanczos(cola.SelfAdjoint(cola.ops.Dense(A)), b.astype(A.dtype), max_iters=rng.randint(1, n), tol=1e-12)
            else:
                _, _, info = arnoldi(cola.ops.Dense(A), b.astype(A.dtype), max_iters=rng.randint(1, n), tol=1e-12)
            # every EARLIER report must still be what it was
            for (lab, obj, snap, oid) in held:
                checks += 1
                if obj is info:
                    problems.append({"what": "two loops returned the same report object", "first": lab, "second": f"{s}:{kind}",
                                     "history": steps[:], "round": t})
                elif not _same(_snap(obj), snap):
                    now = _snap(obj)
                    problems.append({"what": "an earlier report changed while a later loop ran", "report_of": lab, "changed_by": f"{s}:{kind}",
                                     "iterations_then": int(snap.get("iterations", -1)) if not isinstance(snap.get("iterations"), str) else None,
                                     "iterations_now": int(now.get("iterations", -1)) if not isinstance(now.get("iterations"), str) else None,
                                     "history": steps[:], "round": t})
            if isinstance(info, dict):
                held.append((f"{s}:{kind}", info, _snap(info), id(info)))
        if len(samples) < 2:
            samples.append({"history": [f"{x['kind']}(n={x['n']},kappa={x['kappa']})" for x in steps]})
    return checks, problems, samples
