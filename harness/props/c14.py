"""C14 — Lanczos returns an orthonormal Krylov basis and the projected tridiagonal matrix.

Three parties per input:
  real   cola.linalg.decompositions.lanczos.lanczos / lanczos_eigs on the NumPy backend (+ harness shim)
  model  lean/ColaVerif/Model/Lanczos.lean run by lean/DriverLanczos.lean on the same doubles
         (IEEE bit patterns travel through JSON)
  spec   the statements of the property, evaluated with numpy on the REAL outputs (failing-input oracle)

Comparison rule (compare: "tol").  s = ||A||_2.  Real and model differ by rounding only (different
summation orders), and Lanczos amplifies rounding by s / beta_j at every step, so:
  * a member's columns are DETERMINED up to its first numerical breakdown
    p = min{ j : beta_j <= THETA * s }  (THETA = 1e-5) and as long as the accumulated amplification
    prod_{t<j} max(1, 0.1 s / beta_t) stays <= 1e4; determined columns / diag / subdiag entries are
    compared with tolerance 1e-8 (entries of unit columns) resp. 1e-8 * s; beta_p itself is a rounding
    residue and is not compared;
  * the exit decision after step j (beta_j > tol * beta_1 for some member) is DETERMINED when some
    member is above its threshold by more than ETA * s or all members are below it by more than
    ETA * s (ETA = 1e-9; members past their breakdown count as undetermined); the column counts and
    info['iterations'] must agree as long as every decision up to the exit is determined; after the
    first undetermined decision only the determined prefix is compared.
Everything after a breakdown is rounding noise amplified by the normalisation and is judged by the
spec oracle only.

Streams (round 2).  The CONTRACT stream (88 %) generates inputs that satisfy the input conditions of the
theorems (C14_grade / C14_batch_inputs) with a margin above rounding: the grade d of every start vector
(number of eigen-components, `krylov_dim`) is unambiguous, and either d >= min(max_iters, n) for every
member, or tol > 1, or all members share one grade d >= 2 and tol >= 1e-7 (the exit at the grade is then
decided far above the rounding level).  The DEFECT stream (12 %) constructs, under a label, inputs of the
three recorded defect classes (batch-member-breakdown, eigenvector-start-undetected, tol-below-rounding);
the evidence reports per label how many inputs reproduced the defect, and the three witness inputs of
/verif/known_findings.json are replayed literally on every run.  For single start vectors the model's
`lanczosEigs` is executed by the driver (with a Jacobi `eigh`, whose contract defects — residual AND orthonormality
of its columns, the premises of C14_lanczos_eigs_unit — are measured and must be <= 1e-10) and compared with the
real `lanczos_eigs`; the model's Ritz vectors must be orthonormal up to the measured defects of the two premises
(the isometry <Q y_a, Q y_b> = <y_a, y_b> of C14_lanczos_eigs_unit), and the oracle demands non-zero, orthonormal
Ritz vectors of the real `lanczos_eigs`.

Excuses (round 3).  A spec failure is excused by a recorded clause (read from /verif/known_findings.json through
common.known_clauses only) per batch member and only under the decidable predicates listed in `attribute`: the failure
class is one that a run past a breakdown explains (never a structural one), the member's Krylov space is exhausted at
step bd in the model's run with bd equal to the grade of the start vector whenever the grade is decidable on the input,
the real run went beyond bd, the first bd columns satisfy every statement, and the clause name is decided by the code's
own exit test on the returned sub-diagonal.  An exception of the real code is always a spec failure (never excused).
"""
import json
import os
import random
import struct
import subprocess
import sys
import time
import warnings

import numpy as np

import common

MODULE = "ColaVerif.Properties.C14"
DRIVER = "DriverLanczos.lean"

# The three defect classes of cola's Lanczos found by this check.  All three are RECORDED for C14 in
# /verif/known_findings.json and are read ONLY through `common.known_clauses("C14")` (nothing is provisional in
# this module); the text below is documentation of the clause names that `attribute` emits:
#   batch-member-breakdown        lanczos_fact.cond_fun (xnp.any over the batch) / body_fun (V[..., i] / update): the loop
#       runs while ANY member is above its threshold, so a member whose Krylov space is exhausted earlier is normalised
#       by its (zero or rounding-level) residual norm: 0/0 = NaN columns or a normalised rounding-noise column.
#   eigenvector-start-undetected  cond_fun (subdiag[i-1] > tol * subdiag[1]): the exit test is relative to beta_1 only;
#       for a (numerical) eigenvector start beta_1 itself is a rounding residue and `beta_1 > tol * beta_1` holds for
#       every tol < 1: the exhausted Krylov space (dimension 1) is not detected.
#   tol-below-rounding            cond_fun: for tol = 0, 1e-14, ... the rounding residue beta_j ~ 1e-16 ||A|| left by an
#       exhausted Krylov space exceeds tol * beta_1, the loop normalises the residue and goes on (in exact arithmetic
#       the residue is 0 and the loop stops for every tol >= 0: C14_grade).

THETA = 1e-5     # numerical breakdown: beta_j <= THETA * ||A||
ETA = 1e-9       # margin (relative to ||A||) for a determined exit decision
AMP_MAX = 1e4    # accumulated amplification beyond which columns are not compared
CMP_TOL = 1e-8   # relative comparison tolerance real vs model
SPEC_TOL = 1e-8  # tolerance of the spec oracle (relative to ||A||, entries of unit vectors)
EIG_TOL = 1e-7   # Ritz values, model vs real (relative to ||A||): eigenvalues of two T's that agree to CMP_TOL
EIG_GAP = 1e-3   # Ritz vectors are compared (up to a unit factor) when the Ritz value is separated by EIG_GAP * ||A||
EIGVEC_TOL = 1e-6  # 1 - |cos(angle)| between the real and the model Ritz vector
MAX_VIOLATION_LINES = 5   # further failing inputs of the same run are counted, not written


# ----------------------------------------------------------------------------------------------
# doubles <-> bit patterns
def bits(x):
    return struct.unpack('<Q', struct.pack('<d', float(x)))[0]


def unbits(n):
    return struct.unpack('<d', struct.pack('<Q', int(n)))[0]


def enc_entry(x, cplx):
    if cplx:
        return [bits(x.real), bits(x.imag)]
    return bits(x)


def dec_entry(e):
    if isinstance(e, list):
        return complex(unbits(e[0]), unbits(e[1]))
    return unbits(e)


def dec_vec(v):
    return np.array([dec_entry(e) for e in v])


# ----------------------------------------------------------------------------------------------
# case generation
def spectrum(rng, n, kind, definite):
    """kappa <= 1e3: |lambda| in [1e-3, 1] * scale"""
    scale = 10.0 ** rng.uniform(-2, 2)
    if kind == "simple":
        lam = sorted(rng.uniform(0.05, 1.0) for _ in range(n))
        # keep them separated
        lam = [0.05 + 0.95 * (i + rng.uniform(0.2, 0.8)) / n for i in range(n)]
    elif kind == "repeated":
        g = rng.randint(1, max(1, min(n, 4)))
        vals = [0.05 + 0.95 * (i + rng.uniform(0.2, 0.8)) / g for i in range(g)]
        lam = [vals[rng.randrange(g)] for _ in range(n)]
    elif kind == "clustered":
        g = rng.randint(1, max(1, min(n, 3)))
        centres = [0.05 + 0.95 * (i + rng.uniform(0.2, 0.8)) / g for i in range(g)]
        width = 10.0 ** rng.uniform(-9, -4)
        lam = [centres[rng.randrange(g)] * (1 + width * rng.uniform(-1, 1)) for _ in range(n)]
    elif kind == "geometric":
        lam = [10.0 ** (-3 * i / max(1, n - 1)) for i in range(n)]
    else:
        raise ValueError(kind)
    if not definite:
        lam = [l if rng.random() < 0.5 else -l for l in lam]
    return np.array([l * scale for l in lam])


def make_hermitian(nrng, n, cplx, lam):
    M = nrng.standard_normal((n, n))
    if cplx:
        M = M + 1j * nrng.standard_normal((n, n))
    U, _ = np.linalg.qr(M)
    A = (U * lam) @ U.conj().T
    A = (A + A.conj().T) / 2
    if cplx:
        A[np.diag_indices(n)] = A[np.diag_indices(n)].real
    return A, U


def start_vector(rng, nrng, n, cplx, U, lam, kind):
    def coef():
        c = rng.uniform(0.3, 2.0) * rng.choice([-1, 1])
        if cplx:
            c = c * np.exp(1j * rng.uniform(0, 2 * np.pi))
        return c
    if kind == "generic":
        v = nrng.standard_normal(n)
        if cplx:
            v = v + 1j * nrng.standard_normal(n)
        return v
    k = {"eigvec": 1, "sum2": 2, "sum3": 3}[kind]
    k = min(k, n)
    idx = rng.sample(range(n), k)
    v = sum(coef() * U[:, j] for j in idx)
    return np.asarray(v)


LOW_TOLS = [0.0, 1e-14]
DEFECT_LABELS = ["batch-member-breakdown", "eigenvector-start-undetected", "tol-below-rounding"]


def gen_case(rng, cid, nmax, mode="contract"):
    """mode: "contract" (proposal for the contract stream, filtered by `in_contract`), "legacy" (the round-1 mixture),
    or one of DEFECT_LABELS (construction of that defect class)"""
    n = rng.choice([1, 2, 2, 3, 3, 4, 5, 6, 7, 8, 9, 10, 11, 12]) if nmax <= 12 else rng.randint(1, nmax)
    if mode in DEFECT_LABELS:
        n = max(n, 3)
    n = min(n, nmax)
    cplx = rng.random() < 0.4
    skind = rng.choice(["simple", "simple", "simple", "repeated", "repeated", "clustered", "geometric"])
    definite = rng.random() < 0.5
    nrng = np.random.default_rng(rng.getrandbits(64))
    exact = rng.random() < 0.12
    if exact:
        # exactly representable structure: diagonal / small-integer matrices, unit-vector starts:
        # breakdowns are exact zeros
        lam = np.array([float(rng.randint(-4, 6)) for _ in range(n)])
        if rng.random() < 0.5 or n == 1:
            A = np.diag(lam).astype(complex if cplx else float)
            U = np.eye(n, dtype=A.dtype)
        else:
            B = np.array([[float(rng.randint(-2, 2)) for _ in range(n)] for _ in range(n)])
            A = (B + B.T).astype(complex if cplx else float)
            if cplx:
                C = np.array([[float(rng.randint(-2, 2)) for _ in range(n)] for _ in range(n)])
                A = A + 1j * (C - C.T)
            U = np.eye(n, dtype=A.dtype)
        skind = "exact-integer"
    else:
        lam = spectrum(rng, n, skind, definite)
        A, U = make_hermitian(nrng, n, cplx, lam)
    batch = rng.random() < 0.3
    kinds = ["generic", "generic", "eigvec", "sum2", "sum3"]
    if mode == "batch-member-breakdown":
        batch = True
        k = rng.randint(2, 4)
        sk = [rng.choice(["eigvec", "sum2"])] + ["generic"] + [rng.choice(kinds) for _ in range(k - 2)]
        rng.shuffle(sk)
    elif mode == "eigenvector-start-undetected":
        batch, sk = False, ["eigvec"]
    elif mode == "tol-below-rounding":
        batch, sk = False, [rng.choice(["sum2", "sum3"])]
    elif mode == "contract" and batch:
        k = rng.randint(1, 4)
        common = rng.choice(["generic", "generic", "generic", "sum2", "sum3"])    # one grade for the whole batch
        sk = [common] * k
    elif batch:
        k = rng.randint(1, 4)
        sk = [rng.choice(kinds) for _ in range(k)]
    else:
        sk = [rng.choice(kinds)]
    starts = []
    for kd in sk:
        if exact:
            if kd == "generic":
                v = np.array([float(rng.randint(-3, 3)) for _ in range(n)])
                if not v.any():
                    v[rng.randrange(n)] = 1.0
            else:
                kk = min({"eigvec": 1, "sum2": 2, "sum3": 3}[kd], n)
                v = np.zeros(n)
                for j in rng.sample(range(n), kk):
                    v[j] = float(rng.choice([-2, -1, 1, 2, 3]))
            if cplx:
                v = v.astype(complex)
                if rng.random() < 0.5:
                    v = v * 1j
            starts.append(v)
        else:
            starts.append(start_vector(rng, nrng, n, cplx, U, lam, kd))
    max_iters = rng.randint(1, n + 3)
    tol = rng.choice([1e-7, 1e-7, 1e-7, 1e-7, 1e-10, 1e-4, 1e-2, 0.0, 0.5, 1.5, 1e-14])
    if mode == "batch-member-breakdown":
        max_iters = rng.randint(3, n + 3)
        tol = rng.choice([1e-7, 1e-7, 1e-10, 1e-4, 1e-2])
    elif mode == "eigenvector-start-undetected":
        max_iters = rng.randint(2, n + 3)
        tol = rng.choice([1e-7, 1e-7, 1e-10, 1e-4, 1e-2, 0.5, 0.0, 1e-14])
    elif mode == "tol-below-rounding":
        max_iters = rng.randint(min(n, 4), n + 3)
        tol = rng.choice(LOW_TOLS)
    elif mode == "contract" and any(kd != "generic" for kd in sk):
        tol = rng.choice([1e-7, 1e-7, 1e-7, 1e-4, 1e-2, 0.5, 1.5])
    dt = complex if cplx else float
    return {"id": cid, "n": n, "cplx": cplx, "A": np.asarray(A, dtype=dt),
            "starts": [np.asarray(v, dtype=dt) for v in starts], "batch": batch,
            "max_iters": max_iters, "tol": tol, "spectrum": skind, "definite": definite, "start_kinds": sk,
            "stream": "contract" if mode == "contract" else ("legacy" if mode == "legacy" else "defect:" + mode)}


def in_contract(c):
    """the input conditions of C14_grade / C14_batch_inputs, with a margin above rounding (see the module docstring)"""
    A = c["A"]
    s = norm2(A)
    cap = min(c["max_iters"], c["n"])
    ds = []
    for v in c["starts"]:
        d, _ = krylov_dim(A, v, s)
        if d is None:
            return False
        ds.append(d)
    if all(d >= cap for d in ds):
        # the rounding residue after a full Krylov space (cap == n == d) only matters for max_iters > n, where the cap stops the loop
        return True
    if c["tol"] > 1.0:
        return True                      # beta_1 > tol * beta_1 is false: one column, whatever the start
    if len(set(ds)) == 1 and ds[0] >= 2 and c["tol"] >= 1e-7:
        return True                      # common grade, exit decided far above rounding
    return False


def gen_contract_case(rng, cid, nmax):
    for _ in range(200):
        c = gen_case(rng, cid, nmax, "contract")
        if in_contract(c):
            return c
    c["stream"] = "legacy"
    return c


def case_to_json(c):
    cplx = c["cplx"]
    return {"id": c["id"], "n": c["n"], "cplx": cplx,
            "A": [[enc_entry(x, cplx) for x in row] for row in c["A"]],
            "starts": [[enc_entry(x, cplx) for x in v] for v in c["starts"]],
            "batch": c["batch"], "max_iters": c["max_iters"], "tol": bits(c["tol"]),
            "spectrum": c.get("spectrum"), "definite": c.get("definite"), "start_kinds": c.get("start_kinds"),
            "stream": c.get("stream"), "eigs": not c["batch"]}


def case_from_json(j):
    cplx = j["cplx"]
    dt = complex if cplx else float
    n = j["n"]
    A = np.array([[dec_entry(x) for x in row] for row in j["A"]], dtype=dt).reshape(n, n)
    return {"id": j.get("id", 0), "n": n, "cplx": cplx, "A": A,
            "starts": [np.array([dec_entry(x) for x in v], dtype=dt) for v in j["starts"]],
            "batch": j["batch"], "max_iters": j["max_iters"], "tol": unbits(j["tol"]),
            "spectrum": j.get("spectrum"), "definite": j.get("definite"), "start_kinds": j.get("start_kinds"),
            "stream": j.get("stream") or "replay"}


# ----------------------------------------------------------------------------------------------
# the real code
_COLA = {}


def cola_mods():
    if not _COLA:
        import shim  # noqa: F401  (installs vmap etc. into the NumPy backend)
        import cola
        from cola.linalg.decompositions import lanczos as lz
        _COLA["cola"] = cola
        _COLA["lz"] = lz
    return _COLA["cola"], _COLA["lz"]


def run_real(c, eigs=False):
    """returns dict(Q=[n x k per member], T=[k x k per member], iterations, errors) or dict(exc=...)"""
    cola, lz = cola_mods()
    A = c["A"].copy()
    Aop = cola.SelfAdjoint(cola.ops.Dense(A))
    xnp = Aop.xnp
    try:
        with warnings.catch_warnings(), np.errstate(all="ignore"):
            warnings.simplefilter("ignore")
            if c["batch"]:
                sv = np.stack([v.copy() for v in c["starts"]], axis=1)   # n x b: one start vector per column
                Q, T, info = lz.lanczos(Aop, sv, c["max_iters"], c["tol"])
                Qd = np.asarray(Q.to_dense())
                Td = np.asarray(xnp.vmap(T.__class__.to_dense)(T))
                Qs = [Qd[b] for b in range(Qd.shape[0])]
                Ts = [Td[b] for b in range(Td.shape[0])]
                out = {"Q": Qs, "T": Ts, "Qshape": tuple(Q.shape), "Tshape": tuple(T.shape)}
            else:
                sv = c["starts"][0].copy()
                Q, T, info = lz.lanczos(Aop, sv, c["max_iters"], c["tol"])
                out = {"Q": [np.asarray(Q.to_dense())], "T": [np.asarray(T.to_dense())],
                       "Qshape": tuple(Q.shape), "Tshape": tuple(T.shape)}
                if eigs:
                    ev, V, _ = lz.lanczos_eigs(Aop, c["starts"][0].copy(), c["max_iters"], c["tol"])
                    out["eigvals"] = np.asarray(ev)
                    out["eigvecs"] = np.asarray(V.to_dense())
            out["iterations"] = int(info["iterations"])
            out["errors"] = np.asarray(info["errors"], dtype=float)
        return out
    except Exception as ex:  # a valid input must not raise
        return {"exc": f"{type(ex).__name__}: {ex}"}


# ----------------------------------------------------------------------------------------------
# the model
def run_model(cases, nproc=16):
    """cases: list of JSON-able case dicts -> {id: answer}"""
    if not cases:
        return {}
    nproc = max(1, min(nproc, len(cases)))
    chunks = [cases[i::nproc] for i in range(nproc)]
    procs = []
    for ch in chunks:
        p = subprocess.Popen(["lake", "env", "lean", "--run", DRIVER], cwd=common.LEAN_DIR,
                             stdin=subprocess.PIPE, stdout=subprocess.PIPE, stderr=subprocess.PIPE, text=True)
        procs.append((p, ch))
    import threading
    res = {}
    errs = []

    def feed(p, ch):
        data = "".join(json.dumps({k: v for k, v in c.items() if k in ("id", "n", "cplx", "A", "starts", "max_iters", "tol", "eigs")}) + "\n" for c in ch)
        so, se = p.communicate(data)
        if p.returncode != 0:
            errs.append(se[-2000:])
        for line in so.splitlines():
            line = line.strip()
            if line:
                a = json.loads(line)
                res[a.get("id")] = a
    ths = [threading.Thread(target=feed, args=pc) for pc in procs]
    for t in ths:
        t.start()
    for t in ths:
        t.join()
    if errs:
        raise RuntimeError("Lean driver failed: " + errs[0])
    return res


def model_arrays(ans, cplx):
    """decode one answer: per member Q (n x k), diag (k), sub (k-1), sub_full (m+1), diag_full"""
    out = {"iters": ans["iters"], "iterations": ans["iterations"], "members": []}
    for b in range(len(ans["Q"])):
        cols = [dec_vec(col) for col in ans["Q"][b]]
        out["members"].append({
            "Q": np.array(cols).T if cols else np.zeros((0, 0)),
            "diag": dec_vec(ans["diag"][b]), "sub": dec_vec(ans["sub"][b]),
            "diag_full": dec_vec(ans["diag_full"][b]), "sub_full": dec_vec(ans["sub_full"][b])})
    out["errors"] = np.array([np.real(dec_entry(e)) for e in ans["errors"]], dtype=float)
    if "eigvals" in ans:
        out["eigvals"] = np.real(dec_vec(ans["eigvals"])) if ans["eigvals"] else np.zeros(0)
        cols = [dec_vec(col) for col in ans["eigvecs"]]
        out["eigvecs"] = np.array(cols).T if cols else np.zeros((0, 0))
        out["eigh_residual"] = unbits(ans["eigh_residual"])
        out["eigh_orth"] = unbits(ans["eigh_orth"])
    return out


# ----------------------------------------------------------------------------------------------
# spec oracle on the real outputs
def krylov_dim(A, v, s):
    """(d, S): exact Krylov dimension of (A, v) when it can be told apart from rounding, else None.
    S: orthonormal basis (n x d) of the invariant subspace spanned by the eigen-components of v."""
    n = A.shape[0]
    w, U = np.linalg.eigh(A)
    if s == 0:
        return 1, (v / np.linalg.norm(v)).reshape(n, 1)
    # group eigenvalues: gaps <= 1e-12 s are repeats, gaps >= 1e-3 s are separations, in between: ambiguous
    groups = [[0]]
    for i in range(1, n):
        gap = w[i] - w[i - 1]
        if gap <= 1e-12 * s:
            groups[-1].append(i)
        elif gap >= 1e-3 * s:
            groups.append([i])
        else:
            return None, None
    vn = v / np.linalg.norm(v)
    comps = []
    for g in groups:
        Ug = U[:, g]
        pg = Ug @ (Ug.conj().T @ vn)
        r = np.linalg.norm(pg)
        if r >= 1e-6:
            comps.append(pg / r)
        elif r > 1e-12:
            return None, None
    S = np.array(comps).T
    return len(comps), S


def oracle_member(c, A, s, v, Q, T, k_cap, prefix=False):
    """spec checks on one member's real output; returns list of (check, detail)"""
    fails = []
    n = c["n"]
    tol = c["tol"]
    st = s if s > 0 else 1.0
    if Q.ndim != 2 or T.ndim != 2 or Q.shape[0] != n or T.shape != (Q.shape[1], Q.shape[1]):
        return [("shape", f"Q {Q.shape} T {T.shape}")], {}
    k = Q.shape[1]
    if not (1 <= k <= k_cap):
        fails.append(("column-count", f"k={k} cap=min(max_iters,n)={k_cap}"))
        if k == 0:
            return fails, {"k": 0}
    if not (np.all(np.isfinite(Q)) and np.all(np.isfinite(T))):
        fails.append(("non-finite", "NaN/inf in Q or T"))
        return fails, {"k": k}
    G = Q.conj().T @ Q
    e = np.abs(G - np.eye(k)).max()
    if e > SPEC_TOL:
        fails.append(("orthonormal", f"max|Q^H Q - I|={e:.3e}"))
    e = np.abs(Q[:, 0] - v / np.linalg.norm(v)).max()
    if e > SPEC_TOL:
        fails.append(("first-column", f"max|q1 - v/|v||={e:.3e}"))
    # T real symmetric tridiagonal, non-negative off-diagonal
    if np.abs(np.imag(T)).max() > SPEC_TOL * st:
        fails.append(("T-real", f"max|Im T|={np.abs(np.imag(T)).max():.3e}"))
    Tr = np.real(T)
    off = np.triu(np.abs(T), 2) + np.tril(np.abs(T), -2)
    if off.max() != 0:
        fails.append(("T-tridiagonal", f"entry off the three diagonals {off.max():.3e}"))
    if k > 1:
        lo, up = np.diag(T, -1), np.diag(T, 1)
        if np.abs(lo - up).max() != 0:
            fails.append(("T-symmetric", "sub- and super-diagonal differ"))
        if np.real(lo).min() < 0:
            fails.append(("T-offdiag-nonneg", f"min={np.real(lo).min():.3e}"))
    P = Q.conj().T @ A @ Q
    e = np.abs(P - T).max()
    if e > SPEC_TOL * st:
        fails.append(("T=QhAQ", f"max|Q^H A Q - T|={e:.3e} (||A||={s:.3e})"))
    R = A @ Q - Q @ T
    if k > 1:
        e = np.abs(R[:, :k - 1]).max()
        if e > SPEC_TOL * st:
            fails.append(("AQ-QT", f"max over the first k-1 columns={e:.3e}"))
    beta_k = np.linalg.norm(R[:, k - 1])
    betas = np.real(np.diag(T, -1)) if k > 1 else np.zeros(0)
    beta1 = betas[0] if k > 1 else beta_k
    # Krylov span
    d, S = krylov_dim(A, v, s)
    if d is not None:
        e = np.linalg.norm(Q - S @ (S.conj().T @ Q), axis=0).max()
        if e > 1e-6:
            fails.append(("krylov-invariant-subspace", f"a column leaves span of the eigen-components of v by {e:.3e} (dim {d}, k={k})"))
        if k > d:
            fails.append(("stop-at-exhaustion", f"Krylov space has dimension {d} but {k} columns were returned"))
    # rank test while the Krylov matrix is well conditioned
    Kc = []
    w = v / np.linalg.norm(v)
    tested = 0
    for j in range(1, k + 1):
        Kc.append(w)
        Kj = np.array(Kc).T
        sv = np.linalg.svd(Kj, compute_uv=False)
        if sv[-1] < 1e-6 * sv[0]:
            break
        Uk, _, _ = np.linalg.svd(Kj, full_matrices=False)
        res = np.linalg.norm(Q[:, :j] - Uk @ (Uk.conj().T @ Q[:, :j]), axis=0).max()
        if res > 1e-9 * sv[0] / sv[-1] + 1e-9:
            fails.append(("krylov-rank", f"q_1..q_{j} not in K_{j}: residual {res:.3e} (cond {sv[0] / sv[-1]:.1e})"))
            break
        tested = j
        w2 = A @ w
        nw = np.linalg.norm(w2)
        if nw == 0:
            break
        w = w2 / nw
    # early exit
    if k < k_cap and not prefix:
        # the exit must be justified by the code's own criterion ...
        if k > 1 and beta_k > tol * beta1 * (1 + 1e-6) + 1e-9 * st:
            fails.append(("early-exit-unjustified", f"beta_k={beta_k:.3e} > tol*beta_1={tol * beta1:.3e}"))
        # ... and the eigenvalues of T are eigenvalues of A up to the residual beta_k
        ea = np.linalg.eigvalsh(A)
        et = np.linalg.eigvalsh((Tr + Tr.T) / 2)
        dist = np.abs(et[:, None] - ea[None, :]).min(axis=1).max()
        if dist > beta_k * (1 + 1e-6) + SPEC_TOL * st:
            fails.append(("ritz-exact-on-early-exit", f"an eigenvalue of T is {dist:.3e} away from spec(A), beta_k={beta_k:.3e}"))
    return fails, {"k": k, "beta_k": float(beta_k), "d": d, "rank_tested": tested}


def oracle_eigs(c, A, s, real, k_cap):
    fails = []
    st = s if s > 0 else 1.0
    ev, V = real["eigvals"], real["eigvecs"]
    Q, T = real["Q"][0], real["T"][0]
    k = Q.shape[1]
    if ev.shape != (k,) or V.shape != (c["n"], k):
        return [("eigs-shape", f"eigvals {ev.shape} eigvecs {V.shape} k={k}")]
    if k == 0:
        return [("eigs-empty", "no Ritz pair returned")]
    if not (np.all(np.isfinite(ev)) and np.all(np.isfinite(V))):
        return [("eigs-non-finite", "")]
    if np.abs(np.imag(ev)).max() > SPEC_TOL * st:
        fails.append(("eigs-real", ""))
    evr = np.real(ev)
    if np.any(np.diff(evr) < 0):
        fails.append(("eigs-ascending", f"{evr.tolist()}"))
    Tr = np.real(T)
    et = np.linalg.eigvalsh((Tr + Tr.T) / 2)
    if np.abs(np.sort(evr) - et).max() > SPEC_TOL * st:
        fails.append(("eigs-values", f"max diff to eigvalsh(T) {np.abs(np.sort(evr) - et).max():.3e}"))
    # Ritz pairs: A x - theta x = beta_k q_{k+1} (e_k^T y); the returned Ritz vectors are non-zero and orthonormal
    # (C14_lanczos_eigs_nonzero / C14_lanczos_eigs_unit: Q orthonormal and eigh's columns orthonormal)
    vn = np.linalg.norm(V, axis=0)
    if vn.min() < 0.5:
        fails.append(("ritz-nonzero", f"a returned Ritz vector has norm {vn.min():.3e}"))
    G = V.conj().T @ V
    if np.abs(G - np.eye(k)).max() > SPEC_TOL:
        fails.append(("ritz-orthonormal", f"{np.abs(G - np.eye(k)).max():.3e}"))
    R = A @ Q - Q @ T
    beta_k = np.linalg.norm(R[:, k - 1])
    Y = Q.conj().T @ V
    res = np.linalg.norm(A @ V - V * evr[None, :], axis=0)
    bound = beta_k * np.abs(Y[k - 1, :]) * (1 + 1e-6) + 10 * SPEC_TOL * st
    if np.any(res > bound):
        fails.append(("ritz-residual", f"max excess {(res - bound).max():.3e}"))
    return fails


# ----------------------------------------------------------------------------------------------
# real vs model
def analyse_model(c, s, M):
    """from the model's untrimmed beta sequences: per member the determined prefix length, and the
    step after which the exit decision is no longer determined"""
    st = s if s > 0 else 1.0
    m = min(c["max_iters"], c["n"])
    tol = c["tol"]
    B = len(M["members"])
    beta = [np.real(mem["sub_full"]) for mem in M["members"]]     # index 0..m
    pb = [None] * B          # step of the numerical breakdown (columns 1..pb determined)
    amp = [1.0] * B
    info = {"determined_cols": [m] * B, "breakdown": [None] * B}
    decision_undetermined_at = None
    exit_at = None
    decided = False
    for j in range(1, min(m, M["iters"]) + 1):   # the steps the model executed
        # member status at step j
        large_det, small_det = [], []
        for b in range(B):
            if pb[b] is not None:
                large_det.append(False)
                small_det.append(False)
                continue
            bj, b1 = beta[b][j], beta[b][1]
            if not np.isfinite(bj):
                pb[b] = j - 1
                info["determined_cols"][b] = j - 1
                large_det.append(False)
                small_det.append(False)
                continue
            thr = tol * b1
            eta = ETA * st * amp[b]
            large_det.append(bj - thr > eta)
            small_det.append(thr - bj > eta)
            if bj <= THETA * st:
                pb[b] = j
                info["breakdown"][b] = j
                info["determined_cols"][b] = j
            else:
                amp[b] *= max(1.0, 0.1 * st / bj)
                if amp[b] > AMP_MAX:
                    pb[b] = j
                    info["determined_cols"][b] = j
        if decided:
            continue            # keep walking only to record the members' breakdown steps
        if j == m:
            exit_at = m
            decided = True
        elif any(large_det):
            pass
        elif all(small_det):
            exit_at = j
            decided = True
        else:
            decision_undetermined_at = j
            decided = True
    info["exit_at"] = exit_at
    info["undetermined_at"] = decision_undetermined_at
    return info


def compare(c, s, real, M):
    """returns (list of mismatches, info)"""
    st = s if s > 0 else 1.0
    info = analyse_model(c, s, M)
    mism = []
    B = len(M["members"])
    kr = real["Q"][0].shape[1] if real["Q"][0].ndim == 2 else -1
    km = M["iters"]
    if len(real["Q"]) != B:
        return [("members", f"real {len(real['Q'])} model {B}")], info
    if info["undetermined_at"] is None:
        if kr != km:
            mism.append(("columns", f"real {kr} model {km} (determined exit at {info['exit_at']})"))
        if real["iterations"] != M["iterations"]:
            mism.append(("iterations", f"real {real['iterations']} model {M['iterations']}"))
        er, em = real["errors"], M["errors"]
        if er.shape != em.shape:
            mism.append(("errors-length", f"real {er.shape} model {em.shape}"))
        elif all(b is None for b in info["breakdown"]) and er.size:
            with np.errstate(all="ignore"):
                okk = np.abs(er - em) <= 1e-6 * np.maximum(1.0, np.abs(em))
            if not np.all(okk | ~np.isfinite(em)):
                mism.append(("errors", f"real {er.tolist()} model {em.tolist()}"))
        J = min(kr, km)
    else:
        J = min(kr, km, info["undetermined_at"])
    for b in range(B):
        Qr, Tr = real["Q"][b], real["T"][b]
        mem = M["members"][b]
        jj = min(J, info["determined_cols"][b])
        if jj <= 0:
            continue
        Qm = mem["Q"]
        e = np.abs(Qr[:, :jj] - Qm[:, :jj]).max()
        info["maxdiff_Q"] = max(info.get("maxdiff_Q", 0.0), float(e))
        if not e <= CMP_TOL:
            mism.append(("Q", f"member {b}: max diff {e:.3e} over {jj} columns"))
        dr = np.diag(Tr)[:jj]
        e = np.abs(dr - mem["diag"][:jj]).max()
        info["maxdiff_T"] = max(info.get("maxdiff_T", 0.0), float(e / st))
        if not e <= CMP_TOL * st:
            mism.append(("diag", f"member {b}: max diff {e:.3e}"))
        if jj > 1:
            sr = np.diag(Tr, -1)[:jj - 1]
            e = np.abs(sr - mem["sub"][:jj - 1]).max()
            info["maxdiff_T"] = max(info.get("maxdiff_T", 0.0), float(e / st))
            if not e <= CMP_TOL * st:
                mism.append(("subdiag", f"member {b}: max diff {e:.3e}"))
    info["compared_cols"] = J
    # lanczos_eigs: model (driver, Jacobi eigh) against the real code, when the whole run is determined
    if ("eigvals" in M and "eigvals" in real and info["undetermined_at"] is None and kr == km and not mism
            and all(b is None or b >= km for b in info["breakdown"]) and all(d >= km for d in info["determined_cols"])):
        info["eigh_residual"] = float(M["eigh_residual"])
        info["eigh_orth"] = float(M["eigh_orth"])
        if not (M["eigh_residual"] <= 1e-10 and M["eigh_orth"] <= 1e-10):
            mism.append(("eigh-contract-premise", f"driver's Jacobi eigh: residual {M['eigh_residual']:.2e} orth {M['eigh_orth']:.2e}"))
        # C14_lanczos_eigs_unit on the model's run: <Q y_a, Q y_b> = <y_a, y_b>; with the measured defects of the two
        # premises (orthonormality of the model's Q and of the Jacobi columns) the model's Ritz vectors are orthonormal
        Qm0, Vm0 = M["members"][0]["Q"], M["eigvecs"]
        if Vm0.ndim == 2 and Vm0.shape[1] == km and Qm0.ndim == 2 and Qm0.shape[1] == km and km > 0:
            oq = float(np.abs(Qm0.conj().T @ Qm0 - np.eye(km)).max())
            ov = float(np.abs(Vm0.conj().T @ Vm0 - np.eye(km)).max())
            info["model_ritz_orth"] = ov
            if not ov <= 2 * km * oq + M["eigh_orth"] + 1e-12:
                mism.append(("model-ritz-orthonormal", f"|V^H V - 1| = {ov:.3e} but |Q^H Q - 1| = {oq:.3e}, eigh columns {M['eigh_orth']:.2e}"))
            if np.linalg.norm(Vm0, axis=0).min() < 0.5:
                mism.append(("model-ritz-nonzero", "a Ritz vector of the model is (nearly) zero"))
        evr, evm = np.real(real["eigvals"]), M["eigvals"]
        if evr.shape != evm.shape:
            mism.append(("eigs-count", f"real {evr.shape} model {evm.shape}"))
        else:
            e = np.abs(evr - evm).max() if evr.size else 0.0
            info["maxdiff_eigs"] = float(e / st)
            if not e <= EIG_TOL * st:
                mism.append(("eigvals", f"max diff {e:.3e} (||A||={s:.3e})"))
            Vr, Vm = real["eigvecs"], M["eigvecs"]
            if Vr.shape != Vm.shape:
                mism.append(("eigvecs-shape", f"real {Vr.shape} model {Vm.shape}"))
            else:
                worst = 0.0
                for j in range(evm.size):
                    gap = min([abs(evm[j] - evm[i]) for i in range(evm.size) if i != j] or [np.inf])
                    if gap < EIG_GAP * st:
                        continue
                    cosang = abs(np.vdot(Vr[:, j], Vm[:, j])) / max(np.linalg.norm(Vr[:, j]) * np.linalg.norm(Vm[:, j]), 1e-300)
                    worst = max(worst, 1.0 - cosang)
                    info["eigvecs_compared"] = info.get("eigvecs_compared", 0) + 1
                info["maxdev_eigvecs"] = float(worst)
                if worst > EIGVEC_TOL:
                    mism.append(("eigvecs", f"1 - |cos| = {worst:.3e} for a Ritz vector with separated Ritz value"))
        info["eigs_compared"] = True
    return mism, info


# ----------------------------------------------------------------------------------------------
def norm2(A):
    return float(np.abs(np.linalg.eigvalsh(A)).max()) if A.size else 0.0


# Oracle failure classes that a run past a numerical breakdown EXPLAINS: statements about the content of the columns
# beyond the breakdown step, of the trailing block of T, and of quantities computed from them (the Ritz pairs of
# lanczos_eigs mix all columns of Q and all of T).  Every other class is STRUCTURAL (shapes, column count, first column,
# symmetric tridiagonal form, non-negative norms, real ascending eigh output, info['iterations'], exceptions, malformed
# outputs): no recorded clause explains it, whatever else happened on the same input.
EXPLAINED_MEMBER = frozenset({"non-finite", "orthonormal", "T-real", "T=QhAQ", "AQ-QT", "krylov-invariant-subspace",
                              "stop-at-exhaustion", "krylov-rank", "early-exit-unjustified", "ritz-exact-on-early-exit"})
EXPLAINED_EIGS = frozenset({"eigs-non-finite", "eigs-values", "ritz-orthonormal", "ritz-nonzero", "ritz-residual"})


def attribute(c, A, s, real, k_cap, breakdown, spec_fails, model_beta=None, stats=None):
    """Attribute spec failures to the recorded defect classes — per batch member, by decidable predicates.

    A member b with failures is excused only if ALL of the following hold (otherwise the whole case is not attributable
    and is reported as a violation):
      (1) every failure class of the member is one a run past a breakdown explains (EXPLAINED_MEMBER; for the single
          start vector of lanczos_eigs also EXPLAINED_EIGS) — structural failures are never excused;
      (2) the member's Krylov space is exhausted at step bd: beta_bd <= THETA ||A|| in the MODEL's run (`breakdown`; for
          the sizes beyond the model: on the returned T), and — whenever the grade d of the start vector is decidable on
          the INPUT (`krylov_dim`: eigen-components of v, unambiguous spectrum) — bd == d, i.e. exact arithmetic stops
          there (C14_grade); the real run returned MORE than bd columns;
      (3) the first bd columns (the determined part) satisfy every statement of the oracle, and the eigenvalues of the
          leading bd x bd block of T are eigenvalues of A up to the residual (C14_lanczos, `eigen`): the failures are
          located in the columns beyond bd.
    The clause is then decided by the code's own exit test after step bd, `subdiag[bd] > tol * subdiag[1]`, evaluated on
    the sub-diagonal the code RETURNED (an exactly vanishing residual, whose row of the dense T is NaN, counts as 0):
      test true, bd == 1  -> eigenvector-start-undetected   (beta_1 > tol * beta_1 although v is numerically an eigenvector)
      test true, bd >= 2  -> tol-below-rounding             (the rounding residue exceeds tol * beta_1)
      test false          -> batch-member-breakdown, only if another member's test is true after step bd (the `any` kept the
                             loop running); with no such member the continuation is unexplained: not attributable.
    Returns (clauses, extra failures); no clause = not attributable."""
    clauses, extra = set(), []
    if "exc" in real or not real.get("Q") or real["Q"][0].ndim != 2:
        return set(), extra
    st = s if s > 0 else 1.0
    B = len(c["starts"])
    tol = c["tol"]
    kr = real["Q"][0].shape[1]

    def beta_returned(b, j):
        T = real["T"][b]
        if T.ndim != 2 or not (1 <= j < T.shape[0]):
            return None
        x = float(np.real(T[j, j - 1]))
        return x if np.isfinite(x) else None

    def own_test(b, j):
        """`subdiag[j] > tol * subdiag[1]` of member b on the returned sub-diagonal; None = undecidable"""
        if b >= len(real["T"]) or b >= len(real["Q"]):
            return None
        Q = real["Q"][b]
        bj, b1 = beta_returned(b, j), beta_returned(b, 1)
        if bj is None and Q.shape[1] > j and np.all(np.isfinite(Q[:, :j])) and not np.all(np.isfinite(Q[:, j])):
            # column j+1 = V[j+1] / subdiag[j] is 0/0: subdiag[j] = 0 exactly, and `0 > tol * beta_1` is false
            return False
        if bj is None or b1 is None:
            mb = model_beta[b] if (model_beta is not None and b < len(model_beta)) else None
            if mb is not None and len(mb) > j and np.isfinite(mb[j]) and np.isfinite(mb[1]):
                return bool(mb[j] > tol * mb[1])
            return None
        return bool(bj > tol * b1)

    for b in sorted({b for (b, _, _) in spec_fails}):
        classes = {f for (bb, f, _) in spec_fails if bb == b}
        allowed = EXPLAINED_MEMBER | (EXPLAINED_EIGS if (b == 0 and not c["batch"]) else frozenset())
        if not classes <= allowed:
            return set(), extra                     # (1) a structural failure is never excused
        bd = breakdown[b] if b < len(breakdown) else None
        if bd is None or kr <= bd:
            return set(), extra                     # (2) no breakdown in the model's run / the loop did not go on
        d, _ = krylov_dim(A, c["starts"][b], s)
        if d is not None and d != bd:
            return set(), extra                     # (2) exact arithmetic does not stop at bd: nothing recorded explains it
        if stats is not None:
            stats["grade_decided_on_input" if d is not None else "grade_undecidable_model_run_only"] = \
                stats.get("grade_decided_on_input" if d is not None else "grade_undecidable_model_run_only", 0) + 1
        Qp, Tp = real["Q"][b][:, :bd], real["T"][b][:bd, :bd]
        pf, _ = oracle_member(c, A, s, c["starts"][b], Qp, Tp, k_cap, prefix=True)
        if pf:
            return set(), [(b, "prefix:" + f, dd) for f, dd in pf]
        # (3) the determined part ends with an exhausted Krylov space: its Ritz values are eigenvalues of A
        Rp = A @ Qp - Qp @ Tp
        beta_p = float(np.linalg.norm(Rp[:, bd - 1]))
        Tpr = np.real(Tp)
        dist = float(np.abs(np.linalg.eigvalsh((Tpr + Tpr.T) / 2)[:, None] - np.linalg.eigvalsh(A)[None, :]).min(axis=1).max())
        if dist > beta_p * (1 + 1e-6) + SPEC_TOL * st:
            return set(), [(b, "prefix:ritz-exact-at-breakdown", f"an eigenvalue of T[:{bd},:{bd}] is {dist:.3e} away from spec(A), "
                                                                  f"residual {beta_p:.3e}")]
        ot = own_test(b, bd)
        if ot is None:
            return set(), extra
        if ot:
            clauses.add("eigenvector-start-undetected" if bd == 1 else "tol-below-rounding")
        elif B > 1 and any(own_test(b2, bd) for b2 in range(B) if b2 != b):
            clauses.add("batch-member-breakdown")
        else:
            return set(), extra
    return clauses, extra


def real_breakdown(c, s, real):
    """breakdown steps read off the REAL output (sizes beyond the model's reach): first j with
    T[j, j-1] <= THETA ||A||, or the index of the first 0/0 column"""
    st = s if s > 0 else 1.0
    bds = []
    for Q, T in zip(real["Q"], real["T"]):
        k = T.shape[0]
        bd = None
        beta = np.real(np.diag(T, -1)) if k > 1 else np.zeros(0)
        bad = np.where(~np.all(np.isfinite(Q), axis=0))[0]
        if bad.size:
            # 0/0 after an exactly vanishing residual: the first NaN column follows the breakdown
            # (NaN rows of the dense T hide beta_bd = 0 itself: 0 * NaN in Tridiagonal.to_dense)
            bd = int(bad[0])
            if bd < 1:
                bd = None
        else:
            for j in range(1, k):
                bj = beta[j - 1]
                if not np.isfinite(bj):
                    break
                if bj <= THETA * st:
                    bd = j
                    break
        bds.append(bd)
    return bds


def evaluate(c, real, ans):
    """three-way verdict for one case; an exception while judging malformed outputs is a spec failure"""
    try:
        return evaluate_(c, real, ans)
    except Exception as ex:  # noqa: BLE001  (outputs of unexpected shape / type)
        import traceback
        return {"id": c["id"], "status": "spec-fail", "mismatch": [], "clauses": set(), "stats": {},
                "spec_fails": [(0, "malformed-output", f"{type(ex).__name__}: {ex}; {traceback.format_exc()[-600:]}")]}


def evaluate_(c, real, ans):
    """three-way verdict for one case.  returns dict(status, ...)"""
    A = c["A"]
    s = norm2(A)
    k_cap = min(c["max_iters"], c["n"])
    res = {"id": c["id"], "spec_fails": [], "mismatch": [], "clauses": set(), "stats": {}}
    if "error" in ans:
        res["status"] = "model-error"
        res["mismatch"] = [("model-error", ans["error"])]
        return res
    M = model_arrays(ans, c["cplx"])
    if "exc" in real:
        res["spec_fails"] = [(0, "raises", real["exc"])]
        res["status"] = "spec-fail"
        return res
    minfo_all = []
    for b, v in enumerate(c["starts"]):
        if b >= len(real["Q"]):
            break
        fails, minfo = oracle_member(c, A, s, v, real["Q"][b], real["T"][b], k_cap)
        minfo_all.append(minfo)
        res["spec_fails"] += [(b, f, d) for f, d in fails]
    if real["Q"] and real["Q"][0].ndim == 2:
        k = real["Q"][0].shape[1]
        if real["iterations"] != k + 1:
            res["spec_fails"].append((0, "info-iterations", f"iterations={real['iterations']} columns={k}"))
    if "eigvals" in real:
        res["spec_fails"] += [(0, f, d) for f, d in oracle_eigs(c, A, s, real, k_cap)]
    mism, cinfo = compare(c, s, real, M)
    res["mismatch"] = mism
    res["stats"] = {"cmp": cinfo, "members": minfo_all, "model_iters": M["iters"],
                    "real_cols": real["Q"][0].shape[1] if real["Q"] and real["Q"][0].ndim == 2 else None}
    if res["spec_fails"]:
        astats = {}
        res["clauses"], extra = attribute(c, A, s, real, k_cap, cinfo["breakdown"], res["spec_fails"],
                                          model_beta=[np.real(mem["sub_full"]) for mem in M["members"]], stats=astats)
        res["stats"]["attribution"] = astats
        res["spec_fails"] += extra
    if res["spec_fails"]:
        res["status"] = "modelled-defect" if (res["clauses"] and not mism) else "spec-fail"
    elif mism:
        res["status"] = "real-ne-model"
    else:
        res["status"] = "ok"
    return res


def payload(c, res, real):
    p = {"case": case_to_json(c), "status": res["status"],
         "spec_fails": [[int(b), f, d] for (b, f, d) in res["spec_fails"]],
         "mismatch": [[f, d] for (f, d) in res["mismatch"]],
         "clauses": sorted(res["clauses"]),
         "how_to_read": "case.A / case.starts / case.tol are IEEE-754 bit patterns of doubles ([re, im] for complex); "
                        "call cola.linalg.decompositions.lanczos.lanczos(SelfAdjoint(Dense(A)), start, max_iters, tol) "
                        "with start = starts[0] (1-d) or the n x b block with the starts as COLUMNS when case.batch"}
    if "exc" in real:
        p["real_exception"] = real["exc"]
    return p


def signature(c, res):
    st = res.get("stats", {})
    cm = st.get("cmp", {})
    return (c["n"], c["cplx"], c["batch"], len(c["starts"]), min(c["max_iters"], c["n"]), c["max_iters"] > c["n"],
            c["tol"], c.get("spectrum"), tuple(c.get("start_kinds") or ()), st.get("real_cols"),
            tuple(cm.get("breakdown") or ()))


def make_stream(rng, first_id, count, nmax):
    """88 % contract stream, 12 % labelled defect stream (4 % per recorded clause)"""
    out = []
    for i in range(count):
        if i % 25 < 3:
            out.append(gen_case(rng, first_id + i, nmax, DEFECT_LABELS[i % 25]))
        else:
            out.append(gen_contract_case(rng, first_id + i, nmax))
    return out


def witness_cases(first_id):
    """the witness inputs of the C14 entries of /verif/known_findings.json, literally"""
    w = []
    A1 = np.diag([1.0, 2.0, 3.0])
    w.append({"A": A1, "starts": [np.array([1.0, 0.0, 0.0]), np.array([1.0, 1.0, 1.0])], "batch": True, "max_iters": 3,
              "tol": 1e-7, "clause": "batch-member-breakdown"})
    A2 = np.array([[4.0, 1.0, 2.0], [1.0, 3.0, 0.0], [2.0, 0.0, 5.0]])
    w.append({"A": A2, "starts": [np.linalg.eigh(A2)[1][:, 0].copy()], "batch": False, "max_iters": 2, "tol": 1e-7,
              "clause": "eigenvector-start-undetected"})
    A3 = np.diag([1.0, 2.0, 3.0, 4.0])
    w.append({"A": A3, "starts": [np.array([1.0, 1.0, 0.0, 0.0])], "batch": False, "max_iters": 4, "tol": 0.0,
              "clause": "tol-below-rounding"})
    out = []
    for i, d in enumerate(w):
        out.append({"id": first_id + i, "n": d["A"].shape[0], "cplx": False, "A": d["A"], "starts": d["starts"],
                    "batch": d["batch"], "max_iters": d["max_iters"], "tol": d["tol"], "spectrum": "witness",
                    "definite": True, "start_kinds": ["witness"] * len(d["starts"]), "stream": "witness:" + d["clause"]})
    return out


def run(ctx):
    gate = None
    gate_err = None
    try:
        gate = common.lean_gate(ctx, MODULE)
    except common.LeanGateError as ex:
        gate_err = str(ex)
    t_gate = ctx.wall()
    rng = random.Random(ctx.seed * 104729 + 14)
    known = dict(common.known_clauses(ctx.prop))   # recorded clauses: ONLY from /verif/known_findings.json
    if ctx.replay:
        rp = json.load(open(ctx.replay))
        cases = [case_from_json(rp["case"])]
        cases[0]["id"] = 0
        big = []
    else:
        N = 2500 if not ctx.thorough else 40000
        nmax = 12
        cases = make_stream(rng, 0, N, nmax)
        if ctx.thorough:
            cases += make_stream(rng, N, 3000, 40)
        cases += witness_cases(9 * 10 ** 6)
        big = []
        if ctx.thorough:
            big = make_stream(rng, 10 ** 6, 400, 300)
    # model
    jcases = [case_to_json(c) for c in cases]
    t0 = time.time()
    answers = run_model(jcases, nproc=16)
    t_model = time.time() - t0
    # real + verdicts
    outcomes = {"ok": 0, "modelled-defect": 0, "spec-fail": 0, "real-ne-model": 0, "model-error": 0}
    dist = {"n": {}, "cap_vs_n": {"below": 0, "equal": 0, "above": 0}, "early_termination": 0, "batch_sizes": {},
            "complex": 0, "real": 0, "spectra": {}, "start_kinds": {}, "tol": {}, "undetermined_exit": 0,
            "numerical_breakdown_cases": 0, "eigs_checked": 0, "columns_compared": 0, "rank_tested_columns": 0,
            "clauses": {}, "excused_members": {}}
    streams = {}          # stream -> outcome counts
    produced = {}         # defect label -> how many inputs of its stream reproduced exactly that clause
    witness_seen = {}     # recorded clause -> did its literal witness reproduce it
    sigs = set()
    samples = []
    nontrivial = 0
    first_mismatch = None
    suppressed = 0
    t0 = time.time()
    for c in cases:
        do_eigs = not c["batch"]
        real = run_real(c, eigs=do_eigs)
        ans = answers.get(c["id"], {"error": "no answer from the driver"})
        res = evaluate(c, real, ans)
        outcomes[res["status"]] += 1
        stream = c.get("stream") or "replay"
        streams.setdefault(stream, {})
        streams[stream][res["status"]] = streams[stream].get(res["status"], 0) + 1
        if stream.startswith("defect:") and stream[7:] in res["clauses"]:
            produced[stream[7:]] = produced.get(stream[7:], 0) + 1
        if stream.startswith("witness:"):
            witness_seen[stream[8:]] = bool(res["status"] == "modelled-defect" and stream[8:] in res["clauses"])
        # distributions
        dist["n"][c["n"]] = dist["n"].get(c["n"], 0) + 1
        dist["cap_vs_n"]["below" if c["max_iters"] < c["n"] else "equal" if c["max_iters"] == c["n"] else "above"] += 1
        dist["batch_sizes"][len(c["starts"]) if c["batch"] else 0] = dist["batch_sizes"].get(len(c["starts"]) if c["batch"] else 0, 0) + 1
        dist["complex" if c["cplx"] else "real"] += 1
        dist["spectra"][c.get("spectrum")] = dist["spectra"].get(c.get("spectrum"), 0) + 1
        for kd in c.get("start_kinds") or []:
            dist["start_kinds"][kd] = dist["start_kinds"].get(kd, 0) + 1
        dist["tol"][repr(c["tol"])] = dist["tol"].get(repr(c["tol"]), 0) + 1
        st = res.get("stats", {})
        cm = st.get("cmp", {})
        if st.get("real_cols") is not None and st["real_cols"] < min(c["max_iters"], c["n"]):
            dist["early_termination"] += 1
        if cm.get("undetermined_at") is not None:
            dist["undetermined_exit"] += 1
        if any(b is not None for b in cm.get("breakdown", [])):
            dist["numerical_breakdown_cases"] += 1
        if "eigvals" in real:
            dist["eigs_checked"] += 1
        if cm.get("eigs_compared"):
            dist["eigs_model_vs_real"] = dist.get("eigs_model_vs_real", 0) + 1
            dist["eigvecs_compared"] = dist.get("eigvecs_compared", 0) + cm.get("eigvecs_compared", 0)
            dist["max_deviation_eigvals_rel"] = max(dist.get("max_deviation_eigvals_rel", 0.0), cm.get("maxdiff_eigs", 0.0))
            dist["max_deviation_eigvecs"] = max(dist.get("max_deviation_eigvecs", 0.0), cm.get("maxdev_eigvecs", 0.0))
            dist["max_eigh_contract_residual"] = max(dist.get("max_eigh_contract_residual", 0.0), cm.get("eigh_residual", 0.0))
            dist["max_eigh_contract_orth"] = max(dist.get("max_eigh_contract_orth", 0.0), cm.get("eigh_orth", 0.0))
            dist["max_model_ritz_orth"] = max(dist.get("max_model_ritz_orth", 0.0), cm.get("model_ritz_orth", 0.0))
        dist["columns_compared"] += max(0, cm.get("compared_cols") or 0) * len(c["starts"])
        dist["max_deviation_Q"] = max(dist.get("max_deviation_Q", 0.0), cm.get("maxdiff_Q", 0.0))
        dist["max_deviation_T_rel"] = max(dist.get("max_deviation_T_rel", 0.0), cm.get("maxdiff_T", 0.0))
        dist["rank_tested_columns"] += sum(mi.get("rank_tested", 0) for mi in st.get("members", []))
        sg = signature(c, res)
        if sg not in sigs:
            sigs.add(sg)
            if c["n"] >= 2 and (st.get("real_cols") or 0) >= 2:
                nontrivial += 1
        if len(samples) < 12 and c["n"] >= 3:
            samples.append({"n": c["n"], "complex": c["cplx"], "batch": len(c["starts"]) if c["batch"] else 0,
                            "max_iters": c["max_iters"], "tol": c["tol"], "spectrum": c.get("spectrum"),
                            "start_kinds": c.get("start_kinds"), "real_columns": st.get("real_cols"),
                            "model_columns": st.get("model_iters"), "status": res["status"]})
        # verdict
        if res["status"] == "modelled-defect":
            for kk, vv in (st.get("attribution") or {}).items():
                dist["excused_members"][kk] = dist["excused_members"].get(kk, 0) + vv
            for cl in sorted(res["clauses"]):
                dist["clauses"][cl] = dist["clauses"].get(cl, 0) + 1
            for cl in sorted(res["clauses"]):
                entry = known.get(cl)
                if entry is None:      # a clause that is not recorded excuses nothing
                    if len(ctx.violations) < MAX_VIOLATION_LINES:
                        common.violation(ctx, payload(c, res, real))
                    else:
                        suppressed += 1
                    break
                b0, f0, d0 = res["spec_fails"][0]
                common.known_finding(ctx, cl, f"{entry['what']}; first witness of this run: case {c['id']} "
                                     f"(n={c['n']}, max_iters={c['max_iters']}, tol={c['tol']}, batch={len(c['starts']) if c['batch'] else 0}, "
                                     f"starts={c.get('start_kinds')}): member {b0}: {f0}: {d0}")
                if not any(w.get("clause") == cl for w in ctx.notes):
                    path = common.write_replay(ctx, dict(payload(c, res, real), known_finding=cl))
                    ctx.notes.append({"clause": cl, "replay": path})
        elif res["status"] == "spec-fail":
            if len(ctx.violations) < MAX_VIOLATION_LINES:
                common.violation(ctx, payload(c, res, real))
            else:
                suppressed += 1
        elif res["status"] in ("real-ne-model", "model-error"):
            if first_mismatch is None:
                first_mismatch = (c, res, real)
        if ctx.replay:
            print(json.dumps({"replayed": c["id"], "status": res["status"],
                              "spec_fails": [[int(b), f, d] for b, f, d in res["spec_fails"]],
                              "mismatch": res["mismatch"], "clauses": sorted(res["clauses"])})[:3000])
    # large sizes (thorough): spec oracle on the real code only
    big_done = 0
    for c in big:
        real = run_real(c, eigs=not c["batch"])
        A = c["A"]
        s = norm2(A)
        k_cap = min(c["max_iters"], c["n"])
        fails, clauses = [], set()
        try:
            if "exc" in real:
                fails = [(0, "raises", real["exc"])]
            else:
                for b, v in enumerate(c["starts"]):
                    f, _ = oracle_member(c, A, s, v, real["Q"][b], real["T"][b], k_cap)
                    fails += [(b, x, d) for x, d in f]
                if fails:
                    bds = real_breakdown(c, s, real)
                    clauses, extra = attribute(c, A, s, real, k_cap, bds, fails)
                    fails += extra
        except Exception as ex:  # noqa: BLE001
            fails.append((0, "malformed-output", f"{type(ex).__name__}: {ex}"))
        big_done += 1
        dist["n"][c["n"]] = dist["n"].get(c["n"], 0) + 1
        dist["big_cases"] = dist.get("big_cases", 0) + 1
        bstream = "big:" + (c.get("stream") or "")
        bstatus = "ok" if not fails else ("modelled-defect" if clauses else "spec-fail")
        streams.setdefault(bstream, {})
        streams[bstream][bstatus] = streams[bstream].get(bstatus, 0) + 1
        if fails:
            res = {"status": "modelled-defect" if clauses else "spec-fail", "spec_fails": fails, "mismatch": [],
                   "clauses": clauses}
            outcomes[res["status"]] += 1
            unknown = [cl for cl in sorted(clauses) if cl not in known]
            if not clauses or unknown:
                if len(ctx.violations) < MAX_VIOLATION_LINES:
                    common.violation(ctx, payload(c, res, real))
                else:
                    suppressed += 1
            else:
                for cl in sorted(clauses):
                    dist["clauses"][cl] = dist["clauses"].get(cl, 0) + 1
                    common.known_finding(ctx, cl, f"{known[cl]['what']}")
        else:
            outcomes["ok"] += 1
    t_real = time.time() - t0
    obsolete = []
    if not ctx.replay:
        for cl in DEFECT_LABELS:
            if not witness_seen.get(cl):
                obsolete.append(cl)
                print(f"NOTE: property=C14 recorded clause {cl}: its witness input of known_findings.json did NOT reproduce the defect on "
                      f"this tree (stream reproduced it {produced.get(cl, 0)} times)", flush=True)
    if first_mismatch is not None:
        # real != model and no input of the stream violates the property statement on the real code
        c, res, real = first_mismatch
        p = payload(c, res, real)
        p["note"] = ("the Lean code model and the code disagree beyond the rounding rule on this input; the spec oracle "
                     "found no violated statement on the real output of this input")
        p["mismatching_cases"] = outcomes["real-ne-model"] + outcomes["model-error"]
        common.violation(ctx, p, no_input=not ctx.violations)
    if gate_err is not None and not ctx.violations:
        common.violation(ctx, {"broken": f"Lean gate of {MODULE}", "detail": gate_err[-3000:]}, no_input=True)
    cov = {
        "evaluations": len(cases) + big_done,
        "distinct_nontrivial": nontrivial,
        "distinct_signatures": len(sigs),
        "outcomes": outcomes,
        "compare": "tol",
        "compare_rule": __doc__.split("Comparison rule", 1)[1].strip(),
        "rule": ("distinct = distinct tuples (n, complex, batch size, effective cap, cap > n, tol, spectrum class, start kinds, "
                 "returned columns, breakdown steps); non-trivial = n >= 2 and at least 2 returned columns. Stream: Hermitian "
                 "A = U diag(lambda) U^H (kappa <= 1e3; simple / repeated / clustered / geometric spectra, definite and indefinite, "
                 "real symmetric and complex Hermitian) and exactly representable integer matrices (exact breakdowns); start vectors "
                 "generic / eigenvector / sum of 2-3 eigenvectors / batches of 1-4 columns; max_iters 1..n+3; "
                 "tol in {1e-7, 1e-10, 1e-4, 1e-2, 0, 0.5, 1.5, 1e-14}; 88 % of the inputs are filtered to satisfy the input conditions of the "
                 "theorems (contract stream: early termination only at a common grade >= 2 with tol >= 1e-7, or tol > 1), 12 % are labelled "
                 "constructions of the recorded defect classes, plus the three recorded witness inputs; all randomness from random.Random(seed)"),
        "distributions": dist,
        "streams": {
            "outcomes_by_stream": streams,
            "contract_stream_excused": streams.get("contract", {}).get("modelled-defect", 0) + streams.get("big:contract", {}).get("modelled-defect", 0),
            "defect_stream_reproduced_label": produced,
            "recorded_witness_reproduced": witness_seen,
            "recorded_clauses_not_reproduced_by_witness": obsolete,
            "note": "contract stream = inputs satisfying the input conditions of C14_grade / C14_batch_inputs with a margin above rounding "
                    "(in_contract); defect stream = labelled constructions of the three recorded defect classes; witness = the inputs recorded "
                    "in known_findings.json"},
        "samples": samples,
        "known_findings_seen": [list(k) for k in ctx.known],
        "violations_not_written": suppressed,
        "recorded_clauses": sorted(known),
        "finding_replays": ctx.notes,
        "timing_s": {"lean_gate": round(t_gate, 1), "model": round(t_model, 1), "real_and_oracle": round(t_real, 1)},
        "trusted_base_extra": [
            "Model/Lanczos.lean is generic over the law-free classes Lanczos.Num / Lanczos.VecOps; the theorems are about its "
            "instance at exact arithmetic (RCLike field, inner product space), the correspondence runs its Float instance",
            "numpy.linalg.eigh / LAPACK inside lanczos_eigs is a parameter of the model. ASSUMED contracts (hypotheses, not proved for "
            "LAPACK): `eigh_contract` (C14_lanczos_eigs: k values, T y_j = theta_j y_j — zero columns pass), `eigh_contract_nonzero` "
            "(C14_lanczos_eigs_nonzero: no zero column => non-zero Ritz vectors) and `eigh_contract_unit` (C14_lanczos_eigs_unit: orthonormal "
            "columns => orthonormal Ritz vectors, real Ritz values = Rayleigh quotients); witnessed exactly on a 2 x 2 run "
            "(C14_eigh_contract_witness) and, for the whole strengthened bundle, on a 3 x 3 run (C14_eigh_contract_unit_witness). The driver "
            "instantiates eigh with cyclic Jacobi rotations and reports the measured residual and orthonormality defect of its columns "
            "(both required <= 1e-10); the real lanczos_eigs output is checked for non-zero orthonormal Ritz vectors by the oracle"],
    }
    common.write_evidence(ctx, gate, cov, assumptions=[
        "start vector non-zero, tol >= 0, max_iters >= 1, A Hermitian (the routine is not defined otherwise)",
        "exact arithmetic in the theorems; floating-point behaviour enters through the correspondence (tolerance rule) and the spec oracle",
        "numpy.linalg.eigh (LAPACK) returns k eigenpairs of T with orthonormal eigenvector columns: ASSUMED contract `eigh_contract_unit` of "
        "C14_lanczos_eigs_unit (weaker: `eigh_contract_nonzero`, `eigh_contract`), witnessed exactly on the 2 x 2 and the 3 x 3 run "
        "(C14_eigh_contract_witness, C14_eigh_contract_unit_witness); measured on every compared run for the driver's Jacobi eigh",
        "sizes above 40 (thorough: up to 300) are checked against the spec oracle only, not against the interpreted Lean model"])
    print(json.dumps({"outcomes": outcomes, "distinct_nontrivial": nontrivial, "gate": (gate or {}).get("obligations"),
                      "timing": cov["timing_s"]}))
