"""C06 — inv / solve return the solution of the linear system on every dispatch path.

Three-way comparison on streams of invertible operator trees:
  real  = cola.linalg.inv(A, alg): kind tree, dtype, to_dense, B @ b, b @ B, B.T.to_dense(), solve(A, b, alg), and the solver
          objects inside the result with their options (tol, max_iters)
  code  = Lean `Inv.invRule` (DriverC06.lean; exact Gaussian-rational factorisations / solver instances); the algorithm object of
          the model carries the caller's keyword arguments (`opts`), `solvers` = `InvOp.solvers` (theorem C06_solver_options)
  spec  = the exact inverse of the represented matrix (Gauss-Jordan over Q[i], verified by multiplication)
Exact comparison where the selected path is division-only on dyadic data; relative tolerance where
LAPACK (1e-9 double / 2e-3 single) or CG / GMRES (1e-6 double / 5e-3 single) is involved.
Plus: the Auto decision table on both sides of 10^6 entries (selection; real solves at n = 1000 and, on matmul-defined
operators, at n = 1001), and the FLOAT-SIDE stream (props/c06_float.py): every dispatch path at extents 9..200 with
condition numbers up to 1e6, residual claim with a derived bound + refined reference solve.
A case the Lean model cannot evaluate (driver error / timeout / not an invertible well-formed case) is COUNTED and reported in
the evidence as not compared, with the reason; a driver that does not run gives a verdict (VIOLATION ... no-failing-input-found
unless the streams that do not need it found a failing input), never a crash."""
import collections
from fractions import Fraction
import json
import os
import random
import warnings

import numpy as np

import build
import common
import oracle
import treecheck
from props import c06_float as F
from props import c06_history

warnings.simplefilter("ignore")
MODULE = "ColaVerif.Properties.C06"
DRIVER = "DriverC06.lean"
# compositions with the sibling families (exact-solve contract of the iterative solvers discharged by their theorems);
# each is gated like MODULE, unless the sibling module itself does not build (then: reported as not discharged, not a C06 failure)
# round 5: C06.Nested (a CG / GMRES node INSIDE a Kronecker / Product / BlockDiag node, any number of columns) needs both siblings
BRIDGES = [("ColaVerif.Properties.C06.GMRES", "ColaVerif.Properties.C13"), ("ColaVerif.Properties.C06.CG", "ColaVerif.Properties.C12"),
           ("ColaVerif.Properties.C06.Nested", ("ColaVerif.Properties.C13", "ColaVerif.Properties.C12"))]

# Genuine defects of cola found by this check, not yet recorded in /verif/known_findings.json
# (treated as known so that the check exits 0 on the unchanged tree; see the builder report).
PROVISIONAL_KNOWN = {}   # decided: recorded in /verif/known_findings.json
# (the three recorded clauses of this check -- scalar-times-annotated, gmres-zero-rhs-column, gmres-krylov-breakdown -- are
# read from known_findings.json through common.known_clauses)

# per-column excuse of the GMRES clauses: what was excused / compared (evidence key `per_column_excuse`)
COLSTAT = collections.Counter()

# clauses whose effect is not deterministic (floating point only): the product may succeed or fail
EITHER = {"gmres-krylov-breakdown"}

ALGS = ["omitted", "Auto", "LU", "Cholesky", "CG", "GMRES", "Other"]
GMRES_ITERS = 40
# keyword arguments of the algorithm objects of the exact stream (a case may carry its own "opts")
ALG_OPTS = {"CG": {"tol": 1e-10}, "GMRES": {"tol": 1e-10, "max_iters": GMRES_ITERS}}


def case_opts(case):
    """the keyword arguments the algorithm object of a case is built with"""
    return case["opts"] if "opts" in case else dict(ALG_OPTS.get(case.get("alg"), {}))


def opts_json(opts):
    """driver form: tol as the exact rational value of the double"""
    out = {}
    if opts.get("tol") is not None:
        num, den = float(opts["tol"]).as_integer_ratio()
        out["tol"] = {"q": [num, den]}
    if opts.get("max_iters") is not None:
        out["max_iters"] = int(opts["max_iters"])
    return out


MAX_REPORTED = 4     # violations written out (with shrinking) per run; further ones are only counted
SINGLE = ("f32", "c64")


def is_cplx(dt):
    return dt in ("c64", "c128")


# ------------------------------------------------------------------------------------------ exact helpers
def cz(v):
    return build.z(v)


def zlit(c):
    """python complex with small dyadic parts -> case-language scalar"""
    from fractions import Fraction

    def q(x):
        f = Fraction(x)
        return int(f) if f.denominator == 1 else {"q": [f.numerator, f.denominator]}
    c = complex(c)
    return q(c.real) if c.imag == 0 else [q(c.real), q(c.imag)]


def imat(M):
    """integer / Gaussian-integer ndarray -> case-language rows"""
    return [[zlit(complex(round(x.real), round(x.imag))) for x in row] for row in np.asarray(M, dtype=complex)]


def fq(x):
    if isinstance(x, str):
        n, d = x.split("/")
        return int(n) / int(d)
    return x


def to_np(rows):
    """driver matrix [[ [re,im] ... ] ... ] -> complex128 ndarray"""
    if not rows:
        return np.zeros((0, 0), dtype=np.complex128)
    return np.array([[complex(fq(z[0]), fq(z[1])) for z in row] for row in rows], dtype=np.complex128)


# ------------------------------------------------------------------------------------------ generator
class InvGen:
    """invertible operator trees over the kinds with an inverse rule, plus generic leaves that fall to the algorithms"""

    def __init__(self, rng, max_n=4, max_total=8):
        self.rng = rng
        self.max_n = max_n
        self.max_total = max_total

    def dt(self):
        return self.rng.choice(["f32", "f64", "f64", "c64", "c128"])

    def unit(self, dt):
        return self.rng.choice([1, -1, 1j, -1j] if is_cplx(dt) and self.rng.random() < 0.5 else [1, -1])

    def dyad(self, dt):
        """a scalar whose reciprocal is dyadic"""
        real = [1, -1, 2, -2, 4, 0.5, -0.5, 0.25]
        cp = [1j, -1j, 2j, -0.5j, 1 + 1j, 1 - 1j, -1 + 1j, 2 + 2j]
        return self.rng.choice(cp if is_cplx(dt) and self.rng.random() < 0.5 else real)

    def small(self, dt, lo=-2, hi=2):
        if is_cplx(dt) and self.rng.random() < 0.5:
            return complex(self.rng.randint(lo, hi), self.rng.randint(lo, hi))
        return self.rng.randint(lo, hi)

    def perm(self, n):
        p = list(range(n))
        self.rng.shuffle(p)
        return p

    def unit_tri(self, dt, n, lower, positive=False, lo=-2, hi=2):
        M = np.zeros((n, n), dtype=complex)
        for i in range(n):
            M[i, i] = 1 if positive else self.unit(dt)
            for j in range(n):
                if (lower and j < i) or (not lower and j > i):
                    M[i, j] = self.small(dt, lo, hi) if self.rng.random() < 0.8 else 0
        return M

    def unimodular(self, dt, n, cond_max=300.0):
        for _ in range(50):
            L = self.unit_tri(dt, n, True, lo=-1, hi=1)
            U = self.unit_tri(dt, n, False, lo=-1, hi=1)
            P = np.eye(n)[self.perm(n)]
            M = P @ L @ U
            if np.linalg.cond(M) <= cond_max:
                return M
        return np.eye(n, dtype=complex)

    def signed_perm(self, dt, n):
        M = np.zeros((n, n), dtype=complex)
        for i, j in enumerate(self.perm(n)):
            M[i, j] = self.unit(dt)
        return M

    def psd_mat(self, dt, n):
        """(G, how): 'cholexact' = L0 L0^H with unit lower L0 (rational Cholesky factor), 'gram' = M M^H, M unimodular"""
        for _ in range(50):
            if self.rng.random() < 0.7:
                L0 = self.unit_tri(dt, n, True, positive=True, lo=-1, hi=1)
                G, how = L0 @ L0.conj().T, "cholexact"
            else:
                M = self.unimodular(dt, n, cond_max=10.0)
                G, how = M @ M.conj().T, "gram"
            if np.linalg.cond(G) <= 150.0:
                return G, how
        return np.eye(n, dtype=complex), "cholexact"

    # ---- leaves: (expr, info) with info = {"psd": every generic leaf is PSD-declared, "unitary": declared unitary generic}
    def struct_leaf(self, n):
        dt = self.dt()
        k = self.rng.choice(["eye", "scalar", "diag", "perm", "tri", "tri"])
        if k == "eye":
            return ["eye", dt, n]
        if k == "scalar":
            return ["scalar", dt, zlit(self.dyad(dt)), n]
        if k == "diag":
            return ["diag", dt, [zlit(self.dyad(dt)) for _ in range(n)]]
        if k == "perm":
            return ["perm", dt, self.perm(n)]
        lower = self.rng.random() < 0.5
        return ["tri", dt, n, n, lower, imat(self.unit_tri(dt, n, lower))]

    def generic_leaf(self, n, want_psd):
        """an operator whose class has no inv rule"""
        rng = self.rng
        dt = self.dt()
        if want_psd:
            G, how = self.psd_mat(dt, n)
            return ["ann", "PSD", ["dense", dt, n, n, imat(G)]], {"psd": True, "how": how}
        t = rng.random()
        if getattr(self, "unitary_only", False):
            t = 0.55
        M = self.unimodular(dt, n)
        if t < 0.5:
            return ["dense", dt, n, n, imat(M)], {"psd": False}
        if t < 0.58:
            return ["ann", "Unitary", ["dense", dt, n, n, imat(self.signed_perm(dt, n))]], {"psd": False, "unitary": True}
        if t < 0.66:
            lower = rng.random() < 0.5
            return ["T", ["tri", dt, n, n, lower, imat(self.unit_tri(dt, n, lower))]], {"psd": False}
        if t < 0.72:
            return ["H", ["dense", dt, n, n, imat(M.conj().T)]], {"psd": False}
        if t < 0.78:
            return ["generic", ["dense", dt, n, n, imat(M)]], {"psd": False}
        if t < 0.84:
            ents = [[i, j, zlit(M[i, j])] for i in range(n) for j in range(n) if M[i, j] != 0]
            return ["sparse", dt, n, n, ents], {"psd": False}
        if t < 0.92:
            # non-square factors with an invertible product: [L | c] @ [[U], [0]] = L U
            L = self.unit_tri(dt, n, True, lo=-1, hi=1)
            U = self.unit_tri(dt, n, False, lo=-1, hi=1)
            c = np.array([[self.small(dt)] for _ in range(n)], dtype=complex)
            A1 = np.hstack([L, c])
            A2 = np.vstack([U, np.zeros((1, n))])
            return ["prod", ["dense", dt, n, n + 1, imat(A1)], ["dense", dt, n + 1, n, imat(A2)]], {"psd": False}
        D1 = np.array([[self.small(dt, -1, 1) for _ in range(n)] for _ in range(n)], dtype=complex)
        return ["sum", ["dense", dt, n, n, imat(D1)], ["dense", dt, n, n, imat(M - D1)]], {"psd": False}

    def tree(self, n, depth, want_psd, p_generic=0.45):
        """-> (expr, all_generic_psd, has_generic)"""
        rng = self.rng
        if depth <= 0 or n == 1 or rng.random() < 0.25:
            if rng.random() < p_generic:
                e, info = self.generic_leaf(n, want_psd)
                return e, info["psd"], True, [info.get("how", "unitary" if info.get("unitary") else "generic")]
            return self.struct_leaf(n), True, False, []
        k = rng.choice(["prod", "kron", "bdiag"])
        kids = []
        if k == "prod":
            for _ in range(rng.choice([2, 2, 3])):
                kids.append(self.tree(n, depth - 1, want_psd, p_generic))
            e = ["prod"] + [x[0] for x in kids]
        elif k == "kron":
            fs = self.factor(n)
            if len(fs) < 2:
                fs = [n, 1] if rng.random() < 0.5 else [1, n]
            for f in fs:
                kids.append(self.tree(f, depth - 1, want_psd, p_generic))
            e = ["kron"] + [x[0] for x in kids]
        else:
            parts = self.blocks(n)
            for (s, _) in parts:
                kids.append(self.tree(s, depth - 1, want_psd, p_generic))
            e = ["bdiag", [x[0] for x in kids], [m for (_, m) in parts]]
        return e, all(x[1] for x in kids), any(x[2] for x in kids), sum((x[3] for x in kids), [])

    def factor(self, n):
        ds = [d for d in range(2, n) if n % d == 0]
        if not ds:
            return [n]
        d = self.rng.choice(ds)
        rest = self.factor(n // d) if self.rng.random() < 0.3 else [n // d]
        out = [d] + rest
        self.rng.shuffle(out)
        return out

    def blocks(self, n):
        """[(size, mult)] with sum size*mult == n"""
        for _ in range(30):
            nb = self.rng.choice([1, 2, 2, 3])
            parts, left = [], n
            for i in range(nb):
                m = self.rng.choice([1, 1, 2])
                if left < m:
                    break
                s = self.rng.randint(1, max(1, left // m)) if i < nb - 1 else (left // m if left % m == 0 else 0)
                if s == 0:
                    break
                parts.append((s, m))
                left -= s * m
            if left == 0 and parts:
                return parts
        return [(n, 1)]

    def wrap(self, e, all_psd):
        """a true declaration around the root (does not change the class)"""
        return e

    def rhs(self, n, dt=None, zero_p=0.06):
        rng = self.rng
        dt = dt or rng.choice(["f32", "f64", "c64", "c128"])
        vec = rng.random() < 0.3
        k = 1 if vec else rng.choice([1, 2, 3])
        X = [[zlit(self.small(dt, -3, 3)) for _ in range(k)] for _ in range(n)]
        if all(v == 0 for row in X for v in row):
            X[0][0] = 1
        if rng.random() < zero_p and k >= 1:
            j = rng.randrange(k)
            for row in X:
                row[j] = 0
        kl = rng.choice([1, 1, 2])
        XL = [[zlit(self.small(dt, -3, 3)) for _ in range(n)] for _ in range(kl)]
        return dt, vec, X, XL

    def case(self):
        rng = self.rng
        n = rng.choice([1, 2, 2, 3, 3, 4, 4, 6, 8][: 7 + (self.max_total >= 8) * 2])
        n = min(n, self.max_total)
        want_psd = rng.random() < 0.45
        self.unitary_only = rng.random() < 0.06      # Unitary-declared generic leaves only (the plain-Algorithm path)
        if self.unitary_only:
            want_psd = False
        e, all_psd, has_generic, hows = self.tree(n, rng.choice([0, 1, 1, 2]), want_psd)
        self.unitary_only = False
        t = rng.random()
        if all_psd and has_generic:
            alg = rng.choice(["omitted", "Auto", "Cholesky", "Cholesky", "CG", "CG", "LU", "GMRES"])
        elif has_generic:
            alg = rng.choice(["omitted", "Auto", "LU", "LU", "GMRES", "GMRES"])
            if hows and all(h == "unitary" for h in hows) and t < 0.5:
                alg = "Other"                             # the only way to the conditional Unitary rule
            elif t < 0.05:
                alg = rng.choice(["Cholesky", "CG"])      # inadmissible: AssertionError expected
            elif t < 0.10:
                alg = "Other"
        else:
            alg = rng.choice(ALGS)
        dt, vec, X, XL = self.rhs(n)
        if alg in ("CG", "GMRES"):
            # the requested tolerance (1e-10) is attainable in double precision only
            e = to_double(e)
        # the keyword arguments the algorithm object is built with; they travel to the driver, whose model threads them
        # to the solver objects it builds (theorem C06_solver_options), and are compared with the real solver objects
        opts = dict(ALG_OPTS.get(alg, {}))
        if alg == "CG" and rng.random() < 0.5:
            opts["max_iters"] = rng.choice([200, 500, 2000])     # >> n <= 8: never the binding limit
        if alg == "Auto" and rng.random() < 0.5:
            opts = {"tol": rng.choice([1e-3, 1e-9]), "max_iters": rng.choice([7, 300])}
        return {"call": "inv", "op": e, "alg": alg, "opts": opts, "x": X, "xl": XL, "xdt": dt, "vec": vec, "hows": hows}


def to_double(e):
    if isinstance(e, list):
        return [to_double(x) for x in e]
    if e == "f32":
        return "f64"
    if e == "c64":
        return "c128"
    return e


# ------------------------------------------------------------------------------------------ real side
class OtherAlg:
    pass


def make_alg(name, opts=None):
    from cola.linalg import Auto, LU, Cholesky, CG, GMRES
    from cola.linalg.algorithm_base import Algorithm
    if opts is None:
        opts = ALG_OPTS.get(name, {})
    kw = {k: v for k, v in opts.items() if v is not None}
    if name == "omitted":
        return None
    if name == "Auto":
        return Auto(**kw)
    if name == "LU":
        return LU()
    if name == "Cholesky":
        return Cholesky()
    if name == "CG":
        return CG(**kw)
    if name == "GMRES":
        return GMRES(**kw)
    if name == "Other":
        return type("PlainAlgorithm", (Algorithm, ), {})()
    raise ValueError(name)


KIND = dict(treecheck.KIND)


def rskel(op):
    """kind tree of a real operator, extended locally by the library-internal inverse kinds"""
    name = type(op).__name__.split("[")[0]
    if name == "TriangularInv":
        return ["triinv", treecheck.ann_list(op)]
    if name == "IterativeOperatorWInfo":
        return ["iter:" + type(op.alg).__name__, treecheck.ann_list(op)]
    k = KIND.get(name, "?" + name)
    kids = []
    if k in ("prod", "sum", "kron", "kronsum", "bdiag", "concat"):
        kids = list(op.Ms)
    elif k in ("T", "H", "slice"):
        kids = [op.A]
    return [k, treecheck.ann_list(op)] + [rskel(x) for x in kids]


def rsolvers(op):
    """the solver objects inside a real result, left to right: [class name, tol, max_iters]"""
    name = type(op).__name__.split("[")[0]
    if name == "IterativeOperatorWInfo":
        return [[type(op.alg).__name__, getattr(op.alg, "tol", None), getattr(op.alg, "max_iters", None)]]
    if hasattr(op, "Ms") and name in ("Product", "Kronecker", "BlockDiag"):
        return [s for M in op.Ms for s in rsolvers(M)]
    return []


def solvers_differ(real, code):
    """real solver objects vs the model's (`InvOp.solvers`, options as exact rationals): None if equal"""
    if len(real) != len(code):
        return f"{len(real)} solver objects, the model builds {len(code)}"
    for i, (r, c) in enumerate(zip(real, code)):
        want_tol = None if c[1] is None else float(Fraction(str(c[1])))
        if r[0] != c[0] or r[1] != want_tol or r[2] != c[2]:
            return (f"solver #{i}: real {r[0]}(tol={r[1]!r}, max_iters={r[2]!r}), the model (= the caller's options, "
                    f"C06_solver_options) {c[0]}(tol={want_tol!r}, max_iters={c[2]!r})")
    return None


def solver_check(B, code):
    return solvers_differ(rsolvers(B), code.get("solvers", []))


def err_class(ex):
    n = type(ex).__name__
    if n == "AssertionError":
        return "error:AssertionError"
    if n == "NotFoundLookupError":
        return "not-found"
    return treecheck.err_class(ex)


def guarded(f):
    try:
        v = np.asarray(f())
        return {"v": v, "dt": build.dtname(v.dtype) if v.dtype in build.DTN else str(v.dtype)}
    except Exception as ex:  # noqa: BLE001
        return {"err": err_class(ex), "msg": str(ex)[:160]}


def observe_real(case, direct):
    import cola
    try:
        A = build.Builder().build(case["op"])
        alg = make_alg(case["alg"], case_opts(case))
        B = cola.linalg.inv(A) if alg is None else cola.linalg.inv(A, alg)
    except Exception as ex:  # noqa: BLE001
        return {"err": err_class(ex), "msg": str(ex)[:200]}
    n = int(A.shape[0])
    out = {"shape": [int(B.shape[0]), int(B.shape[1])], "dtype": build.dtname(B.dtype), "skel": rskel(B),
           "solvers": rsolvers(B)}
    x = build.arr(case["x"], case["xdt"], (n, len(case["x"][0])))
    b = x[:, 0] if case["vec"] else x
    xl = build.arr(case["xl"], case["xdt"], (len(case["xl"]), n))
    out["dense"] = guarded(lambda: B.to_dense())
    out["mm"] = guarded(lambda: B @ b)
    if alg is None:
        out["solve"] = guarded(lambda: cola.linalg.solve(A, b))
    else:
        out["solve"] = guarded(lambda: cola.linalg.solve(A, b, alg))
    if direct:
        out["rmm"] = guarded(lambda: (xl[0] if case["vec"] else xl) @ B)
        out["T"] = guarded(lambda: B.T.to_dense())
    out["Adense"] = np.asarray(A.to_dense())
    return out


# ------------------------------------------------------------------------------------------ comparison
def leaf_dts(e):
    return treecheck.leaf_dtypes(e)


def tolerance(case, code):
    """(mode, tol): 'exact' or relative tolerance"""
    single = any(d in SINGLE for d in leaf_dts(case["op"]) + [case["xdt"]])
    if not code["direct"]:
        return "tol", (5e-3 if single else 1e-6)
    if code["lapack"]:
        return "tol", (2e-3 if single else 1e-9)
    return "exact", (1e-5 if single else 1e-12)


def match(real, want, mode, tol, shape):
    """-> 'ok' | 'rounded' | 'bad' ; want: complex ndarray (exact values), real: ndarray"""
    r = np.asarray(real)
    if r.shape != shape:
        return "bad"
    w = want.reshape(shape)
    if not np.iscomplexobj(r) and np.abs(w.imag).max(initial=0) > 0:
        return "bad"
    if not np.all(np.isfinite(r)):
        return "bad"
    scale = max(1.0, float(np.abs(w).max(initial=0)))
    err = float(np.abs(r - w).max(initial=0))
    if mode == "exact":
        if err == 0:
            return "ok"
        return "rounded" if err <= tol * scale else "bad"
    return "ok" if err <= tol * scale else "bad"


def classify(case, ans, real):
    """-> (status, detail): ok | ok-error | known? | violation | stale-model | skipped | driver-error"""
    if "error" in ans:
        return "driver-error", ans["error"]
    code, spec = ans["code"], ans.get("spec")
    if not ans.get("wf", True) or spec is None or not spec.get("ok"):
        return "skipped", "not an invertible well-formed case"
    n = ans["rows"]
    Ainv = to_np(spec["inv"])
    if "err" in code:
        if real.get("err") == code["err"]:
            return "ok-error", code["err"]
        if "err" in real:
            return "violation", f"raised {real['err']} ({real.get('msg')}), the rule table predicts {code['err']}"
        return "stale-model", f"the code model predicts {code['err']} but inv returned an operator"
    if "err" in real:
        return "violation", f"inv raised {real['err']}: {real.get('msg')}"
    code = dict(code)
    code["lapack"] = ans["lapack"]
    # the driver runs the exact LU / Cholesky for which Inv.luContract_gExt / cholContract_gExt PROVE the contracts under decidable
    # side conditions it evaluates at every LAPACK node (`contracts_ok`); a second, independent exact implementation must agree
    if not code.get("lapack_agree", True):
        return "driver-error", "the two exact LU / Cholesky implementations of the driver disagree at a LAPACK node"
    if ans["lapack"] and code.get("contracts_ok") is not None and bool(code["contracts_ok"]) != bool(code["inv_ok"]):
        return "driver-error", "contracts_ok (hypotheses of luContract_gExt / cholContract_gExt) and inv_ok (the result is the inverse) differ"
    if not code["inv_ok"]:
        # the exact Cholesky instance of the driver has no rational factor (Gram matrix of a non-triangular
        # unimodular matrix): its contract L L^H = A is not instantiated, the model's VALUES are unavailable;
        # structure is still compared, values are compared with the exact inverse only
        if not (ans["lapack"] and "gram" in case.get("hows", [])):
            return "driver-error", "the model's result is not the inverse although all contracts should hold"
        code["values_unavailable"] = True
    mode, tol = tolerance(case, code)
    k = len(case["x"][0])
    bshape = (n, ) if case["vec"] else (n, k)
    kl = len(case["xl"])
    lshape = (n, ) if case["vec"] else (kl, n)
    problems, rounded = [], 0
    # structure
    for key in ("shape", "dtype", "skel"):
        want = [code["rows"], code["cols"]] if key == "shape" else code[key]
        if real[key] != want:
            problems.append((key, "real-vs-code"))
    sd = solvers_differ(real.get("solvers", []), code.get("solvers", []))
    if sd is not None:
        return "violation", "the solver objects inside inv(A, alg) do not carry the caller's options: " + sd
    # values against the exact inverse (the code model's values equal it exactly whenever inv_ok)
    unavailable = code.get("values_unavailable", False)
    if not unavailable:
        for key, sk in (("dense", "inv"), ("mm", "mm"), ("rmm", "rmm"), ("T", "T")):
            if key in code and code[key] != spec[sk]:
                # the code model itself differs from the exact inverse: only a modelled defect can explain that
                if real.get(key) is not None and "v" in real[key]:
                    shp = {"dense": (n, n), "T": (n, n), "mm": bshape, "rmm": lshape}[key]
                    wantc = to_np(code[key])
                    if key == "rmm" and case["vec"]:
                        wantc = wantc[0:1]
                    if match(real[key]["v"], wantc, mode, tol, shp) == "bad":
                        return "violation", f"'{key}' differs from the code model and the code model from the exact inverse"
                return "known?", list(code.get("res_clauses", []))
    # PER-COLUMN attribution of the GMRES clauses (driver: colSees / denseColSees): expect[key][j] = the clauses attributed to
    # column j of that observation.  Only those columns are excused; the other columns of the same product are compared.
    def col_clauses(name_cols, name_all, ncols):
        per = code.get(name_cols)
        if per is None or len(per) != ncols:        # an older driver: the whole observation carries the union
            return [list(code.get(name_all, [])) for _ in range(ncols)]
        return [list(x) for x in per]
    expect = {"dense": col_clauses("dense_col_clauses", "dense_clauses", n), "mm": col_clauses("mm_col_clauses", "mm_clauses", k)}
    expect["solve"] = expect["mm"]
    obs = [("dense", Ainv, (n, n))]
    obs += [("mm", to_np(spec["mm"]), bshape), ("solve", to_np(spec["mm"]), bshape)]
    if code["direct"]:
        xl_want = to_np(spec["rmm"])
        if case["vec"]:
            xl_want = xl_want[0:1]
        obs += [("rmm", xl_want, lshape), ("T", to_np(spec["T"]), (n, n))]
    clauses, unexpected_ok = [], []
    excused_cols = {}
    # a zero column is a deterministic failure only when the GMRES node is the root (it sees the caller's operand);
    # below other nodes an exactly-zero column of the model is rounding noise in floating point and the solve succeeds
    either = set(EITHER) | (set() if code["skel"][0] == "iter:GMRES" else {"gmres-zero-rhs-column"})
    for key, want, shp in obs:
        r = real.get(key)
        if r is None:
            continue
        per = expect.get(key)
        union = sorted({c for cs in (per or []) for c in cs})
        if union:
            ncol = len(per)
            bad_cols = [j for j in range(ncol) if per[j]]
            good_cols = [j for j in range(ncol) if not per[j]]
            excused_cols[key] = bad_cols
            if "err" in r:
                # the product raised as a whole: no column can be compared.  The recorded clauses predict two failure classes only: the
                # LinAlgError of the batched small solve, and the ValueError by which a LAPACK wrapper downstream (scipy check_finite) refuses
                # the NaN column; any other exception is not excused
                nan_refused = r["err"] == "error:ValueError" and "infs or NaNs" in str(r.get("msg"))
                if r["err"] != "error:LinAlgError" and not nan_refused:
                    problems.append((key, f"raised {r['err']}: {r.get('msg')} (the attributed clauses {union} predict NaN columns, LinAlgError, or "
                                          "a downstream 'array must not contain infs or NaNs' only)"))
                    continue
                clauses += [c for c in union if c not in clauses]
                COLSTAT["raised-as-a-whole:" + str(r["err"])] += 1
                continue
            v = np.asarray(r["v"])
            if v.shape != shp:
                problems.append((key, f"shape {v.shape}, expected {shp}"))
                continue
            v2 = v.reshape(shp[0], -1)
            w2 = np.asarray(want).reshape(shp[0], -1)
            # (a) the columns NO clause is attributed to are compared like any other product
            if good_cols:
                COLSTAT["columns-compared-beside-an-excused-one"] += len(good_cols)
                mg = match(v2[:, good_cols], w2[:, good_cols], mode, tol, (shp[0], len(good_cols)))
                if mg == "rounded":
                    rounded += 1
                elif mg == "bad":
                    problems.append((key, f"columns {good_cols} (no clause attributed; columns {bad_cols} are excused) differ from the exact solution"))
            # (b) the attributed columns are expected to fail (NaN or wrong values), each by its own clauses
            for j in bad_cols:
                COLSTAT["columns-excused"] += 1
                mj = match(v2[:, [j]], w2[:, [j]], mode, tol, (shp[0], 1))
                if mj == "bad":
                    clauses += [c for c in per[j] if c not in clauses]
                elif not (set(per[j]) & either):
                    unexpected_ok.append(f"{key}[:, {j}]")
            continue
        if "err" in r:
            m, why = "bad", f"raised {r['err']}: {r.get('msg')}"
        else:
            m, why = match(r["v"], want, mode, tol, shp), "value"
        if m == "rounded":
            rounded += 1
        elif m == "bad":
            problems.append((key, why))
        elif "dt" in r and code["direct"]:
            # result dtype of the direct paths = numpy promotion (the iterative solvers return b's dtype for b = 0)
            want_dt = code["dtype"] if key in ("dense", "T") else treecheck.promote(code["dtype"], case["xdt"])
            if r["dt"] != want_dt:
                problems.append((key, f"result dtype {r['dt']}, expected {want_dt}"))
    if unexpected_ok and not problems:
        return "stale-model", f"the clauses {expect} predict failing products {unexpected_ok}, but they succeeded"
    if clauses and not problems:
        return "known?", clauses
    # residual of the returned solution (backward error)
    r = real.get("mm")
    keep = [j for j in range(k) if not expect["mm"][j]]
    if r is not None and "v" in r and not problems and keep and np.asarray(r["v"]).shape == bshape:
        A = real["Adense"].astype(np.complex128)
        x = np.asarray(r["v"]).astype(np.complex128).reshape(n, -1)[:, keep]
        bb = to_np(case_x(case))[:, keep]
        res = float(np.abs(A @ x - bb).max(initial=0))
        bound = (tol if mode == "tol" else 1e-5 if any(d in SINGLE for d in leaf_dts(case["op"]) + [case["xdt"]]) else 1e-12) \
            * (float(np.abs(A).max(initial=0)) * n * max(1.0, float(np.abs(x).max(initial=0))) + float(np.abs(bb).max(initial=0)))
        if not res <= bound:
            problems.append(("residual", f"{res} > {bound}"))
    if not problems:
        return ("ok-rounded" if rounded else "ok"), mode
    only_structure = all(p[1] == "real-vs-code" for p in problems)
    if only_structure:
        return "stale-model", f"values agree with the inverse but the predicted structure differs: {problems}"
    return "violation", f"{problems}"


def case_x(case):
    def pair(v):
        c = cz(v)
        return [complex(c).real, complex(c).imag]
    return [[pair(v) for v in row] for row in case["x"]]


def strip(case):
    return {k: case[k] for k in ("call", "op", "alg", "opts", "x", "xl", "xdt", "vec", "hows") if k in case}


def to_driver(case, i):
    """the case as the driver reads it: options as exact rationals"""
    d = {k: v for k, v in strip(case).items() if k != "hows"}
    d["opts"] = opts_json(case_opts(case))
    d["id"] = i
    return d


def subtrees(e):
    t = e[0]
    if t in ("prod", "kron"):
        return list(e[1:])
    if t == "bdiag":
        return list(e[1])
    if t == "ann":
        return [e[2]]
    return []


# ------------------------------------------------------------------------------------------ Lean gates
def all_gates(ctx):
    """-> (merged gate dict or None, error text or None, bridge report)"""
    import re
    gate = common.lean_gate(ctx, MODULE)           # raises LeanGateError
    gate = dict(gate)
    report, checked = {}, [MODULE]
    for mod, sibling in BRIDGES:
        path = os.path.join(oracle.LEAN_DIR, "ColaVerif", *mod.split(".")[1:]) + ".lean"
        try:
            listed = len(re.findall(r"^#print axioms", open(path).read(), flags=re.M))
        except OSError:
            listed = 0
        sibs = [sibling] if isinstance(sibling, str) else list(sibling)
        rc, out = common.lake_build(sibs)
        if rc != 0:
            report[mod] = {"status": "not discharged", "obligations": listed,
                           "reason": f"the sibling module(s) {', '.join(sibs)} do not build; the composition was not checked (not a failure of this family)"}
            gate["obligations"] += listed
            continue
        g = common.lean_gate(ctx, mod)             # raises LeanGateError: a failure of this family's own module
        report[mod] = {"status": "discharged", "obligations": g["obligations"]}
        gate["obligations"] += g["obligations"]
        gate["discharged"] += g["discharged"]
        gate["theorems"] = sorted(set(gate["theorems"]) | set(g["theorems"]))
        checked.append(mod)
    files = " && ".join("lake env lean " + os.path.join("ColaVerif", *m.split(".")[1:]) + ".lean" for m in checked)
    gate["checker_cmd"] = f"cd lean && lake build {' '.join(checked)} && {files}" + \
        (" && " + " && ".join("lake env leanchecker " + m for m in checked) if ctx.thorough else "") + \
        "   # kernel re-check + #print axioms audit"
    return gate, report


# ------------------------------------------------------------------------------------------ the driver may fail
DRIVER_FAILURE = []     # messages of driver runs that did not produce answers (elaboration error, crash)


def run_driver_safe(cases, **kw):
    """oracle.run_driver, but a driver that does not run yields {"error": ...} answers instead of an exception"""
    try:
        return oracle.run_driver(cases, driver=DRIVER, **kw)
    except Exception as ex:  # noqa: BLE001  (RuntimeError of oracle.run_driver, OSError of a missing toolchain)
        msg = f"{type(ex).__name__}: {str(ex)[-1500:]}"
        if msg not in DRIVER_FAILURE:
            DRIVER_FAILURE.append(msg)
        return {c.get("id"): {"id": c.get("id"), "error": "driver-failed"} for c in cases}


# ------------------------------------------------------------------------------------------ float-side stream
def float_stream(ctx, stats, hist, replay_case=None):
    """props/c06_float.py: sizes 9..200, condition numbers up to 1e6, every dispatch path; -> coverage dict"""
    rng = random.Random(ctx.seed * 104729 + 66)
    G = F.FloatGen(rng)
    if replay_case is not None:
        cases = [F.undump(replay_case)]
    else:
        ncases = 10 * len(F.PATHS) if not ctx.thorough else 150 * len(F.PATHS)
        cases = [G.case(F.PATHS[i % len(F.PATHS)], quick=not ctx.thorough) for i in range(ncases)]
    ans = run_driver_safe([{"id": i, "call": "skel", "alg": c["alg"], "opts": opts_json(F.alg_opts(c["alg"], c["gmres_iters"])),
                            "op": F.expr(c["tree"])} for i, c in enumerate(cases)])
    worst, kappas, sizes, not_compared, samples = collections.defaultdict(float), [], [], collections.Counter(), []
    for i, c in enumerate(cases):
        try:
            st, det, meas = F.run_case(c, ans.get(i), rskel, err_class, solver_check)
        except Exception as ex:  # noqa: BLE001
            st, det, meas = "not-compared", f"harness error {type(ex).__name__}: {str(ex)[:200]}", {}
        stats["float-evaluations"] += 1
        stats["float-" + st] += 1
        hist["float-path:" + c["path"]] += 1
        hist["float-alg:" + c["alg"]] += 1
        if st in ("ok", "ok-error"):
            hist["float-distinct"] += 1
            if "worst_ratio" in meas:
                worst[c["path"]] = max(worst[c["path"]], meas["worst_ratio"])
                kappas.append(meas["kappa"])
                sizes.append(meas["n"])
            if meas.get("structure") not in (None, "compared"):
                not_compared["structure only: " + str(meas["structure"])] += 1
            if st == "ok" and len(samples) < 3 and c["tree"]["k"] in ("prod", "kron", "bdiag"):
                samples.append({"float_case": F.describe(c["tree"]), "alg": c["alg"], "n": meas["n"], "kappa_2": meas["kappa"],
                                "residual_over_bound": meas["worst_ratio"]})
        elif st == "not-compared":
            not_compared[str(det)[:120]] += 1
        elif len(ctx.violations) >= MAX_REPORTED:
            stats["violations-not-reported-in-detail"] += 1
        elif st == "violation":
            common.violation(ctx, {"float_case": F.dump(c), "operator": F.describe(c["tree"]), "alg": c["alg"], "detail": det, "measures": meas,
                                   "call": "cola.linalg.inv(A, alg) @ b / cola.linalg.solve(A, b, alg) / xl @ inv(A) with the payload arrays of float_case",
                                   "replay_cmd": f"./check {ctx.prop} quick --replay <this file>"})
        else:   # stale-model
            common.violation(ctx, {"float_case": F.dump(c), "operator": F.describe(c["tree"]), "alg": c["alg"], "detail": det,
                                   "broken": "rule selection of the inv model vs the real code on the float-side stream"}, no_input=True)
    return {"evaluations": stats["float-evaluations"], "not_compared": dict(not_compared),
            "sizes": {"min": min(sizes, default=0), "max": max(sizes, default=0), "at_least_100": sum(1 for x in sizes if x >= 100)},
            "kappa_2": {"max": max(kappas, default=0.0), "above_1e3": sum(1 for k in kappas if k > 1e3), "above_1e5": sum(1 for k in kappas if k > 1e5)},
            "worst_residual_over_bound_by_path": {k: float("%.3g" % v) for k, v in sorted(worst.items())},
            "samples": samples,
            "claim": "per column ||b - A x||_2 <= delta(path) ||x||_2 + 4u||b||_2 (residual in 80-bit arithmetic from the payloads) and agreement with a "
                     "refined reference solve within delta ||x|| / sigma_min; delta composed along the rules (docstring of props/c06_float.py); "
                     "GMRES constant heuristic, all others derived (Higham ASNA Thm 8.5 / 9.4 / 10.4, exit test of run_cg)"}


def large_side_solves(ctx, stats):
    """real solves on both sides of the 10^6 switch: dense at n = 1000 (Cholesky / LU through Auto, float stream claim) and
    matmul-defined PSD operators at n = 1001 (Auto hands over to CG with the REQUESTED tolerance)"""
    import cola
    from cola.linalg import Auto
    from cola.ops import LinearOperator
    out = []
    rng = random.Random(ctx.seed * 31 + 5)
    G = F.FloatGen(rng)
    cases = []
    for psd in (True, False):
        kappa = 10 ** rng.uniform(1, 4)
        t = G.generic_leaf(1000, kappa, False, psd, wrap=None, c=False)
        cases.append({"path": "auto-small-side", "tree": t, "alg": rng.choice(["omitted", "Auto"]), "kappa_target": kappa, "single": False, "bdt": "f64",
                      "vec": False, "b": G.cast(G.rs.randn(1000, 2), "f64"), "xl": G.cast(G.rs.randn(1, 1000), "f64"), "gmres_iters": 1000})
    # n = 1001: the model's selection with shape / dtype AND the options of the solver object Auto(**d) hands over to
    sel_opts = {"tol": rng.choice([1e-9, 1e-3, 3e-7]), "max_iters": rng.choice([7, 400, 1234])}
    sel = [{"path": "auto-large-side", "tree": {"k": "dense", "dt": "f64", "n": 1001, "psd": psd, "wrap": None}, "alg": "Auto",
            "opts": sel_opts if j % 2 == 0 else {"tol": sel_opts["tol"]}} for j, psd in enumerate((True, False, False, True))]
    ans = run_driver_safe([{"id": i, "call": "skel", "alg": c["alg"], "op": F.expr(c["tree"]),
                            "opts": opts_json(c.get("opts", F.alg_opts(c["alg"], c.get("gmres_iters", 0))))} for i, c in enumerate(cases + sel)], nproc=1)
    for i, c in enumerate(cases):
        try:
            st, det, meas = F.run_case(c, ans.get(i), rskel, err_class, solver_check)
        except Exception as ex:  # noqa: BLE001
            st, det, meas = "not-compared", f"harness error {type(ex).__name__}: {str(ex)[:200]}", {}
        stats["auto-evaluations"] += 1
        out.append({"n": 1000, "psd": c["tree"]["psd"], "call": c["alg"], "status": st, "kappa_2": meas.get("kappa"),
                    "residual_over_bound": meas.get("worst_ratio"), "structure": meas.get("structure")})
        if st == "violation":
            common.violation(ctx, {"auto_small_side": {"n": 1000, "psd": c["tree"]["psd"], "call": c["alg"], "seed": ctx.seed, "detail": det, "measures": meas},
                                   "why": "inv(A, Auto) @ b on a dense 1000 x 1000 operator violates the residual claim of its algorithm"})
        elif st == "stale-model":
            common.violation(ctx, {"auto_small_side": {"n": 1000, "psd": c["tree"]["psd"], "detail": det}, "broken": "rule selection at n = 1000"}, no_input=True)
    for j, c in enumerate(sel):
        a = ans.get(len(cases) + j, {})
        if "error" in a:
            out.append({"n": 1001, "psd": c["tree"]["psd"], "status": "not-compared", "reason": a["error"]})
            continue
        A = cola.ops.Dense(np.zeros((1001, 1001)) + np.eye(1001))
        A = cola.PSD(A) if c["tree"]["psd"] else A
        try:
            B = cola.linalg.inv(A, Auto(**c["opts"]))
            got = {"shape": [int(B.shape[0]), int(B.shape[1])], "dtype": build.dtname(B.dtype), "skel": rskel(B)}
            real_solvers = rsolvers(B)
        except Exception as ex:  # noqa: BLE001
            got, real_solvers = {"err": err_class(ex)}, []
        code = a["code"]
        want = {"err": code["err"]} if "err" in code else {"shape": [code["rows"], code["cols"]], "dtype": code["dtype"], "skel": code["skel"]}
        sd = None if "err" in code or "err" in got else solvers_differ(real_solvers, code.get("solvers", []))
        stats["auto-evaluations"] += 1
        out.append({"n": 1001, "psd": c["tree"]["psd"], "call": f"Auto(**{c['opts']})", "real": got.get("skel", got), "model": want.get("skel", want),
                    "real_solvers": real_solvers, "model_solvers": code.get("solvers"),
                    "status": "ok" if got == want and sd is None else "differs"})
        if got != want:
            common.violation(ctx, {"auto_switch": {"n": 1001, "psd": c["tree"]["psd"], "opts": c["opts"], "real": got, "rule_model": want},
                                   "why": "inv(Dense 1001 x 1001, Auto(**opts)) returns another operator than the rule model selects"})
        elif sd is not None:
            common.violation(ctx, {"auto_options": {"n": 1001, "psd": c["tree"]["psd"], "call": f"cola.linalg.inv(A, Auto(**{c['opts']})) with A = "
                                                    + ("PSD(" if c["tree"]["psd"] else "(") + "Dense(eye(1001)))", "real_solvers": real_solvers,
                                                    "model_solvers": code.get("solvers")},
                                   "why": "the solver object Auto hands over to does not carry the caller's options (theorem C06_auto_forwards_options "
                                          "of the model): " + sd})
    # n = 1001, matmul-defined PSD operator: CG with the tolerance given to Auto
    tol, iters = 1e-9, 400
    for rep in range(2):
        n = 1001
        d = np.exp(np.array([rng.uniform(0, 2.3) for _ in range(n)]))           # spectrum in [1, 10]
        b = G.rs.randn(n, 2)
        A = cola.PSD(LinearOperator(np.float64, (n, n), matmat=lambda X, d=d: d[:, None] * X))
        stats["auto-evaluations"] += 1
        try:
            Bop = cola.linalg.inv(A, Auto(tol=tol, max_iters=iters))
            x = np.asarray(Bop @ b)
            k = int(getattr(Bop, "info", {}).get("iterations", iters) if isinstance(getattr(Bop, "info", {}), dict) else iters)
            r = b.astype(np.longdouble) - d.astype(np.longdouble)[:, None] * x.astype(np.longdouble)
            rel = (np.sqrt((r ** 2).sum(0)) / np.sqrt((b.astype(np.longdouble) ** 2).sum(0))).astype(float)
            bound = 2 * tol + 50 * iters * 2.0 ** -53 * float(d.max() / d.min())
            ok = bool(np.all(np.isfinite(x)) and rel.max() <= bound)
            out.append({"n": n, "psd": True, "call": f"Auto(tol={tol}, max_iters={iters}) on a matmul-defined operator", "selected": rskel(Bop)[0],
                        "relative_residual": rel.tolist(), "bound": bound, "iterations": k, "status": "ok" if ok else "violation"})
            if not ok:
                common.violation(ctx, {"auto_large_side": {"n": n, "spectrum": "d = exp(U(0, 2.3)) (diagonal matmul-defined PSD operator)", "diag": d.tolist(),
                                                           "b": b.tolist(), "alg": f"Auto(tol={tol}, max_iters={iters})", "relative_residual": rel.tolist(),
                                                           "bound": bound},
                                       "why": "inv(A, Auto(tol=...)) @ b on the large side of the switch does not reach the requested tolerance "
                                              "(exit test of CG: 2 tol in the normalised system, plus the drift term)"})
        except Exception as ex:  # noqa: BLE001
            common.violation(ctx, {"auto_large_side": {"n": n, "raised": err_class(ex), "msg": str(ex)[:200]},
                                   "why": "inv(A, Auto(tol=..., max_iters=...)) @ b raised on a PSD matmul-defined operator with 1001^2 entries"})
    # round 5, n = 1001, matmul-defined NON-PSD (indefinite diagonal) operator: Auto hands over to GMRES with the caller's options; GMRES is
    # RUN TO THE GRADE of the right-hand side (s distinct eigenvalues, every eigenspace met by b: grade = s = max_iters), the float-side situation
    # of theorem C06_solve_gmres_at_grade; claim: per column ||b - A x||_2 <= 100 n u kappa ||b||_2 (the heuristic GMRES constant of the float stream)
    pool = [-7.0, -4.0, -3.0, -2.0, -1.0, -0.5, 0.5, 1.0, 2.0, 3.0, 5.0, 8.0]
    for rep in range(2 if not ctx.thorough else 6):
        n = 1001
        s = rng.choice([3, 5, 6, 8])
        ev = sorted(rng.sample(pool, s))
        idx = [j % s for j in range(n)]
        rng.shuffle(idx)
        d = np.array([ev[j] for j in idx])
        kcols = rng.choice([1, 2, 3])
        vec = rep % 3 == 2
        b = G.rs.randn(n, kcols)
        how = "Auto" if rep % 2 == 0 else "GMRES"
        gtol = rng.choice([1e-9, 1e-7])
        A = LinearOperator(np.float64, (n, n), matmat=lambda X, d=d: d[:, None] * X)
        stats["auto-evaluations"] += 1
        entry = {"n": n, "psd": False, "call": f"{how}(tol={gtol}, max_iters={s}) on a matmul-defined indefinite diagonal operator",
                 "distinct_eigenvalues": ev, "columns": 1 if vec else kcols, "one_dimensional_rhs": vec}
        try:
            alg = Auto(tol=gtol, max_iters=s) if how == "Auto" else make_alg("GMRES", {"tol": gtol, "max_iters": s})
            Bop = cola.linalg.inv(A, alg)
            rs_real = rsolvers(Bop)
            a = run_driver_safe([{"id": 0, "call": "auto", "psd": False, "rows": n, "cols": n, "opts": opts_json({"tol": gtol, "max_iters": s})}], nproc=1).get(0, {})
            sd = None
            if "solver" in a:
                # the model: Auto(**d) above 10^6 entries, not PSD -> GMRES(**d) (autoChoice; C06_auto_forwards_options); an explicit GMRES object is kept
                sd = solvers_differ(rs_real, [a["solver"]])
                entry["model_solver"] = a["solver"]
            else:
                entry["model_solver"] = "not compared: " + str(a.get("error"))
            bb = b[:, 0] if vec else b
            x = np.asarray(Bop @ bb)
            x2 = np.asarray(cola.linalg.solve(A, bb, alg))
            bound = 100 * n * 2.0 ** -53 * float(np.abs(d).max() / np.abs(d).min())
            rels = []
            for xx in (x, x2):
                xx = xx.reshape(n, -1).astype(np.longdouble)
                r = bb.reshape(n, -1).astype(np.longdouble) - d.astype(np.longdouble)[:, None] * xx
                rels.append((np.sqrt((r ** 2).sum(0)) / np.sqrt((bb.reshape(n, -1).astype(np.longdouble) ** 2).sum(0))).astype(float))
            ok = bool(x.shape == bb.shape and x2.shape == bb.shape and np.all(np.isfinite(x)) and np.all(np.isfinite(x2))
                      and max(rels[0].max(), rels[1].max()) <= bound)
            sel_ok = rskel(Bop)[0] == "iter:GMRES" and sd is None
            entry.update({"selected": rskel(Bop)[0], "real_solvers": rs_real, "relative_residual_inv_matmul": rels[0].tolist(),
                          "relative_residual_solve": rels[1].tolist(), "bound": bound, "status": "ok" if ok and sel_ok else "violation"})
            if not sel_ok:
                common.violation(ctx, {"auto_options": {"n": n, "psd": False, "call": f"cola.linalg.inv(A, {how}(tol={gtol}, max_iters={s})) with A = LinearOperator(float64, "
                                                        "(1001, 1001), matmat=lambda X: d[:, None] * X)", "selected": rskel(Bop)[0], "real_solvers": rs_real,
                                                        "model_solver": entry.get("model_solver")},
                                       "why": "on the large side of the switch a non-PSD operator must go to GMRES carrying the caller's options "
                                              "(C06_auto_switch, C06_auto_forwards_options): " + str(sd)})
            elif not ok:
                common.violation(ctx, {"auto_large_side": {"n": n, "alg": f"{how}(tol={gtol}, max_iters={s})", "distinct_eigenvalues": ev, "diag": d.tolist(),
                                                           "b": bb.tolist(), "relative_residual_inv_matmul": rels[0].tolist(),
                                                           "relative_residual_solve": rels[1].tolist(), "bound": bound},
                                       "why": "GMRES run to the grade of b (max_iters = number of distinct eigenvalues of the diagonal operator) must return the "
                                              "solution: inv(A, alg) @ b / solve(A, b, alg) exceed 100 n u kappa in the relative residual"})
        except Exception as ex:  # noqa: BLE001
            entry.update({"status": "violation", "raised": err_class(ex)})
            common.violation(ctx, {"auto_large_side": {"n": n, "alg": f"{how}(tol={gtol}, max_iters={s})", "distinct_eigenvalues": ev, "raised": err_class(ex),
                                                       "msg": str(ex)[:200]},
                                   "why": "inv(A, alg) @ b raised on a matmul-defined non-singular operator with 1001^2 entries (GMRES path)"})
        out.append(entry)
    return out


# ------------------------------------------------------------------------------------------ Auto switch
def auto_stream(ctx, stats):
    """selection on both sides of 10^6 entries (matmul-defined operators; no solve)"""
    import cola
    from cola.linalg import Auto
    from cola.ops import LinearOperator
    cases, reals = [], []
    for n in (1000, 1001):
        for psd in (False, True):
            for how in ("omitted", "Auto"):
                A = LinearOperator(np.float64, (n, n), matmat=lambda X: 2.0 * X)
                if psd:
                    A = cola.PSD(A)
                try:
                    B = cola.linalg.inv(A) if how == "omitted" else cola.linalg.inv(A, Auto(tol=1e-3, max_iters=7))
                    rs = rsolvers(B)
                    name = type(B).__name__.split("[")[0]
                    if name == "IterativeOperatorWInfo":
                        sel = type(B.alg).__name__
                        if how == "Auto" and (B.alg.tol != 1e-3 or B.alg.max_iters != 7):
                            sel += "(options lost)"
                    elif name == "Product":
                        kinds = [type(m).__name__.split("[")[0] for m in B.Ms]
                        sel = {("TriangularInv", "TriangularInv"): "Cholesky",
                               ("TriangularInv", "TriangularInv", "Permutation"): "LU"}.get(tuple(kinds), str(kinds))
                    else:
                        sel = name
                except Exception as ex:  # noqa: BLE001
                    sel, rs = "raised " + type(ex).__name__, None
                cases.append({"id": len(cases), "call": "auto", "psd": psd, "rows": n, "cols": n,
                              "opts": opts_json({} if how == "omitted" else {"tol": 1e-3, "max_iters": 7})})
                reals.append((n, psd, how, sel, rs))
    ans = run_driver_safe(cases, nproc=1)
    table = []
    for c, (n, psd, how, sel, rs) in zip(cases, reals):
        want = ans.get(c["id"], {}).get("alg")
        wsolver = ans.get(c["id"], {}).get("solver")
        stats["auto-evaluations"] += 1
        table.append({"n": n, "psd": psd, "call": how, "real": sel, "model": want, "real_solvers": rs, "model_solver": wsolver})
        if want is None:
            stats["auto-not-compared"] += 1
            continue
        if sel != want:
            common.violation(ctx, {"auto_switch": {"n": n, "psd": psd, "call": how, "real_selected": sel, "decision_table": want},
                                   "why": "inv(A, Auto) selected another algorithm than the documented decision table"})
        elif rs is not None and wsolver is not None:
            # the options of the solver object: the model's autoChoice d (CG(**d) / GMRES(**d)); direct algorithms have none
            sd = solvers_differ(rs, [wsolver] if wsolver[1] is not None else [])
            if sd is not None:
                common.violation(ctx, {"auto_options": {"n": n, "psd": psd, "call": "cola.linalg.inv(A)" if how == "omitted" else
                                                        "cola.linalg.inv(A, Auto(tol=1e-3, max_iters=7))",
                                                        "operator": "LinearOperator(float64, (n, n), matmat=lambda X: 2.0 * X)" + (" wrapped in cola.PSD" if psd else ""),
                                                        "real_solvers": rs, "model_solver": wsolver},
                                       "why": "the solver object Auto hands over to does not carry the caller's options: " + sd})
    return table


# ------------------------------------------------------------------------------------------ run
def evaluate(cases):
    for i, c in enumerate(cases):
        c["id"] = i
    ans = run_driver_safe([to_driver(c, c["id"]) for c in cases])
    out = []
    for c in cases:
        a = ans.get(c["id"], {"error": "no answer from the driver"})
        direct = bool(a.get("code", {}).get("direct", False)) if "error" not in a else False
        real = observe_real(c, direct)
        st, det = classify(c, a, real)
        out.append((c, a, real, st, det))
    return out


def printable(real):
    out = {}
    for k, v in real.items():
        if isinstance(v, dict) and "v" in v:
            out[k] = {"value": np.asarray(v["v"]).tolist() if not np.iscomplexobj(v["v"]) else [str(z) for z in np.asarray(v["v"]).ravel()],
                      "dtype": v["dt"]}
        elif isinstance(v, np.ndarray):
            continue
        else:
            out[k] = v
    return out


def rows_of(e):
    t = e[0]
    if t in ("dense", "tri", "sparse", "eye"):
        return e[2]
    if t == "scalar":
        return e[3]
    if t in ("diag", "perm"):
        return len(e[2])
    if t in ("prod", "sum"):
        return rows_of(e[1])
    if t == "kron":
        n = 1
        for x in e[1:]:
            n *= rows_of(x)
        return n
    if t == "bdiag":
        return sum(rows_of(x) * m for x, m in zip(e[1], e[2]))
    if t in ("T", "H", "generic"):
        return rows_of(e[1])       # square operators only
    if t == "ann":
        return rows_of(e[2])
    raise ValueError(t)


def shrink(case):
    """greedy: replace the tree by a sub-tree (same algorithm, fresh operands of the right size)"""
    cur = case
    for _ in range(8):
        cands = []
        for s in subtrees(cur["op"]):
            c = dict(cur)
            c["op"] = s
            cands.append(c)
        if not cands:
            break
        fixed = []
        for c in cands:
            n = rows_of(c["op"])
            c["x"] = [row[:] for row in cur["x"][:n]] + [[1] * len(cur["x"][0]) for _ in range(max(0, n - len(cur["x"])))]
            c["xl"] = [row[:n] + [1] * max(0, n - len(row)) for row in cur["xl"]]
            fixed.append(c)
        nxt = None
        for (c, a, real, st, det) in evaluate(fixed):
            if st == "violation":
                nxt = c
                break
        if nxt is None:
            break
        cur = nxt
    return cur


def nontrivial(c):
    e = c["op"]
    return e[0] not in ("eye", ) and (c["alg"] != "omitted" or e[0] not in ("scalar", "diag", "perm"))


def run(ctx):
    gate, gate_err, bridge_report = None, None, {}
    try:
        gate, bridge_report = all_gates(ctx)
    except common.LeanGateError as ex:
        gate_err = str(ex)
    rng = random.Random(ctx.seed * 7919 + 6)
    G = InvGen(rng, max_total=8)
    known = dict(common.known_clauses(ctx.prop))
    for k, v in PROVISIONAL_KNOWN.items():
        known.setdefault(k, {"what": v})
    stats = collections.Counter()
    alg_hist, kind_hist, rule_hist, dt_hist, mode_hist = (collections.Counter() for _ in range(5))
    distinct, samples = set(), []

    rp = json.load(open(ctx.replay)) if ctx.replay else {}
    if ctx.replay:
        cases = [rp["case"]] if "case" in rp else []
    else:
        ncases = 600 if not ctx.thorough else 9000
        cases = [G.case() for _ in range(ncases)]
    auto_table = auto_stream(ctx, stats) if not ctx.replay or "auto_switch" in rp or "auto_options" in rp else []
    float_hist = collections.Counter()
    not_compared, nc_samples = collections.Counter(), []
    float_cov, large_table = {}, []
    if not ctx.replay or "float_case" in rp:
        float_cov = float_stream(ctx, stats, float_hist, replay_case=rp.get("float_case"))
    if not ctx.replay or any(k in rp for k in ("auto_small_side", "auto_large_side", "auto_switch", "auto_options")):
        large_table = large_side_solves(ctx, stats)
    # history stream (props/c06_history.py): a kept inverse applied again after in-place changes of the caller's buffers must solve the
    # CURRENT system; once per run, and alone when a payload of this stream is replayed
    history_cov = {"checks": 0, "problems": 0, "samples": []}
    if not ctx.replay or rp.get("stream") == "history":
        try:
            h_checks, h_problems, h_samples = c06_history.history_stream(ctx, random.Random(int(rp.get("seed", ctx.seed)) * 7 + 606))
        except Exception as ex:  # noqa: BLE001
            h_checks, h_problems, h_samples = 0, [], []
            ctx.notes.append(f"history stream failed: {type(ex).__name__}: {str(ex)[:200]}")
        history_cov = {"checks": h_checks, "problems": len(h_problems), "samples": h_samples}
        for problem in h_problems[:3]:
            common.violation(ctx, {"stream": "history", **problem})

    for i in range(0, len(cases), 600):
        for (c, a, real, st, det) in evaluate(cases[i:i + 600]):
            stats["evaluations"] += 1
            stats[st if st != "known?" else "code!=spec"] += 1
            alg_hist[c["alg"]] += 1
            dt_hist[c["xdt"] + ("/vec" if c["vec"] else "/cols%d" % len(c["x"][0]))] += 1
            for t in set(json.dumps(c["op"]).replace('"', " ").replace("[", " ").replace(",", " ").split()) & {
                    "eye", "scalar", "diag", "perm", "tri", "dense", "prod", "kron", "bdiag", "ann", "PSD", "Unitary", "T", "H", "sparse", "sum", "generic"}:
                kind_hist[t] += 1
            if "code" in a and "skel" in a["code"]:
                sk = json.dumps(a["code"]["skel"])
                for t in ("triinv", "iter:CG", "iter:GMRES", "perm", "prod", "kron", "bdiag", "diag", "scalar", "eye", "dense"):
                    if '"%s"' % t in sk:
                        rule_hist[t] += 1
                rule_hist["lapack" if a.get("lapack") else "no-lapack"] += 1
            if st in ("ok", "ok-rounded"):
                mode_hist[det] += 1
            if st in ("ok", "ok-rounded", "ok-error", "known?") and nontrivial(c):
                distinct.add(common.canon([c["op"], c["alg"], c["x"], c["xl"], c["xdt"], c["vec"]]))
            if st == "ok" and len(samples) < 3 and nontrivial(c) and len(json.dumps(strip(c))) < 800 and c["op"][0] in ("prod", "kron", "bdiag"):
                samples.append({"case": strip(c), "model_tree": a["code"]["skel"], "compared": det})
            if st == "known?":
                unknown = [cl for cl in det if cl not in known]
                if not det or unknown:
                    common.violation(ctx, {"case": strip(c), "model": a.get("code"), "spec": a.get("spec"), "real": printable(real), "clauses": det,
                                           "why": "real = code model, but differs from the exact inverse and no recorded finding covers it"})
                else:
                    for cl in det:
                        common.known_finding(ctx, cl, known[cl]["what"])
            elif st == "violation" and len(ctx.violations) >= MAX_REPORTED:
                stats["violations-not-reported-in-detail"] += 1
            elif st == "violation":
                try:
                    small = shrink(c)
                except Exception as ex:  # noqa: BLE001
                    ctx.notes.append(f"shrinker failed: {ex}")
                    small = c
                (c2, a2, r2, s2, d2) = evaluate([small])[0]
                if s2 != "violation":
                    c2, a2, r2, d2 = c, a, real, det
                common.violation(ctx, {"case": strip(c2), "expected_inverse": (a2.get("spec") or {}).get("inv"),
                                       "expected_solution": (a2.get("spec") or {}).get("mm"), "model_tree": a2.get("code", {}).get("skel"),
                                       "real": printable(r2), "detail": d2, "original_case": strip(c),
                                       "replay_cmd": f"./check {ctx.prop} quick --replay <this file>"})
            elif st == "stale-model" and len(ctx.violations) >= MAX_REPORTED:
                stats["violations-not-reported-in-detail"] += 1
            elif st == "stale-model":
                common.violation(ctx, {"case": strip(c), "model": a.get("code"), "real": printable(real), "detail": det,
                                       "broken": "correspondence stream of the inv rule model (real agrees with the exact inverse / behaves otherwise than the model)"},
                                 no_input=True)
            if st in ("driver-error", "skipped"):
                # the model could not evaluate the case: it is NOT compared; counted with the reason
                stats["not-compared"] += 1
                not_compared[("model: " if st == "driver-error" else "generator: ") + str(det)[:120]] += 1
                if len(nc_samples) < 3:
                    nc_samples.append({"case": strip(c), "reason": str(det)[:300]})
    compared = stats["evaluations"] - stats["not-compared"]
    if DRIVER_FAILURE and not ctx.violations:
        # the driver did not run (does not elaborate / crashed): the exact stream compared nothing.  The float-side stream and the
        # large-side solves (which need it only for the structure) were the failing-input search and found nothing.
        common.violation(ctx, {"broken": f"{DRIVER} does not run: the code model could not be evaluated", "detail": DRIVER_FAILURE[0][-3000:],
                               "cases_not_compared": stats["not-compared"], "float_stream": {k: v for k, v in float_cov.items() if k != "samples"}},
                         no_input=True)
    elif not ctx.replay and not DRIVER_FAILURE and compared < 0.5 * max(1, stats["evaluations"]) and not ctx.violations:
        common.violation(ctx, {"broken": "more than half of the generated cases could not be evaluated by the code model",
                               "reasons": dict(not_compared)}, no_input=True)
    if gate_err is not None and not ctx.violations:
        common.violation(ctx, {"broken": f"Lean gate of {MODULE}", "detail": gate_err[-3000:]}, no_input=True)
    cov = {"evaluations": compared + float_hist["float-distinct"], "distinct_nontrivial": len(distinct) + float_hist["float-distinct"],
           "exact_stream": {"generated": stats["evaluations"], "compared": compared, "distinct_nontrivial": len(distinct)},
           "not_compared": {"count": stats["not-compared"], "reasons": dict(not_compared), "samples": nc_samples,
                            "driver_failure": DRIVER_FAILURE[:1],
                            "note": "cases the Lean code model could not evaluate (driver error / timeout) or that are not invertible well-formed inputs; "
                                    "they are excluded from `evaluations`"},
           "compositions": bridge_report,
           "float_stream": float_cov, "float_paths": {k[11:]: v for k, v in float_hist.items() if k.startswith("float-path:")},
           "float_algorithms": {k[10:]: v for k, v in float_hist.items() if k.startswith("float-alg:")},
           "large_side": large_table,
           "history_stream": history_cov,
           "per_column_excuse": {**dict(COLSTAT), "rule": "a GMRES clause excuses only the columns of B @ b / solve / to_dense the driver attributes it to "
                                 "(mm_col_clauses / dense_col_clauses); the remaining columns of the same product are compared with the exact solution "
                                 "(value and residual); a product that raised as a whole is excused by the union of its columns' clauses only for the two exception "
                                 "classes the clauses predict (LinAlgError of the batched small solve; ValueError 'array must not contain infs or NaNs' of a "
                                 "LAPACK wrapper downstream of the NaN column), any other exception is a violation"},
           "outcomes": dict(stats),
           "algorithms": dict(alg_hist), "input_kinds": dict(kind_hist), "result_nodes": dict(rule_hist), "rhs": dict(dt_hist),
           "comparison_modes": dict(mode_hist), "auto_switch": auto_table, "samples": samples + float_cov.get("samples", []),
           "rule": "exact stream: random invertible operator trees (depth <= 2, n <= 8) over Identity / ScalarMul / Diagonal / Permutation / Triangular leaves, "
                   "generic leaves (Dense unimodular, PSD-declared Gram matrices, Unitary-declared signed permutations, lazy transposes, Sparse, "
                   "non-square Product, Sum) under Product / Kronecker / BlockDiag(multiplicities), x algorithm in {omitted, Auto, LU, Cholesky, CG, GMRES, "
                   "plain Algorithm}, x right-hand side (1-D or 1-3 columns, 4 dtypes); distinct = canonical JSON of (tree, algorithm, operands); "
                   "non-trivial = not a bare Identity, and not a bare ScalarMul/Diagonal/Permutation with the algorithm omitted.  "
                   "float stream: one operator per dispatch path (props/c06_float.py PATHS), extent 9..200 (GMRES <= 40), kappa_2 log-uniform up to 1e6 "
                   "(1e3 in single precision), float / complex payloads, right-hand side 1-D or 1-3 columns; every compared case counts as distinct "
                   "(random payloads).  Cases that could not be compared are not counted.",
           "compare": "kind tree, shape, dtype exactly; values exactly on division-only paths, rel. tol. 1e-9 (LAPACK, double) / 2e-3 (single) / "
                      "1e-6 (CG, GMRES double) / 5e-3 (single) elsewhere; residual of the returned solution; float stream: " + float_cov.get("claim", "not run"),
           "notes": ctx.notes[:10],
           "trusted_base_extra": ["DriverC06.lean runs Inv.gExtWith solveExact: for its LU / Cholesky the contracts are PROVED (Inv.luContract_gExt, "
                                  "Inv.cholContract_gExt, Lemmas/InvInstances.lean) under the decidable side conditions the driver evaluates per LAPACK node "
                                  "(contracts_ok, compared with inv_ok on every case); the Gauss-Jordan solver solveExact carries no proof (its contract is a "
                                  "hypothesis; the driver re-checks the RESULT by multiplication: inv_ok); luExact / cholExact are a second implementation "
                                  "compared with the first on every LAPACK node (lapack_agree)"]}
    common.write_evidence(ctx, gate, cov, assumptions=[
        "NO THEOREM behind the clause attribution: the driver's predicates iterSees / kronSees / bdiagSees / denseSees (which operand each iterative node receives), "
        "colSees / denseColSees (the same per column of the product: round 5, a clause excuses only the columns it is attributed to), "
        "zeroColumn / badZeroCol, gradeOf and badBreakdown (lean/DriverC06.lean) are executable diagnostics (partial defs) used ONLY to attribute a disagreement to the "
        "recorded clauses gmres-zero-rhs-column / gmres-krylov-breakdown; no theorem of C06 / C13 / C15 mentions them and nothing is proved about them; a clause is "
        "applied only to the failure class it predicts (NaN / wrong values in the attributed columns; LinAlgError of the solve or a downstream "
        "'infs or NaNs' ValueError for the product as a whole)",
        "CONTRACT PARAMETERS of the theorems (Inv.Ext: recip, chol, lu, solve), each an assumed EXACT behaviour of an external routine at the nodes that "
        "fall to an algorithm: `LUContract` (xnp.lu / LAPACK getrf: P L U = A.to_dense(), p a permutation, triangular factors, invertible diagonals), "
        "`CholContract` (xnp.cholesky / potrf: L L^H = A.to_dense(), L lower triangular, invertible diagonal), `SolveContract` (CG / GMRES object: "
        "A alg(A, X) = X for every X), the reciprocal law `s * recip s = 1` (`DiagUnit`, ScalarMul / Diagonal / Triangular data) and `RecipStar`.  "
        "Each has a Lean instance on a concrete non-diagonal input over Q[i] through which the main theorems are applied (C06_lu_instance: exact LU "
        "with a row swap of a 3x3; C06_chol_instance: exact Cholesky of a complex Hermitian 2x2; C06_solve_contract_instance), but LAPACK's / "
        "cola's own routines are NOT proved to satisfy them: that rests on the tolerance comparisons of this check",
        "`SolveContract` per call is DISCHARGED for the solver models of C12 / C13 run to the grade of the right-hand side (C06_solve_cg_at_grade, "
        "C06_solve_gmres_at_grade / _at_breakdown, instantiated by C06_cg_at_grade_witness, C06_gmres_at_grade_witness, "
        "C06_gmres_at_breakdown_witness): remaining hypotheses `hpd`, `A_coercive`, `hb`, `tol_admissible`, `gradeReached` (CG); `resNonzero`, "
        "`noEarlierBreakdown`, `gradeReached` / `exactBreakdown`, `maskExact`, `solverSound`, `injective` (GMRES); x0 = 0, no "
        "preconditioner; solver node at the root with one column, or (round 5, Properties/C06/Nested.lean) ONE solver leaf next to one operator with a "
        "structural rule under ONE Kronecker (solver first) / Product (either order) / BlockDiag (solver first) node with any number of columns, each "
        "column of the operand the node hands to the solver (kronOperand_1, X, inv(D) @ X, bdiagOperand_1) run to its grade, the batch modelled as "
        "independent columns (withGmresCols / withCGCols), `S` invertible (`RInv`); C06_gmres_under_kron_witness instantiates it on "
        "Kronecker([Dense 3x3, Identity(2)]); deeper nestings / several solver leaves still need `SolveContract`; before the grade / under rounding "
        "only the residual claims of the float-side stream hold",
        "hypotheses on the input: `InvHyp` (invertible data along the selected rules), `Declared` (the asserted declarations are present), `Op.Good` "
        "(wf, dupSlice = false [clause sliced-repeated-index of C01], HermOK [C05]), `A.RealTyped`, `ScalarsOK` (input-level exclusion of the recorded "
        "clause scalar-times-annotated), `UnitaryHolds` for a plain Algorithm object",
        "the algorithm objects of the model carry `tol` / `max_iters` only (Alg.cg o, Alg.gmres o, Alg.auto d; C06_solver_options, "
        "C06_auto_forwards_options: the solver objects inv builds hold exactly the caller's values - compared with the real solver objects on every "
        "case, `solvers`); `pbar`, `x0`, `P` and unknown keywords of Auto (TypeError in CG(**d)) are not modelled",
        "the residual bounds of the float-side stream use textbook backward-error constants (Higham, Accuracy and Stability of Numerical Algorithms) "
        "for LAPACK's triangular solves / getrf / potrf; the GMRES constant is heuristic",
        "exact field arithmetic in the theorems; rounding is covered only by the tolerances of the correspondence stream on well-conditioned inputs"])
    print(json.dumps({"outcomes": dict(stats), "distinct_nontrivial": len(distinct), "gate": (gate or {}).get("obligations")}))
