"""C20 — indexing and slicing an operator match indexing the represented matrix."""
import itertools
import os

import numpy as np

import common
import oracle
from props import c01

MODULE = "ColaVerif.Properties.C20"
CALLS = ["getitem"]
CORPUS = os.path.join(common.ROOT, "harness", "corpus", "c20.jsonl")


def primitive_stream(ctx):
    """Python slice / integer-array semantics (Basic/PySlice.lean) against CPython + numpy, exhaustively over
    start/stop/step in {None, -6..6} on lengths 0..5 (thorough: lengths 0..7) and a family of index arrays."""
    vals = [None] + list(range(-6, 7))
    cases, want = [], []
    lens = range(0, 6) if not ctx.thorough else range(0, 8)
    for n in lens:
        for a, b, c in itertools.product(vals, vals, vals):
            if not ctx.thorough and (len(cases) % 3) != (ctx.seed % 3) and abs((a or 0)) + abs((b or 0)) > 8:
                pass
            cases.append({"id": len(cases), "call": "resolve", "n": n, "ix": {"s": [a, b, c]}})
            try:
                want.append([int(x) for x in np.arange(n)[slice(a, b, c)]])
            except ValueError:
                want.append(None)
        for arr in ([0], [-1], [n], [-n - 1], [0, 0], list(range(n)), [-i - 1 for i in range(n)]):
            cases.append({"id": len(cases), "call": "resolve", "n": n, "ix": {"a": arr}})
            try:
                want.append([int(x) for x in np.arange(n)[np.array(arr, dtype=np.int64)]])
            except IndexError:
                want.append(None)
    ans = oracle.run_driver(cases)
    bad = [(c, w, ans[c["id"]].get("res")) for c, w in zip(cases, want) if ans.get(c["id"], {}).get("res", "missing") != w]
    for (c, w, g) in bad[:3]:
        common.violation(ctx, {"broken": "primitive stream: model of Python slice semantics (Basic/PySlice.lean) disagrees with CPython/numpy",
                               "case": c, "python": w, "lean": g}, no_input=True)
    return {"primitive_cases": len(cases), "primitive_disagreements": len(bad), "primitive_exhaustive": True}


def run(ctx):
    c01.run(ctx, calls=CALLS, module=MODULE, corpus=CORPUS, extra=primitive_stream)
