"""C20 — indexing and slicing an operator match indexing the represented matrix."""
import os

import common
from props import c01

MODULE = "ColaVerif.Properties.C20"
CALLS = ["getitem"]
CORPUS = os.path.join(common.ROOT, "harness", "corpus", "c20.jsonl")


def run(ctx):
    c01.run(ctx, calls=CALLS, module=MODULE, corpus=CORPUS)
