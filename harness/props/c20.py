"""C20 — indexing and slicing an operator match indexing the represented matrix."""
import itertools
import os

import numpy as np

import common
import oracle
from props import c01

MODULE = "ColaVerif.Properties.C20"
CALLS = ["getitem"]
CORPUS = os.path.join(common.ROOT, "harness", "corpus", "c20.jsonl")

# Recorded clauses are read from /verif/known_findings.json (common.known_clauses); nothing is provisional.
# (`getitem-list-zip` was repaired in /repo dd36003; Lean regression `C20_listPair_regression`.)


def primitive_stream(ctx):
    """Python slice / integer-array semantics (Basic/PySlice.lean) against CPython + numpy, exhaustively over
    start/stop/step in {None, -6..6} on lengths 0..5 (thorough: lengths 0..7) and a family of index arrays."""
    vals = [None] + list(range(-6, 7))
    cases, want = [], []
    lens = range(0, 6) if not ctx.thorough else range(0, 8)
    for n in lens:
        for a, b, c in itertools.product(vals, vals, vals):
            cases.append({"id": len(cases), "call": "resolve", "n": n, "ix": {"s": [a, b, c]}})
            try:
                want.append([int(x) for x in np.arange(n)[slice(a, b, c)]])
            except ValueError:
                want.append(None)
        for arr in ([0], [-1], [n], [-n - 1], [0, 0], list(range(n)), [-i - 1 for i in range(n)]):
            cases.append({"id": len(cases), "call": "resolve", "n": n, "ix": {"a": arr}})
            try:
                want.append([int(x) for x in np.arange(n)[np.array(arr, dtype=np.int64)]])
            except IndexError:
                want.append(None)
    ans = oracle.run_driver(cases)
    bad = [(c, w, ans[c["id"]].get("res")) for c, w in zip(cases, want) if ans.get(c["id"], {}).get("res", "missing") != w]
    for (c, w, g) in bad[:3]:
        common.violation(ctx, {"broken": "primitive stream: model of Python slice semantics (Basic/PySlice.lean) disagrees with CPython/numpy",
                               "case": c, "python": w, "lean": g}, no_input=True)
    return {"primitive_cases": len(cases), "primitive_disagreements": len(bad), "primitive_exhaustive": True}


def numpy_index_stream(ctx):
    """The SPECIFICATION `Op.npIndex` (NumPy indexing of the represented matrix, Model/Index.lean) against NumPy itself on
    the matrix arange(r*c): every index form of C20, in particular paired lists / index arrays of equal and different
    lengths (broadcasting of a length-1 sequence, shape-mismatch IndexError, empty sequences, out-of-range entries)."""
    import random
    rng = random.Random(ctx.seed * 17 + 3)
    cases, want = [], []

    def canon(r):
        r = np.asarray(r)
        if r.ndim == 0:
            return {"kind": "scalar", "value": [int(r), 0]}
        if r.ndim == 1:
            return {"kind": "vec", "value": [[int(x), 0] for x in r]}
        return {"kind": "op", "rows": int(r.shape[0]), "cols": int(r.shape[1]), "value": [[[int(x), 0] for x in row] for row in r]}

    def add(r, c, ids, pyids):
        M = np.arange(r * c, dtype=np.int64).reshape(r, c)
        cases.append({"id": len(cases), "call": "getitem", "op": ["dense", "f64", r, c, [[int(x) for x in row] for row in M]], "ids": ids})
        try:
            want.append(canon(M[pyids]))
        except IndexError:
            want.append({"kind": "err", "value": "index-error"})
    shapes = [(1, 1), (2, 3), (3, 2), (3, 4)] if not ctx.thorough else [(1, 1), (1, 3), (2, 3), (3, 2), (3, 4), (4, 4), (5, 2)]
    for (r, c) in shapes:
        lens = [0, 1, 2, 3]
        for la in lens:
            for lb in lens:
                for rep in range(2 if not ctx.thorough else 5):
                    oob = rng.random() < 0.15
                    a = [rng.randrange(-r, r + (1 if oob else 0)) for _ in range(la)]
                    b = [rng.randrange(-c - (1 if oob else 0), c) for _ in range(lb)]
                    add(r, c, [{"l": a}, {"l": b}], (a, b))
                    add(r, c, [{"a": a}, {"a": b}], (np.array(a, dtype=np.int64), np.array(b, dtype=np.int64)))
        for rep in range(6 if not ctx.thorough else 30):
            i, j = rng.randrange(-r - 1, r + 1), rng.randrange(-c - 1, c + 1)
            a = [rng.randrange(-r, r) for _ in range(rng.randint(0, 3))]
            b = [rng.randrange(-c, c) for _ in range(rng.randint(0, 3))]
            sa = [rng.choice([None, -2, -1, 0, 1, 2]) for _ in range(2)] + [rng.choice([None, 1, 2, -1, -2])]
            sb = [rng.choice([None, -2, -1, 0, 1, 2]) for _ in range(2)] + [rng.choice([None, 1, 2, -1, -2])]
            add(r, c, [{"i": i}], i)
            add(r, c, [{"i": i}, {"i": j}], (i, j))
            add(r, c, [{"i": i}, {"l": b}], (i, b))
            add(r, c, [{"l": a}, {"i": j}], (a, j))
            add(r, c, [{"i": i}, {"s": sb}], (i, slice(*sb)))
            add(r, c, [{"s": sa}, {"i": j}], (slice(*sa), j))
            add(r, c, [{"s": sa}], slice(*sa))
            add(r, c, [{"s": sa}, {"s": sb}], (slice(*sa), slice(*sb)))
            add(r, c, [{"s": sa}, {"a": b}], (slice(*sa), np.array(b, dtype=np.int64)))
            add(r, c, [{"a": a}, {"s": sb}], (np.array(a, dtype=np.int64), slice(*sb)))
    ans = oracle.run_driver(cases)
    bad = []
    for cs, w in zip(cases, want):
        sp = ans.get(cs["id"], {}).get("spec")
        got = None if sp is None else ({"kind": "err", "value": sp["value"]} if sp["kind"] == "err"
                                       else {k: sp[k] for k in ("kind", "value", "rows", "cols") if k in sp})
        if got != w:
            bad.append((cs, w, got))
    for (cs, w, g) in bad[:3]:
        common.violation(ctx, {"broken": "specification stream: Op.npIndex (Model/Index.lean) disagrees with NumPy indexing",
                               "case": cs, "numpy": w, "lean_spec": g}, no_input=True)
    return {"numpy_index_cases": len(cases), "numpy_index_disagreements": len(bad)}


def run(ctx):
    def extra(ctx):
        out = primitive_stream(ctx)
        out.update(numpy_index_stream(ctx))
        return out
    c01.run(ctx, calls=CALLS, module=MODULE, corpus=CORPUS, extra=extra)
