"""C15 — Arnoldi returns an orthonormal Krylov basis satisfying the Arnoldi relation.

Three-way check per case:  real  = cola's `arnoldi` / `arnoldi_eigs` (NumPy backend, in-process),
                           model = the Lean code model `Arnoldi.run` run on IEEE doubles by
                                   lean/DriverArnoldi.lean (correspondence tie of the theorems),
                           spec  = the property's own statements evaluated on the REAL outputs
                                   with NumPy (the failing-input oracle).

real = model = spec -> ok;  real = model != spec -> a modelled defect, reported by its named clause
(the clause of the `_partial` theorems in lean/ColaVerif/Properties/C15.lean): KNOWN-FINDING if the clause is
recorded for this property in /verif/known_findings.json, VIOLATION otherwise;  real != model ->
search for an input on which the real code violates the property.

Tolerances (documented, `compare: "tol"`):
* real vs model: |ΔQ| <= 1e-8, |ΔH| <= 1e-8·max(1,‖A‖) on every column computed before the first
  *noise breakdown* of that start vector (a step whose norm is <= NOISE = 1e-10·‖A‖): after
  such a step the code divides rounding noise by tol/2, the result is not determined by the exact
  model (nor by the real code up to rounding), so it is never compared;
* matrices are chosen with well-conditioned eigenbases (cond(X) <= ~10) and separated spectra so
  that modified Gram–Schmidt is well conditioned at n <= 12 (+ 32, 64) (quick) / 40 (+ 64, 100, 150, 200) (thorough);
  tolerances tol are >= 1e-8 (the code cannot detect a breakdown below rounding noise).

`arnoldi_eigs` (stream of every single-start case with `eigs`): the model's `Arnoldi.arnoldiEigs` is EXECUTED by the driver (kind
"arnoldi_eigs").  Its parameter `eig` (= xnp.eig, LAPACK geev) is instantiated with LAPACK's actual answer on the real run's
matrix H[:k,:k] (recomputed in-process and required to reproduce the eigenvalues returned by the real `arnoldi_eigs` bit for bit);
the contract of `eig` (`EigPairs` in Lemmas/ArnoldiEigsRun.lean) is checked on the matrix the MODEL hands over
(|H_model vs - vs diag(ev)| <= 1.001e-8*k*max(1,|A|), the 1e-8 being the real-vs-model tolerance on H); the model's returned
eigenvectors Q_model[:, :k] @ vs are compared with the real ones entry-wise to 1e-8*|vs[:, j]|_1 (what |dQ| <= 1e-8 implies).
"""
import json
import math
import os
import random
import struct
import subprocess
import tempfile
import warnings

import numpy as np

import common
import shim  # noqa: F401  (installs vmap etc. into cola's NumPy backend)

warnings.simplefilter("ignore")

MODULE = "ColaVerif.Properties.C15"
EPS = 2.220446049250313e-16
NOISE_REL = 1e-10     # a step norm <= NOISE_REL * |A| is rounding noise (a breakdown in exact arithmetic)

# Clauses of modelled defects are taken from /verif/known_findings.json (`common.known_clauses`); nothing is provisional.
# Recorded for C15: noClip, stopExact, breakdownNotMasked (floating point only).
# Former defect (a) (`noPaddingEigs`) is repaired in /repo (commit 0459ce4) and `Arnoldi.trimPaddingInEigs = true` mirrors it;
# the clause name is still produced by the oracle so that a regression shows up as a VIOLATION (it is not a recorded clause).
# The former mixed-dtype defect (buffers in the operator's dtype dropped the imaginary part of a complex start vector) is repaired
# in /repo (commit a98c0be): stream D (real operator, complex operand) goes through the NORMAL three-way comparison, no excuse path.
PROVISIONAL_KNOWN = set()

WHAT = {
    "noPaddingEigs": "arnoldi_eigs hands the square part of the whole zero-padded buffer (max_iters columns) to eig: "
                     "max_iters - steps spurious zero eigenvalues whenever fewer than max_iters steps ran (max_iters > n, or breakdown)",
    "noClip": "new_vec /= clip(norm, tol/2) is an absolute floor while the stopping test is relative (norm > tol*H[1,0]): a step "
              "norm in (0, tol/2) (operator of small norm) yields a non-unit column and breaks A q_i = sum H[l,i] q_l",
    "breakdownNotMasked": "floating point only: after the norm of a start vector dropped to rounding noise (breakdown) the vector "
                          "keeps being stepped when the loop continues (batch; or breakdown in the very first step, which the test "
                          "norm > tol*H[1,0] cannot detect) and rounding noise is amplified by 2/tol per step into O(1) garbage columns of Q and H",
    "stopExact": "early stop by the tolerance test with a non-zero norm: Q[:, steps] is a unit vector but H[:, steps] = 0, so "
                 "A Q[:, :max_iters] = Q H fails in that column (only the leading `steps` columns are a factorisation)",
}


# ------------------------------------------------------------------ encoding
def bits(x):
    return struct.unpack("<Q", struct.pack("<d", float(x)))[0]


def unbits(b):
    return struct.unpack("<d", struct.pack("<Q", int(b)))[0]


def enc(a, cplx):
    a = np.asarray(a)
    if a.ndim == 0:
        return [bits(a.real), bits(a.imag)] if cplx else bits(a.real)
    return [enc(x, cplx) for x in a]


def dec(j, cplx):
    a = np.array(j, dtype=object)
    if a.size == 0:
        return np.zeros(a.shape[:-1] if cplx and a.ndim > 1 else a.shape, dtype=complex if cplx else float)
    f = np.vectorize(unbits, otypes=[float])(a)
    if cplx:
        return f[..., 0] + 1j * f[..., 1]
    return f


def tojson(a):
    """numpy array -> nested lists of floats ([re, im] for complex), exact via repr round trip"""
    a = np.asarray(a)
    if np.iscomplexobj(a):
        return np.stack([a.real, a.imag], -1).tolist()
    return a.tolist()


def fromjson(j, cplx):
    a = np.array(j, dtype=float)
    if cplx:
        return a[..., 0] + 1j * a[..., 1]
    return a


# ------------------------------------------------------------------ Lean driver
def run_driver(cases, nproc=None, timeout=3000):
    if not cases:
        return {}
    nproc = nproc or min(14, max(1, len(cases) // 8), os.cpu_count() or 1)
    chunks = [cases[i::nproc] for i in range(nproc)]
    procs = []
    for ch in chunks:
        f = tempfile.TemporaryFile(mode="w+")
        for c in ch:
            f.write(json.dumps(c) + "\n")
        f.seek(0)
        p = subprocess.Popen(["lake", "env", "lean", "--run", "DriverArnoldi.lean"], cwd=common.LEAN_DIR, stdin=f,
                             stdout=subprocess.PIPE, stderr=subprocess.PIPE, text=True)
        procs.append((p, f))
    out = {}
    for p, f in procs:
        so, se = p.communicate(timeout=timeout)
        f.close()
        if p.returncode != 0:
            raise RuntimeError(f"lean driver failed rc={p.returncode}: {se[-2000:]}")
        for line in so.splitlines():
            line = line.strip()
            if line:
                a = json.loads(line)
                out[a.get("id")] = a
    return out


def driver_case(case, cid):
    cplx = case["complex"]
    A = fromjson(case["A"], cplx)
    d = {"id": cid, "kind": "arnoldi", "complex": cplx, "n": case["n"], "M": case["M"], "tol": bits(case["tol"]),
         "A": enc(A, cplx), "V": enc(fromjson(case["V"], cplx), cplx)}
    # test hook (used only to rehearse the repaired world before the constant `trimPaddingInEigs` in
    # lean/ColaVerif/Model/Arnoldi.lean is flipped): VERIF_ARNOLDI_TRIM=1 overrides the model switch
    if os.environ.get("VERIF_ARNOLDI_TRIM"):
        d["trim"] = os.environ["VERIF_ARNOLDI_TRIM"] == "1"
    return d


def decode_model(ans, cplx):
    if "error" in ans:
        return {"error": ans["error"]}
    Q = np.stack([dec(c["Q"], cplx).T for c in ans["cols"]])          # (k, n, M+1)
    H = np.stack([dec(c["H"], cplx).T for c in ans["cols"]])          # (k, M+1, M)
    eh = ans.get("eigsH")
    eigsH = None
    if eh is not None:
        eigsH = dec(eh, cplx) if len(eh) else np.zeros((0, 0))
    return {"Q": Q, "H": H, "steps": ans["steps"], "iterations": ans["iterations"],
            "errors": np.real(dec(ans["errors"], cplx)) if ans["errors"] else np.zeros(0), "eigsH": eigsH,
            "trim": ans.get("trimPaddingInEigs")}


# ------------------------------------------------------------------ generators
CLASSES = ["nonsym", "normal", "nonnormal", "jordanish"]


def rand_unitary(g, n, cplx):
    Z = g.standard_normal((n, n)) + (1j * g.standard_normal((n, n)) if cplx else 0)
    Qm, R = np.linalg.qr(Z)
    return Qm * (np.diag(R) / np.abs(np.diag(R)))


def gen_matrix(g, n, cls, cplx, scale=1.0):
    """A = X D X^{-1}: X well conditioned, spectrum on an annulus 1 <= |lam| <= 3 with spread arguments (so that Krylov bases —
    hence Gram–Schmidt — are well conditioned), away from 0.  Complex: D diagonal.  Real: D block diagonal with 2x2 rotation-scaling
    blocks (conjugate pairs) and 1–3 real eigenvalues.  Returns (A, X, blocks): blocks = list of column-index lists spanning
    the minimal invariant subspaces (over the field of the matrix)."""
    def noise(m):
        return g.standard_normal((m, m)) + (1j * g.standard_normal((m, m)) if cplx else 0)
    if cplx:
        mags = 1.0 + 2.0 * g.uniform(size=n)
        args = (np.arange(n) + 0.3 * g.uniform(-1, 1, n)) * (2 * math.pi / n) + g.uniform(0, 2 * math.pi)
        lam = mags * np.exp(1j * args)
        g.shuffle(lam)
        D = np.diag(lam)
        blocks = [[i] for i in range(n)]
    else:
        nreal = (n % 2) + (2 if (n >= 4 and g.integers(2)) else 0)
        nreal = min(nreal, n)
        npair = (n - nreal) // 2
        D = np.zeros((n, n))
        blocks = []
        realvals = [(1.0 + 2.0 * g.uniform()) * s for s in ([1.0, -1.0, 1.0][:nreal])]
        for i, x in enumerate(realvals):
            D[i, i] = x
            blocks.append([i])
        for p in range(npair):
            th = (p + 0.5 + 0.3 * g.uniform(-1, 1)) * math.pi / max(npair, 1)
            r = 1.0 + 2.0 * g.uniform()
            a, b = r * math.cos(th), r * math.sin(th)
            i = nreal + 2 * p
            D[i:i + 2, i:i + 2] = [[a, -b], [b, a]]
            blocks.append([i, i + 1])
    U = rand_unitary(g, n, cplx)
    if cls == "normal":
        X = U
    elif cls == "nonsym":
        X = U @ (np.eye(n) + 0.25 * noise(n) / math.sqrt(n))
    elif cls == "nonnormal":
        X = U @ (np.eye(n) + np.triu(noise(n), 1) * (0.6 / math.sqrt(n)))
    else:  # jordanish: strongly non-normal, two nearly parallel basis vectors
        X = U @ (np.eye(n) + 0.25 * noise(n) / math.sqrt(n))
        if n >= 2:
            X[:, 1] = X[:, 0] + 0.2 * X[:, 1]
    A = X @ D @ np.linalg.inv(X)
    if not cplx:
        A = A.real
    return scale * A, X, blocks


def gen_start(g, n, X, blocks, cplx, kind):
    """-> (v, grade): grade = dimension of the Krylov space of v"""
    def coef(m):
        return (1.0 + g.uniform(size=m)) * (np.exp(1j * g.uniform(0, 2 * math.pi, m)) if cplx else g.choice([-1.0, 1.0], m))
    if kind == "generic":
        v = g.standard_normal(n) + (1j * g.standard_normal(n) if cplx else 0)
        return v, n
    want = {"eigvec": 1, "eig2": 2, "eig3": 3}[kind]
    order = list(g.permutation(len(blocks)))
    if want == 1:
        order.sort(key=lambda b: len(blocks[b]))          # a 1-dimensional invariant subspace if there is one
    cols = []
    for b in order:
        if len(cols) + len(blocks[b]) <= max(want, len(blocks[order[0]])):
            cols += blocks[b]
        if len(cols) >= want:
            break
    v = X[:, cols] @ coef(len(cols))
    return (v if cplx else np.real(v)), len(cols)


def make_case(g, n, cls, cplx, M, tol, starts, eigs=False, scale=1.0, stream="A"):
    A, X, blocks = gen_matrix(g, n, cls, cplx, scale)
    sv = [gen_start(g, n, X, blocks, cplx, s) for s in starts]
    V = np.stack([x[0] for x in sv])      # (k, n)
    grades = [x[1] for x in sv]
    return {"kind": "arnoldi", "complex": bool(cplx), "n": n, "M": M, "tol": tol, "cls": cls, "starts": list(starts),
            "grades": grades, "stream": stream, "batched": len(starts) > 1, "eigs": bool(eigs and len(starts) == 1),
            "A": tojson(A), "V": tojson(V)}


def stream(ctx, g):
    out = []
    nmax = 12 if not ctx.thorough else 40
    reps = 4 if not ctx.thorough else 40
    tols = [1e-7, 1e-3, 1e-8, 1e-5]
    for rep in range(reps):
        # A. every n, every class, every max_iters = 1..n+3, single start vectors (with arnoldi_eigs)
        ns = list(range(1, nmax + 1)) if not ctx.thorough else [1, 2, 3, 4, 5, 6, 8, 10, 12, 16, 20, 25, 32, 40]
        for n in ns:
            Ms = list(range(1, n + 4)) if n <= 12 else sorted(set([1, 2, n // 2, n - 1, n, n + 1, n + 3]))
            for M in Ms:
                cls = CLASSES[int(g.integers(len(CLASSES)))]
                cplx = bool(g.integers(2))
                st = ["generic", "generic", "eigvec", "eig2", "eig3"][int(g.integers(5))]
                out.append(make_case(g, n, cls, cplx, M, tols[int(g.integers(len(tols)))], [st], eigs=True))
        # B. batched start vectors (k x n blocks through the vmap shim), mixing generic and breakdown starts
        for n in ([2, 3, 4, 5, 6, 8, 10, 12] if not ctx.thorough else [2, 3, 5, 8, 12, 20, 30, 40]):
            for M in sorted(set([1, 2, max(1, n // 2), n, n + 2])):
                k = int(g.integers(2, 5))
                pool = [["generic"] * k, ["generic", "eigvec", "eig2", "generic"][:k], ["eig2", "generic", "eig3", "eigvec"][:k]]
                st = pool[int(g.integers(len(pool)))]
                out.append(make_case(g, n, CLASSES[int(g.integers(len(CLASSES)))], bool(g.integers(2)), M,
                                     tols[int(g.integers(2))], st, stream="B"))
        # C. edge stream: the named clauses (small-norm operators -> clip; large tol -> early stop)
        for n in [2, 3, 5, 8]:
            out.append(make_case(g, n, "nonsym", bool(g.integers(2)), n, 1e-7, ["generic"], eigs=False, scale=1e-9, stream="C"))
            out.append(make_case(g, n, "normal", bool(g.integers(2)), n + 1, 0.5, ["generic"], eigs=False, stream="C"))
            out.append(make_case(g, n, "nonnormal", False, n, 0.9, ["generic", "generic"], stream="C"))
        # D. real operator, complex start vector (dtype promotion)
        for n in [2, 4, 7]:
            c = make_case(g, n, "nonsym", True, n, 1e-7, ["generic"], eigs=False, stream="D")
            Ar = fromjson(c["A"], True).real
            c["A"] = tojson(Ar.astype(complex))
            c["mixed"] = True
            out.append(c)
    # E. the sizes of the property text (n up to 200), once per run: max_iters below, at and beyond n; with arnoldi_eigs
    big = [(32, 32, False), (64, 67, True)] if not ctx.thorough else \
        [(64, 64, False), (64, 20, True), (100, 103, True), (100, 50, False), (150, 150, False), (200, 200, True), (200, 40, False), (200, 203, False)]
    for n, M, cplx in big:
        out.append(make_case(g, n, CLASSES[int(g.integers(len(CLASSES)))], cplx, M, 1e-7, ["generic"], eigs=True, stream="E"))
    return out


# ------------------------------------------------------------------ real code
def eval_real(case):
    import cola
    from cola.linalg.decompositions.arnoldi import arnoldi, arnoldi_eigs
    cplx = case["complex"]
    A = fromjson(case["A"], cplx)
    if case.get("mixed"):
        A = np.ascontiguousarray(A.real)          # real operator, complex start vector
    V = fromjson(case["V"], cplx)                 # (k, n)
    k = V.shape[0]
    Aop = cola.ops.Dense(A)
    try:
        if case["batched"]:
            Q, H, info = arnoldi(Aop, np.array(V.T), max_iters=case["M"], tol=case["tol"])
            Qd, Hd = np.asarray(Q.to_dense()), np.asarray(H.to_dense())
        else:
            Q, H, info = arnoldi(Aop, np.array(V[0]), max_iters=case["M"], tol=case["tol"])
            Qd, Hd = np.asarray(Q.to_dense())[None], np.asarray(H.to_dense())[None]
        out = {"Q": Qd, "H": Hd, "iterations": int(info["iterations"]), "errors": np.real(np.asarray(info["errors"], dtype=complex)),
               "k": k}
        if case.get("eigs"):
            ev, vecs, _ = arnoldi_eigs(Aop, np.array(V[0]), max_iters=case["M"], tol=case["tol"])
            out["eigvals"] = np.asarray(ev)
            out["eigvecs"] = np.asarray(vecs.to_dense())
            # the answer of xnp.eig inside arnoldi_eigs, recomputed on the same matrix (same LAPACK routine, same bits in)
            kk = out["iterations"] - 1
            ev2, vs2 = np.linalg.eig(Hd[0][:kk, :kk]) if kk > 0 else (np.zeros(0), np.zeros((0, 0)))
            out["eig_answer"] = (np.asarray(ev2), np.asarray(vs2))
            out["eig_reproduced"] = bool(np.array_equal(np.asarray(ev2), out["eigvals"]))
        return out
    except Exception as ex:  # noqa: BLE001
        return {"exception": f"{type(ex).__name__}: {ex}"}


# ------------------------------------------------------------------ comparisons
def norms(case):
    cplx = case["complex"]
    A = fromjson(case["A"], cplx)
    an = float(np.linalg.norm(A, 2)) if A.size else 0.0
    return A, an


def first_small(H, steps, thr):
    for i in range(steps):
        if H[i + 1, i].real <= thr:
            return i
    return steps


def compare_real_model(case, real, model):
    """-> list of mismatch strings (empty = equal within the documented tolerance)"""
    if "exception" in real or "error" in model:
        return [f"real={real.get('exception')} model={model.get('error')}"]
    A, an = norms(case)
    sc = max(1.0, an)
    noise = NOISE_REL * an
    mism = []
    if real["Q"].shape != model["Q"].shape or real["H"].shape != model["H"].shape:
        return [f"shapes real Q{real['Q'].shape} H{real['H'].shape} model Q{model['Q'].shape} H{model['H'].shape}"]
    steps = model["steps"]
    if real["iterations"] != model["iterations"]:
        # the stopping test compares the last norm with tol*H[1,0]; if that norm is rounding noise in both runs (a breakdown in
        # exact arithmetic) the decision `noise > tol*noise` is not determined by the model: compare the common leading part only
        steps = min(real["iterations"], model["iterations"]) - 1
        noisy = steps >= 1 and all(real["H"][c][steps, steps - 1].real <= noise and model["H"][c][steps, steps - 1].real <= noise
                                   for c in range(real["Q"].shape[0]))
        if not noisy:
            mism.append(f"iterations real={real['iterations']} model={model['iterations']}")
            return mism
    for c in range(real["Q"].shape[0]):
        Qr, Hr, Qm, Hm = real["Q"][c], real["H"][c], model["Q"][c], model["H"][c]
        jr, jm = first_small(Hr, steps, noise), first_small(Hm, steps, noise)
        if jr != jm:
            mism.append(f"col {c}: noise breakdown at step real={jr} model={jm}")
            continue
        j = jr
        dq = np.abs(Qr[:, :j + 1] - Qm[:, :j + 1]).max() if j + 1 > 0 else 0.0
        ncol = min(j + 1, steps)
        dh = np.abs(Hr[:, :ncol] - Hm[:, :ncol]).max() if ncol > 0 else 0.0
        if not (dq <= 1e-8):
            mism.append(f"col {c}: |Q_real-Q_model|={dq:.3e} on columns 0..{j}")
        if not (dh <= 1e-8 * sc):
            mism.append(f"col {c}: |H_real-H_model|={dh:.3e} on columns 0..{ncol - 1}")
        # structural zeros (below the sub-diagonal, unexecuted columns) must agree exactly
        Mm = Hr.shape[1]
        struct_mask = np.tril(np.ones_like(Hr, dtype=bool), -2)
        struct_mask[:, steps:] = True
        if real["iterations"] == model["iterations"] and (
                ((Hr != 0) & struct_mask).any() != ((Hm != 0) & struct_mask).any()
                or (np.abs(Qr[:, steps + 1:]).max(initial=0) != 0) != (np.abs(Qm[:, steps + 1:]).max(initial=0) != 0)):
            mism.append(f"col {c}: structural zeros differ")
    if real["iterations"] != model["iterations"]:
        return mism
    if len(real["errors"]) != len(model["errors"]):
        mism.append(f"len(errors) real={len(real['errors'])} model={len(model['errors'])}")
    elif len(real["errors"]):
        # errors[i] = norm of start vector 0 after step i+2 (the last one repeated): compare up to the first noise breakdown
        j0 = first_small(real["H"][0], steps, noise)
        m = max(0, min(len(real["errors"]), j0))
        if m and not np.allclose(real["errors"][:m], model["errors"][:m], rtol=1e-6, atol=max(noise, 1e-8 * sc)):
            mism.append("info['errors'] differ")
    return mism


def match_sets(a, b):
    """greedy matching distance between two multisets of complex numbers (same length)"""
    a, b = list(a), list(b)
    if len(a) != len(b):
        return float("inf")
    worst = 0.0
    for x in a:
        j = int(np.argmin([abs(x - y) for y in b]))
        worst = max(worst, abs(x - b[j]))
        b.pop(j)
    return worst


def run_predicates(Hx, psteps, M, noise, tol):
    """the decidable predicates that attribute clauses / delimit what can be asked, from ONE Hessenberg buffer `Hx` and its step
    count: (beta, first noise breakdown jn, first clipped step jc, clip_genuine)"""
    beta = np.array([Hx[i + 1, i].real for i in range(M)])
    jn = first_small(Hx, psteps, noise)
    jc = first_small(Hx, psteps, tol / 2 * (1 - 1e-12))
    return beta, jn, jc, bool(jc < psteps and beta[jc] > noise)


def spec_check(case, real, mrun=None):
    """the property's statements on the REAL outputs.  -> list of (name, clause | None, detail) of failures.
    clause None = a hard failure (no modelled defect explains it).
    `mrun` = the MODEL's run on the same input (decode_model of the Lean driver's answer).  Round 4: every predicate that EXCUSES a
    failure by a recorded clause (noClip, stopExact, breakdownNotMasked) or delimits the part of the output a statement is asked of
    (first noise breakdown, first clipped step, exact stop) is evaluated on the model's H of THAT column - a function of the input
    (A, v, max_iters, tol) - and no longer on the real H, which a defective code could shape to excuse itself.  The statements
    themselves (residuals, orthogonality, stopping numbers) are evaluated on the real output as before.  Without a usable model run
    (mrun None / driver error / non-finite model H) NO clause is attributed: every failure is a hard failure."""
    fails = []
    if "exception" in real:
        return [("raises", None, real["exception"])]
    A, an = norms(case)
    cplx = case["complex"]
    V = fromjson(case["V"], cplx)
    n, M, tol = case["n"], case["M"], case["tol"]
    sc = max(1.0, an)
    noise = NOISE_REL * an
    steps = real["iterations"] - 1
    k = V.shape[0]
    if real["Q"].shape != (k, n, M + 1) or real["H"].shape != (k, M + 1, M):
        fails.append(("shape", None, f"Q{real['Q'].shape} H{real['H'].shape}"))
        return fails
    if not (0 <= steps <= min(M, n)):
        fails.append(("cap", None, f"steps={steps} > min(max_iters, n)={min(M, n)}"))
        return fails
    have_ref = (mrun is not None and "error" not in mrun and getattr(mrun.get("H"), "shape", None) == (k, M + 1, M)
                and bool(np.all(np.isfinite(mrun["H"]))) and 0 <= mrun["steps"] <= min(M, n))

    def excuse(clause):
        """a recorded clause may only be attributed when the predicate was evaluated on the model's run"""
        return clause if have_ref else None

    def preds(c):
        if have_ref:
            return run_predicates(mrun["H"][c], mrun["steps"], M, noise, tol) + (mrun["steps"],)
        return run_predicates(real["H"][c], steps, M, noise, tol) + (steps,)

    any_large = False
    for c in range(k):
        Q, H, v = real["Q"][c], real["H"][c], V[c]
        beta = np.array([H[i + 1, i].real for i in range(M)])       # the REAL sub-diagonal: used in statements only
        betap, jn, jc, clip_genuine, psteps = preds(c)               # predicates: on the model's run of this column
        if not np.allclose(Q[:, 0], v / np.linalg.norm(v), rtol=0, atol=1e-12):
            fails.append(("first-column", None, f"col {c}"))
        if np.abs(np.tril(H, -2)).max(initial=0.0) != 0.0:
            fails.append(("hessenberg", None, f"col {c}"))
        if any(H[i + 1, i].imag != 0 or H[i + 1, i].real < 0 for i in range(M)):
            fails.append(("subdiag-nonneg", None, f"col {c}"))
        if np.abs(Q[:, steps + 1:]).max(initial=0.0) != 0.0 or np.abs(H[:, steps:]).max(initial=0.0) != 0.0:
            fails.append(("padding-zero", None, f"col {c}: buffer beyond the executed steps is not zero"))
        # jn = first noise breakdown, jc = first clipped step (noise or genuine): of the MODEL's run (see preds)
        # Arnoldi relation for the executed steps up to the first noise breakdown
        for i in range(min(steps, jn + 1)):
            res = np.linalg.norm(A @ Q[:, i] - Q[:, :i + 2] @ H[:i + 2, i])
            if res > 1e-9 * sc:
                clause = excuse("noClip") if (noise < betap[i] < tol / 2) else None
                fails.append(("arnoldi-relation", clause, f"col {c} step {i}: residual {res:.3e}, beta={beta[i]:.3e} (model {betap[i]:.3e}), tol/2={tol / 2:.3e}"))
        # orthonormal columns 0..r, r = steps before the first exact breakdown
        r = min(jn, steps)
        G = Q[:, :r + 1].conj().T @ Q[:, :r + 1] - np.eye(r + 1)
        if np.abs(G).max() > 1e-7:
            clause = excuse("noClip") if (clip_genuine and jc < r) else None
            fails.append(("orthonormal", clause, f"col {c}: |Q^H Q - I|={np.abs(G).max():.3e} on columns 0..{r}"))
        # (c): no more than n orthonormal columns: column n (if any) is zero to rounding
        if steps == n and jn >= n - 1 and not clip_genuine:
            if np.linalg.norm(Q[:, n]) > max(1e-6, 10 * noise * 2 / tol):
                fails.append(("dimension-cap", None, f"col {c}: column n of Q has norm {np.linalg.norm(Q[:, n]):.3e}"))
        # after a breakdown (norm at rounding-noise level) the later columns are zero (to rounding)
        if jn < steps - 1:
            g = max(np.abs(Q[:, jn + 2:]).max(initial=0.0), np.abs(H[:, jn + 1:]).max(initial=0.0) / sc)
            if g > 1e-6:
                fails.append(("post-breakdown-zero", excuse("breakdownNotMasked"),
                              f"col {c}: breakdown in step {jn} (model norm {betap[jn]:.2e}) but {steps - 1 - jn} further steps were taken: "
                              f"later columns of Q/H reach {g:.3e}"))
        # full-buffer relation A Q[:, :M] = Q H
        if jn >= steps - 1:
            resf = np.linalg.norm(A @ Q[:, :M] - Q @ H)
            thr = 1e-9 * sc + 20 * noise * sc * 2 / tol
            exact_stop = psteps == M or (psteps > 0 and betap[psteps - 1] <= noise)      # of the model's run
            if resf > thr:
                if clip_genuine:
                    fails.append(("full-relation", excuse("noClip"), f"col {c}: |A Q - Q H|={resf:.3e}"))
                elif not exact_stop:
                    fails.append(("full-relation", excuse("stopExact"), f"col {c}: |A Q[:, :m] - Q H|={resf:.3e}, model steps={psteps} < max_iters={M}, "
                                                              f"model's last norm {betap[psteps - 1]:.3e}"))
                else:
                    fails.append(("full-relation", None, f"col {c}: |A Q - Q H|={resf:.3e} > {thr:.3e}"))
        if steps > 0 and beta[steps - 1] > tol * beta[0]:
            any_large = True
    # stopping: the loop stops only at the cap or when every start vector converged
    if steps < min(M, n) and steps > 0 and any_large:
        margin = min(abs(real["H"][c][steps, steps - 1].real - tol * real["H"][c][1, 0].real) for c in range(k))
        if margin > 1e-9 * sc:
            fails.append(("stops-too-early", None, f"steps={steps}"))
    # ... and not later (other half of C15_stopping): the code continues at index idx only if some start vector has
    # norm > tol*H[1,0]; both numbers are stored in the returned H (norm = H[idx, idx-1]) and `tol * H[1,0]` is the very float
    # expression the code evaluates, so the comparison is exact
    for idx in range(1, steps):
        nrm = [real["H"][c][idx, idx - 1].real for c in range(k)]
        ref = [tol * real["H"][c][1, 0].real for c in range(k)]
        if all(np.isfinite(nrm)) and all(np.isfinite(ref)) and all(a <= b for a, b in zip(nrm, ref)):
            fails.append(("stops-too-late", None, f"at index {idx} every start vector had norm <= tol*H[1,0] ({nrm[0]:.3e} <= {ref[0]:.3e}) "
                                                  f"but {steps - idx} more steps were executed"))
            break
    # H = Q^H A Q on the orthonormal columns (projected matrix), for every start vector
    for c in range(k):
        Q, H = real["Q"][c], real["H"][c]
        betap, jn, jc, clip_genuine, psteps = preds(c)
        r = min(jn, steps)
        ncol = min(steps, jn + 1, r + 1)
        if ncol > 0:
            P = Q[:, :r + 1].conj().T @ (A @ Q[:, :ncol]) - H[:r + 1, :ncol]
            if np.abs(P).max() > 1e-6 * sc * (r + 2):
                clause = excuse("noClip") if (clip_genuine and jc < r) else None
                fails.append(("projection", clause, f"col {c}: |Q^H A Q - H|={np.abs(P).max():.3e} on the leading {r + 1} x {ncol} block"))
    # arnoldi_eigs
    if "eigvals" in real:
        ev = real["eigvals"]
        H, Q = real["H"][0], real["Q"][0]
        betap, jn, jc, clip_genuine, psteps = preds(0)                # predicates on the model's run of the (single) start vector
        lam = np.linalg.eigvals(A)
        full_grade = steps == n and jn >= n - 1
        invariant = (steps > 0 and psteps > 0 and (full_grade or betap[psteps - 1] <= noise)
                     and not any(noise < betap[i] < tol / 2 for i in range(psteps)))
        if jn < steps - 1:
            # stepping continued after a noise breakdown: H holds amplified noise, the eigenvalues are garbage
            invariant = False
            spurious = [x for x in ev if min(abs(x - lam)) > etol0(sc, noise, tol) and abs(x) > etol0(sc, noise, tol)]
            if spurious:
                fails.append(("eigs-garbage", excuse("breakdownNotMasked"), f"{len(spurious)} returned eigenvalues are neither eigenvalues of A nor zero, e.g. {spurious[0]:.4g}"))
        etol = 1e-6 * sc + 50 * noise * sc * 2 / tol
        if invariant:
            # no spurious eigenvalues: every returned value is an eigenvalue of A
            spurious = [x for x in ev if min(abs(x - lam)) > etol]
            if spurious:
                clause = "noPaddingEigs" if len(ev) > steps else None
                fails.append(("eigs-spurious", clause, f"{len(spurious)} returned eigenvalues are not eigenvalues of A "
                              f"(returned {len(ev)}, executed steps {steps}, n={n}); e.g. {spurious[0]:.3e}"))
            if full_grade and M >= n:
                d = match_sets(ev, lam) if len(ev) == n else float("inf")
                if d > etol:
                    clause = "noPaddingEigs" if len(ev) > steps else None
                    fails.append(("eigs-spectrum", clause, f"returned {len(ev)} values for an n={n} operator; matching distance {d:.3e}"))
            # the returned eigenvectors: eigvectors[:, j] is a non-zero eigenvector of A for eigvals[j] (C15_arnoldiEigs_sound);
            # the residual of a Ritz pair of an invariant block does not depend on the conditioning of the eigenvectors
            X = real.get("eigvecs")
            if X is not None and len(ev) == steps:
                if X.shape != (n, len(ev)):
                    fails.append(("eigvecs-shape", None, f"eigenvectors of shape {X.shape} for {len(ev)} eigenvalues, n={n}"))
                else:
                    worst, wj = 0.0, -1
                    for j2 in range(len(ev)):
                        nx = np.linalg.norm(X[:, j2])
                        rj = np.linalg.norm(A @ X[:, j2] - ev[j2] * X[:, j2]) if nx > 0.5 else float("inf")
                        if rj > worst:
                            worst, wj = rj, j2
                    if worst > etol:
                        fails.append(("eigvecs-residual", None, f"|A x - lambda x| = {worst:.3e} for returned pair {wj} (lambda={ev[wj]:.5g})"))
    return fails


def etol0(sc, noise, tol):
    return 1e-6 * sc + 50 * noise * sc * 2 / tol


def model_eigs(model):
    if model.get("eigsH") is None or model["eigsH"].size == 0:
        return np.zeros(0, dtype=complex)
    return np.linalg.eigvals(model["eigsH"])


def compare_eigs(case, real, model):
    if "eigvals" not in real:
        return []
    A, an = norms(case)
    sc = max(1.0, an)
    noise = NOISE_REL * an
    ev_m = model_eigs(model)
    if real["iterations"] != model["iterations"]:
        return []           # noise-determined stop (see compare_real_model)
    steps = model["steps"]
    if first_small(real["H"][0], steps, noise) < steps - 1:
        return [] if len(ev_m) == len(real["eigvals"]) else ["number of eigenvalues differs"]   # amplified noise: not comparable
    if len(ev_m) != len(real["eigvals"]):
        return [f"arnoldi_eigs returns {len(real['eigvals'])} values, model hands a {len(ev_m)}x{len(ev_m)} matrix to eig"]
    d = match_sets(real["eigvals"], ev_m)
    if d > 1e-6 * sc + 50 * noise * sc * 2 / case["tol"]:
        return [f"eigenvalues real vs eig(model H): distance {d:.3e}"]
    return []


def eigs_driver_case(case, real, cid):
    """driver case running `Arnoldi.arnoldiEigs` with `eig := fun _ => (LAPACK's answer on the real run's matrix)`; always in the
    complex instance (geev returns complex eigenvalues for a real matrix)"""
    cplx = case["complex"]
    A = fromjson(case["A"], cplx).astype(complex)
    V = fromjson(case["V"], cplx).astype(complex)
    ev, vs = real["eig_answer"]
    d = {"id": cid, "kind": "arnoldi_eigs", "complex": True, "n": case["n"], "M": case["M"], "tol": bits(case["tol"]),
         "A": enc(A, True), "V": enc(V[:1], True), "eigvals": enc(np.asarray(ev, dtype=complex), True),
         "eigvecs": enc(np.asarray(vs, dtype=complex), True)}
    if os.environ.get("VERIF_ARNOLDI_TRIM"):
        d["trim"] = os.environ["VERIF_ARNOLDI_TRIM"] == "1"
    return d


def compare_eigs_run(case, real, model, ans):
    """the executed model `arnoldiEigs` against the real `arnoldi_eigs` -> list of mismatch strings"""
    if ans is None or "eig_answer" not in real:
        return []
    if "error" in ans:
        return [f"arnoldi_eigs driver: {ans['error']}"]
    A, an = norms(case)
    sc = max(1.0, an)
    noise = NOISE_REL * an
    if real["iterations"] != ans["iterations"]:
        return []           # noise-determined stop: already judged by compare_real_model on the arnoldi stream
    steps = ans["steps"]
    if first_small(real["H"][0], steps, noise) < steps - 1:
        return []           # stepping continued after a noise breakdown: amplified noise, not comparable
    ev, vs = real["eig_answer"]
    k = len(ev)
    mism = []
    ev_m = dec(ans["ev"], True) if ans["ev"] else np.zeros(0, dtype=complex)
    ritz = dec(ans["ritz"], True) if ans["ritz"] else np.zeros((0, case["n"]), dtype=complex)      # (k, n)
    Hm = dec(ans["eigsH"], True) if ans.get("eigsH") else np.zeros((0, 0), dtype=complex)
    if Hm.shape != (k, k) or len(ev_m) != k or ritz.shape[0] != k:
        return [f"arnoldi_eigs: real hands a {k}x{k} matrix to eig, the model a {Hm.shape[0]}x{Hm.shape[0] if Hm.ndim == 2 else 0} one "
                f"and returns {len(ev_m)} values / {ritz.shape[0]} vectors"]
    if k == 0:
        return []
    if not np.array_equal(ev_m, np.asarray(ev, dtype=complex)):
        mism.append("arnoldi_eigs: the model does not return the eigenvalues eig gave it")
    # contract of the parameter `eig` on the matrix the MODEL handed over
    resid = np.abs(Hm @ vs - vs * np.asarray(ev)[None, :]).max()
    if resid > 1.001e-8 * k * sc:
        mism.append(f"arnoldi_eigs: eig's answer is not an eigen-decomposition of the model's matrix: residual {resid:.3e}")
    # returned eigenvectors
    X = real["eigvecs"]
    if X.shape != (case["n"], k):
        mism.append(f"arnoldi_eigs: real eigenvectors of shape {X.shape}, model {(case['n'], k)}")
    else:
        bound = 1e-8 * np.abs(vs).sum(axis=0)                    # |dQ| <= 1e-8 entry-wise  ==>  |d(Q v)| <= 1e-8 |v|_1
        d = np.abs(X - ritz.T).max(axis=0)
        bad = np.nonzero(d > bound + 1e-13)[0]
        if len(bad):
            mism.append(f"arnoldi_eigs: eigenvector {int(bad[0])}: |x_real - x_model| = {d[bad[0]]:.3e} > {bound[bad[0]]:.3e}")
    return mism


# ------------------------------------------------------------------ engine
class Engine:
    def __init__(self, ctx, prop_known):
        self.ctx = ctx
        self.known = set(prop_known) | PROVISIONAL_KNOWN
        self.evals = 0
        self.seen = set()
        self.nontrivial = set()
        self.dist = {"n": {}, "m_vs_n": {"m<n": 0, "m=n": 0, "m>n": 0}, "breakdown": 0, "batch": {}, "complex": 0, "real": 0,
                     "clauses": {}, "clause_by_stream": {}, "cls": {}, "tol": {}, "outcomes": {"ok": 0, "modelled-defect": 0, "real!=model": 0}}
        self.samples = []

    def unexcused(self, fails):
        """failed statements that no RECORDED clause explains: clause None, or a clause name that is not listed for this property in
        known_findings.json (e.g. the regression detector `noPaddingEigs` of the repaired defect (a))"""
        return [f for f in fails if f[1] is None or f[1] not in self.known]

    def account(self, case, real):
        key = common.canon({k: case[k] for k in ("A", "V", "M", "tol", "batched", "eigs")})
        self.evals += 1
        if key in self.seen:
            return
        self.seen.add(key)
        steps = real.get("iterations", 1) - 1 if "iterations" in real else 0
        if case["n"] >= 2 and steps >= 1:
            self.nontrivial.add(key)
        d = self.dist
        d["n"][case["n"]] = d["n"].get(case["n"], 0) + 1
        d["m_vs_n"]["m<n" if case["M"] < case["n"] else "m=n" if case["M"] == case["n"] else "m>n"] += 1
        if any(gr < min(case["n"], case["M"]) for gr in case.get("grades", [])):
            d["breakdown"] += 1
        kk = len(case["V"])
        d["batch"][kk] = d["batch"].get(kk, 0) + 1
        d["complex" if case["complex"] else "real"] += 1
        d["cls"][case.get("cls", "?")] = d["cls"].get(case.get("cls", "?"), 0) + 1
        d["tol"][str(case["tol"])] = d["tol"].get(str(case["tol"]), 0) + 1
        if len(self.samples) < 6:
            s = dict(case)
            s["A"] = str(s["A"])[:160] + "…"
            s["V"] = str(s["V"])[:120] + "…"
            self.samples.append(s)

    def judge(self, case, real, model, eigs_ans=None):
        """three-way classification of one case"""
        ctx = self.ctx
        mism = compare_real_model(case, real, model) + (compare_eigs(case, real, model) if not ("exception" in real or "error" in model) else [])
        if not ("exception" in real or "error" in model):
            mism += compare_eigs_run(case, real, model, eigs_ans)
            if case.get("eigs") and "eigvals" in real:
                key = "executed" if eigs_ans is not None and "error" not in (eigs_ans or {}) else "not-run"
                if not real.get("eig_reproduced", False):
                    key = "eig-not-reproducible(skipped)"
                self.dist.setdefault("arnoldiEigs_model_runs", {}).setdefault(key, 0)
                self.dist["arnoldiEigs_model_runs"][key] += 1
        fails = spec_check(case, real, model)
        if mism:
            self.dist["outcomes"]["real!=model"] += 1
            hard = self.unexcused(fails)
            if hard:
                common.violation(ctx, {"case": case, "failed": [list(f) for f in hard], "real_vs_model": mism})
            else:
                found = self.search(case)
                if found is not None:
                    common.violation(ctx, {"case": found[0], "failed": [list(f) for f in found[1]], "original_case": case,
                                           "real_vs_model": mism})
                else:
                    common.violation(ctx, {"case": case, "real_vs_model": mism, "failed": [list(f) for f in fails]}, no_input=True)
            return "real!=model"
        if not fails:
            self.dist["outcomes"]["ok"] += 1
            return "ok"
        # real = model != spec: a modelled defect — by clause
        self.dist["outcomes"]["modelled-defect"] += 1
        status = "known"
        for name, clause, detail in fails:
            if clause is None:
                common.violation(ctx, {"case": case, "failed": [[name, clause, detail]],
                                       "note": "real = model but the property statement fails and no named clause covers it"})
                status = "violation"
                break
            self.dist["clauses"][clause] = self.dist["clauses"].get(clause, 0) + 1
            ks = clause + "@stream" + case.get("stream", "?")
            self.dist["clause_by_stream"][ks] = self.dist["clause_by_stream"].get(ks, 0) + 1
            if clause in self.known:
                common.known_finding(ctx, clause, WHAT[clause] + f" [e.g. n={case['n']} max_iters={case['M']} tol={case['tol']}: {name}: {detail}]")
            else:
                common.violation(ctx, {"case": case, "failed": [[name, clause, detail]], "clause": clause,
                                       "note": "modelled defect (real = model != spec), clause not listed in known_findings.json"})
                status = "violation"
                break
        return status

    def search(self, case, budget=140):
        """real != model: look for a concrete input on which the REAL code violates a property statement that no recorded clause
        explains (first column, Hessenberg, orthonormality, H = Q^H A Q, Arnoldi relation, stopping rule, padding, spectrum,
        eigenvectors).  Neighbourhood: the case under nearby parameters (default tolerance, max_iters around n), the operator scaled to
        norm 1 (takes the absolute clip out of the picture), other start vectors (unit vector, all-ones, an eigenvector, a vector in a
        2-dimensional invariant subspace, batches mixing them), leading principal sub-blocks.  -> (case, hard failures) | None"""
        cplx = case["complex"]
        A = fromjson(case["A"], cplx)
        V = fromjson(case["V"], cplx)
        n = case["n"]
        an = float(np.linalg.norm(A, 2)) if A.size else 0.0
        cands, seen = [], set()

        def add(A2, V2, M, tol):
            V2 = np.atleast_2d(V2)
            if A2.shape[0] == 0 or M < 1 or not np.all(np.linalg.norm(V2, axis=1) > 0):
                return
            c2 = dict(case)
            c2.update({"n": A2.shape[0], "M": int(M), "tol": float(tol), "A": tojson(A2), "V": tojson(V2), "batched": V2.shape[0] > 1,
                       "eigs": V2.shape[0] == 1, "grades": [A2.shape[0]] * V2.shape[0], "starts": ["search"] * V2.shape[0],
                       "stream": case.get("stream", "?") + "/search"})
            c2.pop("mixed", None)
            key = common.canon({k: c2[k] for k in ("A", "V", "M", "tol")})
            if key not in seen:
                seen.add(key)
                cands.append(c2)

        for tol in dict.fromkeys([case["tol"], 1e-7, 1e-5]):
            for M in dict.fromkeys([case["M"], n, max(1, n - 1), n + 2]):
                add(A, V, M, tol)
        As = A / an if (an > 0 and not 0.5 <= an <= 2.0) else A
        if As is not A:
            for M in dict.fromkeys([n, case["M"], n + 2]):
                add(As, V, M, 1e-7)
        dt = complex if cplx else float
        e1 = np.zeros(n, dtype=dt)
        e1[0] = 1.0
        starts = [e1, np.ones(n, dtype=dt)]
        try:
            w, X = np.linalg.eig(As)
            if n >= 2:
                v2 = X[:, 0] + X[:, 1]
                starts.append(v2 if cplx else np.real(v2))
            v1 = X[:, int(np.argmin(np.abs(w.imag)))]
            starts.append(v1 if cplx else np.real(v1))
        except Exception:  # noqa: BLE001
            pass
        for v in starts:
            if np.linalg.norm(v) > 0:
                for M in dict.fromkeys([n, n + 2, max(1, n // 2)]):
                    add(As, v, M, 1e-7)
        if len(starts) >= 3:
            add(As, np.stack([V[0], starts[2]]), n, 1e-7)
            add(As, np.stack([starts[2], V[0], starts[0]]), n + 1, 1e-7)
        for nn in range(n - 1, 0, -1):
            add(As[:nn, :nn], V[:, :nn], nn, 1e-7)
            add(As[:nn, :nn], V[:1, :nn], nn + 1, 1e-7)
        # the clause predicates of spec_check are evaluated on the MODEL's run of each candidate (never on its real output):
        # one driver call for the whole neighbourhood
        cands = cands[:budget]
        try:
            answers = run_driver([driver_case(c2, i) for i, c2 in enumerate(cands)])
        except Exception:  # noqa: BLE001
            answers = {}
        for i, c2 in enumerate(cands):
            r = eval_real(c2)
            m2 = decode_model(answers.get(i, {"error": "no answer from the Lean driver"}), c2["complex"])
            hard = self.unexcused(spec_check(c2, r, m2))
            if hard:
                return c2, hard
        return None

    def run(self, cases):
        EOFF = 10 ** 7
        reals = [eval_real(c) for c in cases]
        dcases = [driver_case(c, i) for i, c in enumerate(cases)]
        # the model's arnoldi_eigs is executed with eig := LAPACK's (reproduced) answer of the real run
        for i, (c, r) in enumerate(zip(cases, reals)):
            if c.get("eigs") and r.get("eig_reproduced") and not c.get("mixed"):
                dcases.append(eigs_driver_case(c, r, EOFF + i))
        # big cases first so that the parallel driver processes are balanced
        dcases.sort(key=lambda d: -(d["n"] ** 2 * min(d["M"], d["n"])))
        answers = run_driver(dcases)
        for i, c in enumerate(cases):
            real = reals[i]
            model = decode_model(answers.get(i, {"error": "no answer from the Lean driver"}), c["complex"])
            self.account(c, real)
            self.judge(c, real, model, answers.get(EOFF + i))
            sw = self.dist.setdefault("model_switch_trimPaddingInEigs", {})
            sw[str(model.get("trim"))] = sw.get(str(model.get("trim")), 0) + 1

    def coverage(self):
        return {
            "evaluations": self.evals,
            "distinct_nontrivial": len(self.nontrivial),
            "distinct": len(self.seen),
            "samples": self.samples,
            "distributions": self.dist,
            "outcomes": self.dist["outcomes"],
            "compare": "tol",
        }


def run(ctx):
    gate, gate_err = None, None
    try:
        gate = common.lean_gate(ctx, MODULE)
    except common.LeanGateError as ex:
        gate_err = str(ex)
    eng = Engine(ctx, common.known_clauses(ctx.prop))
    if ctx.replay:
        rp = json.load(open(ctx.replay))
        c = rp.get("case") or rp.get("original_case")
        real = eval_real(c)
        ans = run_driver([driver_case(c, 0)], nproc=1)
        model = decode_model(ans.get(0, {"error": "no answer"}), c["complex"])
        eng.account(c, real)
        st = eng.judge(c, real, model)
        print(json.dumps({"replayed": {k: c[k] for k in ("n", "M", "tol", "cls", "starts")}, "status": st,
                          "spec_failures": [list(f) for f in spec_check(c, real, model)],
                          "real_vs_model": compare_real_model(c, real, model)})[:3000])
    else:
        g = np.random.default_rng(random.Random(ctx.seed * 7919 + 15).getrandbits(64))
        cases = stream(ctx, g)
        eng.run(cases)
    if gate_err is not None and not ctx.violations:
        common.violation(ctx, {"broken": f"Lean gate of {MODULE}", "detail": gate_err[-3000:]}, no_input=True)
    cov = eng.coverage()
    cov["rule"] = ("A = X diag(lam) X^-1 with well-conditioned X (classes normal / nonsym / nonnormal / jordanish, real and complex, "
                   "|lam| in [1,3] separated), n = 1..%d plus n = 32, 64 (quick) / 64, 100, 150, 200 (thorough), max_iters = 1..n+3, start vectors generic / eigenvector / sum of 2-3 eigenvectors "
                   "(breakdown), batches of 2-4 start vectors through the vmap shim, tol in {1e-3,1e-5,1e-7,1e-8} plus an edge stream "
                   "(operators of norm 1e-9, tol 0.5/0.9); distinct = canonical JSON of (A, V, max_iters, tol, batched, eigs); "
                   "non-trivial = n >= 2 and >= 1 executed step; comparison real vs Lean model: |dQ| <= 1e-8, |dH| <= 1e-8*max(1,|A|) on the "
                   "columns before the first noise breakdown (norm <= 1e-10*|A|), iterations and errors equal; the model's arnoldi_eigs "
                   "(Arnoldi.arnoldiEigs) is executed by the driver for every single-start case, eig := LAPACK's answer of the real run, and its "
                   "eigenvalues / eigenvectors are compared with the real ones (distributions.arnoldiEigs_model_runs); the property's "
                   "statements (incl. both directions of the stopping rule, H = Q^H A Q, residuals of the returned eigenvectors) are evaluated "
                   "on the real outputs with NumPy; the predicates that attribute a recorded clause to a failed statement (first noise breakdown, first clipped "
                   "step, exact stop) are evaluated per start vector on the MODEL's H (a function of the input), never on the real H; without a usable "
                   "model run no clause is attributed" % (12 if not ctx.thorough else 40))
    cov["trusted_base_extra"] = ["lean/DriverArnoldi.lean and the Float/CF instances of Arnoldi.Num / Arnoldi.VecOps (IEEE doubles; only the correspondence uses them)",
                                 "xnp.eig (LAPACK geev) is a parameter of the model under the contract Arnoldi.EigPairs / EigComplete (satisfiable: Hess3.eigPairs_W, "
                                 "Hess3.eigComplete_W): the driver runs Arnoldi.arnoldiEigs with eig := LAPACK's answer on the real run's matrix, and the harness checks "
                                 "that answer against the contract on the matrix the model hands over"]
    common.write_evidence(ctx, gate, cov, assumptions=[
        "theorems are about exact real/complex arithmetic; rounding (loss of orthogonality, noise after a breakdown) is outside the model",
        "tol > 0 and non-zero start vectors (tol = 0 with an exact breakdown, or a zero start vector, give NaN in the real code: 0/0)",
        "the Householder variant (use_householder=True) is outside the model",
        "mixed dtypes (stream D: real operator, complex start vector): the Lean model has one scalar type, so the model is run on the operator "
        "cast to the promoted (complex) dtype while the real code gets the real operator; the results go through the normal comparison "
        "(the former truncation defect is repaired in /repo, commit a98c0be; there is no excuse path)"])
    print(json.dumps({"outcomes": cov["outcomes"], "distinct_nontrivial": cov["distinct_nontrivial"], "clauses": cov["distributions"]["clauses"],
                      "gate": (gate or {}).get("obligations"), "wall_s": round(ctx.wall(), 1)}))
