"""C07 — slogdet / logdet equal the determinant's phase and log-magnitude.

Three values per case (operator tree, log_alg, trace_alg):
  real : cola.linalg.slogdet / logdet in-process -> sign * exp(logabs)
  code : Lean `Op.claimedDet` (the rules of logdet.py evaluated exactly over Q[i], DriverC07.lean); on the Lanczos / Arnoldi
         base cases the kernel is the EXACT KRYLOV MODEL (Model/KrylovExact.lean: un-normalised recurrence per identity probe,
         A Q = Q H re-checked, power sums tr A^k through Q H^k e1, determinant by Newton's identities) -- not the spec
  spec : exact determinant of the represented matrix `den A` (Gaussian elimination, DriverC07.lean)
code == spec is compared EXACTLY; real is compared with a relative tolerance (transcendental functions, LAPACK).
Numerical-range stream: long Diagonal / ScalarMul / Triangular / Kronecker / BlockDiag trees whose determinant leaves the
floating point range; there `logabs` and `sign` are compared with log|det| and det/|det| of the EXACT determinant.
Round 5: (ix) a `known` outcome excuses ONE FACTOR only -- the tree is split into the factors of the structural rules
(`rule_factors`, the walk of the dispatcher / `Op.slogdetAt`) and every factor is evaluated on its own with the options of the
whole call; only factors whose base leaf meets the driver's clause predicate are excused, every other factor is compared;
(viii) stream `singular`: det = 0 through every structural rule / LU / Cholesky against the IEEE outcome instance of the rule
model (`Model/LogDetSing.lean`, theorems `Properties/C07/Singular.lean`); (i) stream `kernel-tie`: real Lanczos kernel with
tol = 0, cap >= n / driver `trlogK` / theorem-side value of `Op.lanczosKernels` (`C07_lanczos_kernel_value`, hypotheses decided by the driver).
"""
import collections
import itertools
import json
import math
import os
import random
import warnings
from fractions import Fraction

import numpy as np

import build
import common
import gen
import oracle

warnings.simplefilter("ignore")
np.seterr(all="ignore")
MODULE = "ColaVerif.Properties.C07"
SUBMODULES = ["ColaVerif.Properties.C07.Singular"]   # round 5: singular inputs, Lanczos kernel value
DRIVER = "DriverC07.lean"

# defects found by this check and not yet decided (none at present)
PROVISIONAL_KNOWN = {}   # nothing provisional: the recorded clauses (krylov-blockdiag-zero-probe, lanczos-batch-breakdown) are read from /verif/known_findings.json

TOL = {  # relative tolerance on sign * exp(logabs) by (path, precision)
    ("direct", "d"): 1e-9, ("direct", "s"): 5e-4,
    ("krylov", "d"): 1e-6, ("krylov", "s"): 5e-3,
}
UNIT_TOL = {"d": 1e-12, "s": 1e-5}
MAX_VIOLATION_LINES = 6   # further failing inputs of the same run are counted, not shrunk / reported one by one

# outcomes of the Krylov kernel outside its contract (DriverC07.lean) -> clause recorded in /verif/known_findings.json
KERNEL_OUTCOMES = {"lanczos-batch-breakdown": "lanczos-batch-breakdown", "krylov-zero-probe": "krylov-blockdiag-zero-probe"}
LAS = [None, "auto", "lu", "chol", "lanczos", "arnoldi"]
TAS = [None, "auto", "exact"]


# ------------------------------------------------------------------ exact helpers
def fr(x):
    if isinstance(x, dict):
        return Fraction(x["q"][0], x["q"][1])
    if isinstance(x, str):
        n, d = x.split("/")
        return Fraction(int(n), int(d))
    return Fraction(x)


def qj(f):
    f = Fraction(f)
    return int(f) if f.denominator == 1 else {"q": [f.numerator, f.denominator]}


def zj(re, im=0):
    re, im = Fraction(re), Fraction(im)
    return qj(re) if im == 0 else [qj(re), qj(im)]


def zval(v):
    """case-language scalar -> (Fraction, Fraction)"""
    if isinstance(v, list):
        return fr(v[0]), fr(v[1])
    return fr(v), Fraction(0)


def zmul(a, b):
    return (a[0] * b[0] - a[1] * b[1], a[0] * b[1] + a[1] * b[0])


def mat_mul(A, B):
    n, k, m = len(A), len(B), len(B[0])
    out = [[(Fraction(0), Fraction(0))] * m for _ in range(n)]
    for i in range(n):
        for j in range(m):
            s0, s1 = Fraction(0), Fraction(0)
            for t in range(k):
                p = zmul(A[i][t], B[t][j])
                s0 += p[0]
                s1 += p[1]
            out[i][j] = (s0, s1)
    return out


def mat_json(A):
    return [[zj(*z) for z in row] for row in A]


def zinv(a):
    d = a[0] * a[0] + a[1] * a[1]
    return (a[0] / d, -a[1] / d)


def zparse(v):
    """a value printed by the driver (`showZ`) -> (Fraction, Fraction)"""
    return (fr(v[0]), fr(v[1]))


def newton_det(n, t):
    """Newton's identities in exact complex Fractions: k e_k = sum_{j=1..k} (-1)^(j-1) e_{k-j} t_j; det = e_n"""
    e = [(Fraction(1), Fraction(0))]
    for k in range(1, n + 1):
        s = (Fraction(0), Fraction(0))
        for j in range(1, k + 1):
            term = zmul(e[k - j], t[j])
            s = (s[0] + term[0], s[1] + term[1]) if j % 2 == 1 else (s[0] - term[0], s[1] - term[1])
        e.append((s[0] / k, s[1] / k))
    return e[n]


def gauss_det(M):
    """determinant by Gaussian elimination in exact complex Fractions (independent of the driver's `detGE` and of Newton)"""
    n = len(M)
    A = [list(r) for r in M]
    det = (Fraction(1), Fraction(0))
    for c in range(n):
        p = next((r for r in range(c, n) if A[r][c] != (0, 0)), None)
        if p is None:
            return (Fraction(0), Fraction(0))
        if p != c:
            A[p], A[c] = A[c], A[p]
            det = (-det[0], -det[1])
        det = zmul(det, A[c][c])
        pin = zinv(A[c][c])
        for r in range(c + 1, n):
            if A[r][c] != (0, 0):
                f = zmul(A[r][c], pin)
                A[r] = [(x[0] - zmul(f, y)[0], x[1] - zmul(f, y)[1]) for x, y in zip(A[r], A[c])]
    return det


def recheck_krylov_leaves(ans):
    """INDEPENDENT re-check of the arithmetic of the driver's Krylov kernel `trlogK` (DriverC07.lean), in exact Python Fractions, for
    every base leaf it reports: (i) the power sums t_k the exact Krylov model produced through the identity probes equal tr(A^k) computed
    by plain matrix powers; (ii) the determinant the driver reconstructed from them equals Newton's identities evaluated here;
    (iii) ... and equals the determinant of the leaf by Gaussian elimination.  -> list of discrepancies (empty = confirmed)"""
    bad = []
    for li, leaf in enumerate(ans.get("krylov_leaves") or []):
        n = leaf["n"]
        M = [[zparse(z) for z in row] for row in leaf["mat"]]
        if leaf.get("t") is None:
            continue            # the driver's own invariance check failed: it reports an error for this case, nothing to confirm
        t = [zparse(z) for z in leaf["t"]]
        P = [[(Fraction(int(i == j)), Fraction(0)) for j in range(n)] for i in range(n)]
        for k in range(n + 1):
            tr = (sum(P[i][i][0] for i in range(n)), sum(P[i][i][1] for i in range(n)))
            if tr != t[k]:
                bad.append(f"leaf {li}: power sum t_{k} = {t[k]} but tr(A^{k}) = {tr}")
                break
            if k < n:
                P = mat_mul(P, M)
        d = zparse(leaf["det"])
        if newton_det(n, t) != d:
            bad.append(f"leaf {li}: Newton's identities give {newton_det(n, t)}, the driver {d}")
        if gauss_det(M) != d:
            bad.append(f"leaf {li}: determinant of the leaf is {gauss_det(M)}, the driver's Krylov value {d}")
    return bad


def is_cplx(dt):
    return dt in ("c64", "c128")


def prec(dt):
    return "s" if dt in ("f32", "c64") else "d"


# ------------------------------------------------------------------ generator
class DetGen:
    """random NON-SINGULAR square operator trees with small exact determinants.

    basepd: every base-case leaf (a leaf that reaches the LU / Cholesky / Krylov rules) is a truly Hermitian positive
    definite operator declared PSD whose Cholesky factor is over Q[i] (so that the Cholesky and Lanczos paths are
    in their domain and the Lean model evaluates them exactly)."""

    def __init__(self, rng, basepd=False, exotic=True, dtypes=None, max_n=6, herm_indef_p=0.0, undeclared_p=0.0):
        self.rng = rng
        self.basepd = basepd
        self.exotic = exotic
        self.dtypes = dtypes or ["f64", "f64", "c128", "c128", "f32", "c64"]
        self.max_n = max_n
        self.herm_indef_p = herm_indef_p
        self.undeclared_p = undeclared_p
        self.G = gen.Gen(rng, max_extent=3, vmax=2, ann=True, arr_index=False, ann_p=0.1)

    def dt(self, n=1):
        """single precision only for small leaves (its rounding error times the conditioning of a large random leaf would
        need a tolerance that detects nothing)"""
        dts = self.dtypes if n <= 5 else [d for d in self.dtypes if prec(d) == "d"] or ["f64"]
        return self.rng.choice(dts)

    # ---- scalars
    def mag(self):
        return self.rng.choice([1, 1, 2, 3, Fraction(1, 2), Fraction(1, 2), Fraction(1, 4), Fraction(3, 2), Fraction(1, 8)])

    def unit(self, dt):
        if is_cplx(dt):
            return self.rng.choice([(1, 0), (-1, 0), (0, 1), (0, -1)])
        return self.rng.choice([(1, 0), (-1, 0)])

    def nz(self, dt):
        """non-zero scalar: dyadic magnitude times a unit (complex: also 1+i style)"""
        m = self.mag()
        u = self.unit(dt)
        if is_cplx(dt) and self.rng.random() < 0.2:
            u = self.rng.choice([(1, 1), (1, -1), (-1, 1)])
        return (Fraction(u[0]) * m, Fraction(u[1]) * m)

    def small(self, dt, p0=0.4):
        if self.rng.random() < p0:
            return (Fraction(0), Fraction(0))
        if is_cplx(dt) and self.rng.random() < 0.5:
            return (Fraction(self.rng.randint(-1, 1)), Fraction(self.rng.choice([-1, 1])))
        return (Fraction(self.rng.choice([-2, -1, 1, 1, 2])), Fraction(0))

    # ---- exact matrices
    def tri_mat(self, dt, n, lower, unit_diag=False, posdiag=False):
        M = [[(Fraction(0), Fraction(0))] * n for _ in range(n)]
        for i in range(n):
            for j in range(n):
                if i == j:
                    if unit_diag:
                        M[i][j] = (Fraction(1), Fraction(0))
                    elif posdiag:
                        M[i][j] = (Fraction(self.rng.choice([1, 1, 2, Fraction(1, 2), 3, Fraction(1, 4)])), Fraction(0))
                    else:
                        M[i][j] = self.nz(dt)
                elif (lower and j < i) or (not lower and j > i):
                    M[i][j] = self.small(dt)
        return M

    def general_mat(self, dt, n):
        """P * L * D * U with unit triangular L, U: determinant = sign(P) * prod(D), all entries small dyadics"""
        def make():
            L = self.tri_mat(dt, n, True, unit_diag=True)
            U = self.tri_mat(dt, n, False)
            M = mat_mul(L, U)
            rows = list(range(n))
            self.rng.shuffle(rows)
            return [M[r] for r in rows]
        return self.well_conditioned(make)

    @staticmethod
    def cond_of(M):
        A = np.array([[complex(float(z[0]), float(z[1])) for z in row] for row in M])
        return np.linalg.cond(A)

    def well_conditioned(self, make, limit=1e4):
        """the generator controls the conditioning of its dense leaves (tolerance comparison: a false alarm is worse than a miss)"""
        M = make()
        for _ in range(12):
            if self.cond_of(M) <= limit:
                break
            M = make()
        return M

    def pd_mat(self, dt, n):
        def make():
            L = self.tri_mat(dt, n, True, posdiag=True)
            LH = [[(L[j][i][0], -L[j][i][1]) for j in range(n)] for i in range(n)]
            return mat_mul(L, LH)
        return self.well_conditioned(make)

    def herm_indef_mat(self, dt, n):
        L = self.tri_mat(dt, n, True, unit_diag=True)
        D = [[(Fraction(0), Fraction(0))] * n for _ in range(n)]
        for i in range(n):
            D[i][i] = (self.mag() * self.rng.choice([1, -1]), Fraction(0))
        k = self.rng.randrange(n)
        D[k][k] = (-self.mag(), Fraction(0))   # at least one negative eigenvalue (Sylvester's law of inertia)
        LH = [[(L[j][i][0], -L[j][i][1]) for j in range(n)] for i in range(n)]
        return mat_mul(mat_mul(L, D), LH)

    # ---- leaves with a structural rule
    def leaf_struct(self, n):
        dt = self.dt()  # structural rules: no conditioning issue
        k = self.rng.choice(["diag", "diag", "scalar", "scalar", "eye", "tri", "tri", "perm", "perm"])
        if k == "diag":
            return ["diag", dt, [zj(*self.nz(dt)) for _ in range(n)]]
        if k == "scalar":
            return ["scalar", dt, zj(*self.nz(dt)), n]
        if k == "eye":
            return ["eye", dt, n]
        if k == "tri":
            lower = self.rng.random() < 0.5
            return ["tri", dt, n, n, lower, mat_json(self.tri_mat(dt, n, lower))]
        p = list(range(n))
        self.rng.shuffle(p)
        return ["perm", dt, p]

    # ---- leaves that reach the base cases
    def leaf_pd(self, n):
        dt = self.dt(n)
        r = self.rng.random()
        if r < self.herm_indef_p:
            return ["ann", "SelfAdjoint", ["dense", dt, n, n, mat_json(self.herm_indef_mat(dt, n))]]
        core = ["dense", dt, n, n, mat_json(self.pd_mat(dt, n))]
        if r < self.herm_indef_p + self.undeclared_p:
            return core
        r = self.rng.random()
        if r < 0.55:
            return ["ann", "PSD", core]
        if r < 0.7:
            # a Sum (no structural rule): 4 L L^H = (2L)(2L)^H keeps the Cholesky factor rational
            return ["ann", "PSD", ["sum", core, core, core, core]]
        if r < 0.8:
            return ["ann", "PSD", ["generic", core]]
        if r < 0.9:
            return ["ann", "PSD", [self.rng.choice(["T", "H"]), ["sum", core, core, core, core]]]
        return ["ann", self.rng.choice(["PSD", "SelfAdjoint"]), core]

    def leaf_general(self, n):
        dt = self.dt(n)
        r = self.rng.random()
        if self.exotic and r < 0.45:
            e = self.exotic_leaf(n)
            if e is not None:
                return e
        if r < 0.55:
            return ["ann", "PSD", ["dense", dt, n, n, mat_json(self.pd_mat(dt, n))]]
        return ["dense", dt, n, n, mat_json(self.general_mat(dt, n))]

    def exotic_leaf(self, n):
        """a random tree of gen.py (all kinds: sum, kronsum, T, H, slice, concat, generic, tridiag, house, sparse,
        products of non-square factors …) that happens to be well conditioned"""
        kinds = ["dense", "sparse", "tridiag", "house", "sum", "kronsum", "T", "H", "slice", "concat", "generic", "prod",
                 "gram", "symslice", "scaled", "diag", "scalar", "eye", "perm", "tri"]
        self.G.kinds = set(kinds)
        for _ in range(12):
            e = self.G.op(n, n, self.rng.choice([1, 1, 2]))
            try:
                A = build.Builder().build(e)
                M = np.asarray(A.to_dense()).astype(np.complex128)
                if not np.all(np.isfinite(M)):
                    continue
                if abs(np.linalg.det(M)) > 0.3 and np.linalg.cond(M) < 200:
                    return e
            except Exception:  # noqa: BLE001
                continue
        return None

    def leaf_base(self, n):
        return self.leaf_pd(n) if self.basepd else self.leaf_general(n)

    # ---- composites
    def node(self, n, depth):
        rng = self.rng
        if depth <= 0 or rng.random() < 0.12:
            return self.leaf_struct(n) if rng.random() < 0.45 else self.leaf_base(n)
        k = rng.choice(["prod", "kron", "kron", "bdiag", "bdiag", "leaf", "ann"])
        d = depth - 1
        if k == "prod":
            m = rng.choice([2, 2, 3])
            return ["prod"] + [self.node(n, d) for _ in range(m)]
        if k == "kron":
            fs = self.factorisations(n)
            if not fs:
                return self.node(n, d)
            sizes = list(rng.choice(fs))
            rng.shuffle(sizes)
            return ["kron"] + [self.node(s, d) for s in sizes]
        if k == "bdiag":
            for _ in range(10):
                nb = rng.choice([1, 2, 2, 3])
                mults = [rng.choice([1, 1, 2, 3]) for _ in range(nb)]
                sizes = self.G.weighted_partition(n, mults)
                if sizes is not None:
                    return ["bdiag", [self.node(s, d) for s in sizes], mults]
            return self.node(n, d)
        if k == "ann":
            # declaration wrappers do not change the class: wrap a truly PSD structural node
            inner = DetGen.pd_tree(self, n, d)
            return ["ann", rng.choice(["PSD", "SelfAdjoint"]), inner]
        return self.leaf_struct(n) if rng.random() < 0.4 else self.leaf_base(n)

    def pd_tree(self, n, depth):
        """Hermitian positive definite structural tree (Kronecker / BlockDiag of PD members, positive Diagonal / ScalarMul)"""
        rng = self.rng
        dt = self.dt(n)
        if depth <= 0 or rng.random() < 0.3:
            k = rng.choice(["diag", "scalar", "eye", "dense"])
            if k == "diag":
                return ["diag", dt, [qj(self.mag()) for _ in range(n)]]
            if k == "scalar":
                return ["scalar", dt, qj(self.mag()), n]
            if k == "eye":
                return ["eye", dt, n]
            return ["ann", "PSD", ["dense", dt, n, n, mat_json(self.pd_mat(dt, n))]]
        if rng.random() < 0.5:
            fs = self.factorisations(n)
            if fs:
                sizes = list(rng.choice(fs))
                rng.shuffle(sizes)
                return ["kron"] + [self.pd_tree(s, depth - 1) for s in sizes]
        for _ in range(10):
            nb = rng.choice([1, 2, 2])
            mults = [rng.choice([1, 2, 3]) for _ in range(nb)]
            sizes = self.G.weighted_partition(n, mults)
            if sizes is not None:
                return ["bdiag", [self.pd_tree(s, depth - 1) for s in sizes], mults]
        return ["eye", dt, n]

    def factorisations(self, n):
        """multisets of >= 2 factor sizes with product n (sizes 1 allowed once)"""
        out = []

        def rec(rem, start, acc):
            if rem == 1 and len(acc) >= 2:
                out.append(tuple(acc))
            for f in range(start, rem + 1):
                if rem % f == 0 and f > 1:
                    rec(rem // f, f, acc + [f])
        rec(n, 2, [])
        if n > 1:
            out.append((1, n))
        out += [(n, 1)] if n > 1 and self.rng.random() < 0.2 else []
        return out

    def size(self):
        return self.rng.choice([1, 2, 2, 3, 3, 4, 4, 5, 6, 6, 8, 9, 12][: 9 + (4 if self.max_n >= 12 else 2 if self.max_n >= 8 else 0)])


def base_operators(A):
    """the operators on which slogdet(A, ...) reaches a base case (same walk as the dispatcher)"""
    from cola.ops import BlockDiag, Diagonal, Identity, Kronecker, Permutation, Product, ScalarMul, Triangular
    if isinstance(A, Product):
        if all(M.shape[0] == M.shape[1] for M in A.Ms):
            return [b for M in A.Ms for b in base_operators(M)]
        return [A]
    if isinstance(A, (Kronecker, BlockDiag)):
        return [b for M in A.Ms for b in base_operators(M)]
    if isinstance(A, (Identity, ScalarMul, Diagonal, Triangular, Permutation)):
        return []
    return [A]


def eig_well_conditioned(e, limit=1e3):
    """every base-case operator of the tree is diagonalisable with an eigenvector matrix of condition number < limit
    (Arnoldi + eig evaluates log through the eigendecomposition of the Hessenberg matrices; a defective or nearly
    defective leaf is outside 'well-conditioned inputs')"""
    try:
        A = build.Builder().build(e)
        for Bop in base_operators(A):
            M = np.asarray(Bop.to_dense()).astype(np.complex128)
            w, V = np.linalg.eig(M)
            if not np.all(np.isfinite(V)) or np.linalg.cond(V) > limit:
                return False
            if np.min(np.abs(w)) < 1e-3 * np.max(np.abs(w)):
                return False
        return True
    except Exception:  # noqa: BLE001
        return False


# ------------------------------------------------------------------ real side
def make_alg(name, n, tol=1e-12):
    from cola.linalg.algorithm_base import Auto
    from cola.linalg.decompositions.decompositions import LU, Arnoldi, Cholesky, Lanczos
    from cola.linalg.trace.diagonal_estimation import Exact
    if name == "auto":
        return Auto()
    if name == "lu":
        return LU()
    if name == "chol":
        return Cholesky()
    if name == "lanczos":
        return Lanczos(max_iters=max(n, 2), tol=tol)
    if name == "arnoldi":
        return Arnoldi(max_iters=max(n, 2), tol=tol)
    if name == "exact":
        return Exact()
    raise ValueError(name)


def err_class(ex):
    n = type(ex).__name__
    if n == "AssertionError":
        return "assert"
    if n == "LinAlgError":
        return "linalg-error"
    if n == "RecursionError":
        return "recursion"
    if n == "ZeroDivisionError":
        return "zero-division"
    return "error:" + n


def run_real(case):
    import cola
    try:
        A = build.Builder().build(case["op"])
        # `cap`: the Krylov cap of the call (a factor evaluated on its own keeps the cap of the whole tree's call, so that it is
        # the SAME computation as inside the tree; stream kernel-tie chooses it); `tol0`: the kernel with tol = 0
        n = int(case.get("cap") or A.shape[0])
        tol = 0.0 if case.get("tol0") else 1e-12
        kw = {}
        if case.get("la") is not None:
            kw["log_alg"] = make_alg(case["la"], n, tol)
        if case.get("ta") is not None:
            kw["trace_alg"] = make_alg(case["ta"], n)
        sign, logabs = cola.linalg.slogdet(A, **kw)
        kw2 = {}
        if case.get("la") is not None:
            kw2["log_alg"] = make_alg(case["la"], n, tol)
        if case.get("ta") is not None:
            kw2["trace_alg"] = make_alg(case["ta"], n)
        ld = cola.linalg.logdet(A, **kw2)
        s = complex(np.asarray(sign).reshape(()).astype(np.complex128))
        l_arr = np.asarray(logabs).reshape(())
        ld_arr = np.asarray(ld).reshape(())
        return {"sign": [s.real, s.imag], "logabs": float(np.real(l_arr)), "logabs_imag": float(np.imag(l_arr)),
                "logdet": float(np.real(ld_arr)), "opdtype": build.dtname(A.dtype),
                "signdtype": str(np.asarray(sign).dtype), "logdtype": str(l_arr.dtype)}
    except BaseException as ex:  # noqa: BLE001  (RecursionError is an Exception; keep KeyboardInterrupt out)
        if isinstance(ex, KeyboardInterrupt):
            raise
        return {"err": err_class(ex), "msg": str(ex)[:200]}


def exact_z(v):
    return complex(float(fr(v[0])), float(fr(v[1])))


def path_of(case, ans):
    la = case.get("la")
    return "krylov" if la in ("lanczos", "arnoldi") and ans.get("base") else "direct"


def leaf_dtypes(e):
    return [s[1] for s in gen.subexprs(e) if s[0] in ("dense", "tri", "sparse", "scalar", "eye", "diag", "tridiag", "perm", "house")]


def real_value(real):
    s = complex(*real["sign"])
    la = real["logabs"]
    if not (math.isfinite(s.real) and math.isfinite(s.imag) and math.isfinite(la)):
        return None
    try:
        return s * math.exp(la)
    except OverflowError:
        return None


def close(v, z, tol):
    if v is None:
        return False
    return abs(v - z) <= tol * max(abs(z), 1e-300)


def exact_logabs_phase(spec):
    """exact determinant (Lean, Gaussian rational as strings / ints) -> (log|det| as float, det/|det| as complex), computed
    from the EXACT rational without ever forming |det| in floating point (it may be 1e-1000); None for det = 0"""
    re, im = fr(spec[0]), fr(spec[1])
    if re == 0 and im == 0:
        return None
    m2 = re * re + im * im                                  # exact |det|^2
    ref = 0.5 * (math.log(m2.numerator) - math.log(m2.denominator))       # math.log takes arbitrarily large ints
    big = max(abs(re), abs(im))
    x, y = float(re / big), float(im / big)                 # exact ratios in [-1, 1]: correctly rounded
    h = math.hypot(x, y)
    return ref, complex(x / h, y / h)


def exact_z_safe(v):
    try:
        return exact_z(v)
    except OverflowError:
        return None


def classify_range(case, ans, real):
    """numerical-range stream: determinants far outside the floating point range (|log det| in the hundreds or thousands).
    `sign * exp(logabs)` cannot be formed; the property is checked in the form it is stated: logabs = log|det| and
    sign = det / |det|, both against the EXACT determinant of the Lean specification."""
    if "error" in ans:
        return "driver-error", ans["error"]
    code, spec = ans["code"], ans["spec"]
    if spec is None or not ans.get("wf", False):
        return "driver-error", "case outside the generator's contract (non-square or ill-formed)"
    if "err" in code:
        return "driver-error", f"range stream: model refuses ({code['err']})"
    if code["ok"] != spec:
        return "violation", "code model differs from the exact determinant on a structural tree"
    if "err" in real:
        return "violation", f"raised {real['err']}: {real.get('msg', '')}"
    lp = exact_logabs_phase(spec)
    if lp is None:
        return "driver-error", "range stream: singular case"
    ref, phase = lp
    dts = leaf_dtypes(case["op"])
    pr = "s" if any(prec(d) == "s" for d in dts) else "d"
    tol = TOL[("direct", pr)]
    s = complex(*real["sign"])
    la = real["logabs"]
    if not (math.isfinite(la) and math.isfinite(s.real) and math.isfinite(s.imag)):
        return "violation", f"(sign, logabs) = ({s!r}, {la!r}) is not finite; log|det| = {ref!r}, det/|det| = {phase!r}"
    if abs(la - ref) > tol * max(1.0, abs(ref)):
        return "violation", f"logabs = {la!r}, log|det| = {ref!r}"
    if abs(s - phase) > max(tol, UNIT_TOL[pr]) * 8:
        return "violation", f"sign = {s!r}, det/|det| = {phase!r}"
    if abs(abs(s) - 1) > max(UNIT_TOL[pr], 1e-9 if pr == "d" else 1e-4):
        return "violation", f"|sign| = {abs(s)!r} is not 1"
    if real["logdet"] != real["logabs"] and not (abs(real["logdet"] - real["logabs"]) <= 1e-12 * max(1.0, abs(real["logabs"]))):
        return "violation", f"logdet = {real['logdet']!r} differs from slogdet[1] = {real['logabs']!r}"
    if ref < 0 and not la < 0:
        return "violation", "|det| < 1 but logabs >= 0"
    return "ok", ""


def classify(case, ans, real):
    """-> (status, detail).  status in ok, ok-spec-only, domain, precondition, known, violation, stale-model, driver-error"""
    if "error" in ans:
        return "driver-error", ans["error"]
    code, spec = ans["code"], ans["spec"]
    if spec is None or not ans.get("wf", False):
        return "driver-error", "case outside the generator's contract (non-square or ill-formed)"
    z_spec = exact_z(spec)
    dts = leaf_dtypes(case["op"])
    pr = "s" if any(prec(d) == "s" for d in dts) else "d"
    path = path_of(case, ans)
    tol = TOL[(path, pr)]
    is_real_op = not any(is_cplx(d) for d in dts)
    # ---- errors of the real code
    if "err" in code and code["err"] in KERNEL_OUTCOMES:
        # outcomes of the Krylov kernel outside its contract: nan (modelled) resp. undetermined
        clause = KERNEL_OUTCOMES[code["err"]]
        v = None if "err" in real else real_value(real)
        if "err" in real and real["err"] == "assert" and ans.get("code_lenient", {}).get("err") == "assert":
            return "domain", "assert"   # a nan of an earlier member does not stop Python; a later member's assertion fires
        if "err" in real and real["err"] != "linalg-error":
            return "violation", f"raised {real['err']}: {real.get('msg', '')}"
        if v is not None and close(v, z_spec, tol):
            return "ok-spec-only", ""
        return "known", [clause]
    if "err" in real:
        if "err" in code and (code["err"] == real["err"] or (code["err"] == "inexact-sqrt" and real["err"] == "assert")):
            # (an irrational Cholesky factor of an earlier member hides a later member's assertion from the exact model)
            return "domain", code["err"]
        return "violation", f"raised {real['err']}: {real.get('msg', '')}"
    v = real_value(real)
    if "err" in code:
        if code["err"] == "inexact-sqrt":
            if close(v, z_spec, tol):
                return "ok-spec-only", ""
            return "violation", "Cholesky path: differs from the determinant"
        if close(v, z_spec, tol):
            return "stale-model", f"model predicts {code['err']}, real returns the determinant"
        return "violation", f"model predicts {code['err']}, real returned a value that is not the determinant"
    z_code = exact_z(code["ok"])
    cs = code["ok"] == spec
    rc = close(v, z_code, tol)
    rs = close(v, z_spec, tol)
    if rc and cs:
        # the remaining clauses of the property, on the real result alone
        s = complex(*real["sign"])
        ut = UNIT_TOL[pr] if path == "direct" else max(UNIT_TOL[pr], 1e-9)
        if abs(abs(s) - 1) > ut:
            return "violation", f"|sign| = {abs(s)!r} is not 1"
        if is_real_op:
            st = ut if path == "direct" else tol
            if abs(s - round(s.real)) > st or round(s.real) not in (1, -1):
                return "violation", f"real operator but sign = {s!r} is not +-1"
        if real["logdet"] != real["logabs"] and not (abs(real["logdet"] - real["logabs"]) <= 1e-12 * max(1.0, abs(real["logabs"]))):
            return "violation", f"logdet = {real['logdet']!r} differs from slogdet[1] = {real['logabs']!r}"
        if abs(real.get("logabs_imag", 0.0)) > 0:
            return "violation", "logabs is not real"
        if abs(z_spec) < 1 and not real["logabs"] < 0 and abs(abs(z_spec) - 1) > 10 * tol:
            return "violation", "|det| < 1 but logabs >= 0"
        lp = exact_logabs_phase(spec)
        if lp is not None and abs(real["logabs"] - lp[0]) > 2 * tol * max(1.0, abs(lp[0])):
            # the property as stated: logabs = log|det| (implied by the value comparison up to rounding; kept as its own test)
            return "violation", f"logabs = {real['logabs']!r}, log|det| = {lp[0]!r}"
        return "ok", ""
    if rc and not cs:
        if ans.get("pre"):
            return "precondition", ans["pre"]
        return "violation", "real = code model, but both differ from the determinant and no precondition / recorded finding covers it"
    if rs:
        return "stale-model", "real agrees with the determinant but not with the code model"
    return "violation", f"sign * exp(logabs) = {v!r}, determinant = {z_spec!r}"



# ------------------------------------------------------------------ round 5: factors, singular inputs, kernel tie
def rule_factors(e, k=1, shape=None):
    """the factors the structural rules of logdet.py split `slogdet(tree)` into -- the walk of the dispatcher, i.e. of the model's
    `Op.slogdetAt`: declaration wrappers do not change the class; Product only if every member is square; Kronecker exponent
    N / n_i; BlockDiag exponent = multiplicity.  -> [(sub-expression, exponent)] with det(tree) = prod det(sub) ** exponent; a
    sub-expression is a structural leaf or an operator handed to a base rule (WITH its declaration wrappers: the base rule
    reads the annotations)."""
    shape = shape or (lambda x: tuple(int(t) for t in build.Builder().build(x).shape))
    core = e
    while core[0] == "ann":
        core = core[2]
    if core[0] == "prod":
        ms = list(core[1:])
        if all(shape(m)[0] == shape(m)[1] for m in ms):
            return [f for m in ms for f in rule_factors(m, k, shape)]
        return [(e, k)]
    if core[0] == "kron":
        ms = list(core[1:])
        sizes = [shape(m)[1] for m in ms]
        if any(sz == 0 for sz in sizes):
            return [(e, k)]
        N = math.prod(sizes)
        return [f for m, sz in zip(ms, sizes) for f in rule_factors(m, k * (N // sz), shape)]
    if core[0] == "bdiag":
        return [f for m, mu in zip(core[1], core[2]) for f in rule_factors(m, k * int(mu), shape)]
    return [(e, k)]


def is_zero_spec(spec):
    return spec is not None and fr(spec[0]) == 0 and fr(spec[1]) == 0


def classify_singular(case, ans, real):
    """stream `singular` (det = 0).  code = the IEEE outcome instance of the rule model (`ieee`: fin | sing = (nan, -inf) | junk, or the
    exception the rules propagate) AND the exact `claimedDet`; spec = exact determinant (must be 0; `C07_singular_iff`: the model
    answers `sing` iff det = 0 on structural trees, `C07_singular_outcome` on all); real: no exception, logabs == -inf, sign nan."""
    if "error" in ans:
        return "driver-error", ans["error"]
    code, spec, ieee = ans["code"], ans["spec"], ans.get("ieee")
    if spec is None or not ans.get("wf", False) or ieee is None:
        return "driver-error", "singular stream: case outside the generator's contract"
    if not is_zero_spec(spec):
        return "driver-error", "singular stream: the generated tree is not singular"
    if ("err" in code) != ("err" in ieee) or ("err" in code and code["err"] != ieee["err"]):
        return "violation", f"the exact and the IEEE instance of the rule model disagree on the exception: {code} / {ieee} (C07_singular_same_errors)"
    if "err" in ieee:
        if "err" in real and (real["err"] == ieee["err"] or (ieee["err"] == "inexact-sqrt" and real["err"] in ("assert", "linalg-error"))):
            return "domain", ieee["err"]
        if "err" in real:
            return "violation", f"raised {real['err']}: {real.get('msg', '')}; the model predicts {ieee['err']}"
        return "stale-model", f"model predicts {ieee['err']}, real returned {real.get('sign')}, {real.get('logabs')}"
    if code["ok"] != spec:
        return "violation", "code model differs from the exact determinant on a singular tree"
    if ieee["ok"] != "sing":
        return "driver-error", f"singular stream: IEEE outcome {ieee['ok']} (generator keeps multiplicities and sizes positive)"
    if "err" in real:
        return "violation", f"raised {real['err']}: {real.get('msg', '')}; the rules answer (nan, -inf) on this singular operator"
    s, la, ld = real["sign"], real["logabs"], real["logdet"]
    if not (la == -math.inf):
        return "violation", f"det = 0 but logabs = {la!r} (log|det| = -inf)"
    if not (ld == -math.inf):
        return "violation", f"det = 0 but logdet = {ld!r}"
    if not (math.isnan(s[0]) or math.isnan(s[1])):
        return "stale-model", f"singular operator: the rules give sign = 0/0 = nan, real returned sign = {s!r}"
    return "ok", ""


def classify_tie(case, ans, real):
    """stream `kernel-tie`: real Lanczos kernel (tol = 0, cap >= n, exact trace; sign * exp(logabs) = exp(tr log A)) / driver `trlogK`
    (`code`, exp of the trace) / theorem-side kernel `Op.lanczosKernels eigh cap 0`: by `C07_lanczos_kernel_value` it answers and
    exp(answer) = det(den A) = `spec`, PROVIDED the hypotheses the driver decides on the case hold (`tie`)."""
    if "error" in ans:
        return "driver-error", ans["error"]
    t = ans.get("tie") or {}
    n = t.get("n", 0)
    if not (t.get("square") and t.get("herm") and t.get("nonsing") and n >= 1 and int(case.get("cap") or 0) >= n and case.get("tol0")):
        return "driver-error", f"kernel-tie: the hypotheses of C07_lanczos_kernel_value do not hold on the generated case ({t}, cap {case.get('cap')})"
    if ans.get("base") != ["dense"] and len(ans.get("base") or []) != 1:
        return "driver-error", "kernel-tie: the case is not a single base leaf"
    return classify(case, ans, real)



# ------------------------------------------------------------------ large-leaf stream (oracle only: no Lean driver behind it)
LARGE_SIGN_TOL = 1e-6
LARGE_LOGABS_TOL = 1e-6          # times n, absolute on logabs
# stopping tolerance of the Krylov runs of this stream.  NOT 1e-12: when the Krylov space closes (step = number of distinct eigenvalues) the
# residual norm of Arnoldi's single-pass Gram-Schmidt is ~1e-11 |A| at n ~ 100, ABOVE 1e-12 |h10|; the loop then does not see the closure,
# runs on to max_iters with normalised rounding noise and the result is NaN (observed on the unchanged tree: 2 of 18 Arnoldi cases; the
# floating-point `breakdown not detected` class recorded for C13 / C15).  1e-8 is far above that noise and far below the residual of a step
# that has not closed (>= 1e-3 here), so the runs stop exactly at the grade.
LARGE_KRYLOV_TOL = 1e-8


def large_leaf_matrix(n, gen_seed, alg):
    """A = Q diag(d) Q^T, Q orthogonal (QR of a seeded Gaussian matrix), d with 5-7 DISTINCT dyadic values in [1/4, 4], each with
    multiplicity >= 6 (so every identity probe has the same small Krylov grade and the runs close after a few steps: no loss of
    orthogonality, no batch-member breakdown), for Arnoldi 3-5 negative entries of one value.  log|det| = sum log|d| and
    sign = (-1)^(number of negative entries) are known exactly (det(Q D Q^T) = det D)."""
    g = np.random.default_rng(gen_seed)
    Q, _ = np.linalg.qr(g.standard_normal((n, n)))
    mags = [0.25, 0.375, 0.5, 0.75, 1.0, 1.5, 2.0, 3.0, 4.0]
    m = int(g.integers(5, 8))
    vals = [float(v) for v in g.choice(mags, size=m, replace=False)]
    kneg = int(g.integers(3, 6)) if alg == "arnoldi" else 0
    d = [v for v in vals for _ in range(6)] + [-float(g.choice(mags))] * kneg
    d += [float(g.choice(vals)) for _ in range(n - len(d))]
    d = np.array(d)[g.permutation(n)]
    A = (Q * d) @ Q.T
    A = (A + A.T) / 2
    return A, d, math.fsum(math.log(abs(x)) for x in d), (-1.0) ** kneg


def run_large_leaf(case):
    """-> (status, detail, record).  real: slogdet / logdet of a matmul-defined (no_dispatch) operator of size n > 100 through
    Lanczos | Arnoldi(max_iters = n, tol = LARGE_KRYLOV_TOL) and the EXACT trace: `exact_diag` probes with chunks of 100 identity columns,
    so n = 101, 130, 199, 257 exercise a short last chunk and n = 200 two full ones."""
    import cola
    from cola.ops import Dense
    n, alg = int(case["n"]), case["la"]
    A_np, d, ref, sgn = large_leaf_matrix(n, int(case["gen_seed"]), alg)
    rec = {"n": n, "la": alg, "expected_logabs": ref, "expected_sign": sgn, "distinct_eigenvalues": len(set(d.tolist()))}
    try:
        G = cola.fns.no_dispatch(Dense(A_np))
        if alg == "lanczos":
            G = cola.SelfAdjoint(G)
        sign, logabs = cola.linalg.slogdet(G, make_alg(alg, n, LARGE_KRYLOV_TOL), make_alg("exact", n))
        ld = cola.linalg.logdet(G, make_alg(alg, n, LARGE_KRYLOV_TOL), make_alg("exact", n))
    except BaseException as ex:  # noqa: BLE001
        if isinstance(ex, KeyboardInterrupt):
            raise
        return "violation", f"raised {err_class(ex)}: {str(ex)[:200]}", rec
    s = complex(np.asarray(sign).reshape(()).astype(np.complex128))
    la_, ld_ = float(np.real(np.asarray(logabs).reshape(()))), float(np.real(np.asarray(ld).reshape(())))
    rec.update({"sign": [s.real, s.imag], "logabs": la_, "logdet": ld_})
    if not (math.isfinite(la_) and math.isfinite(s.real) and math.isfinite(s.imag)):
        return "violation", f"(sign, logabs) = ({s!r}, {la_!r}) is not finite; log|det| = {ref!r}", rec
    if abs(la_ - ref) > LARGE_LOGABS_TOL * n:
        return "violation", f"logabs = {la_!r}, log|det| = sum log|d| = {ref!r} (n = {n})", rec
    if abs(s - sgn) > LARGE_SIGN_TOL:
        return "violation", f"sign = {s!r}, det/|det| = {sgn!r}", rec
    if abs(ld_ - la_) > 1e-9 * max(1.0, abs(la_)):
        return "violation", f"logdet = {ld_!r} differs from slogdet[1] = {la_!r}", rec
    return "ok", "", rec


def large_leaf_cases(rng, big):
    out = []
    for n in ([101, 130] if not big else [101, 130, 199, 200, 257]):
        for alg in ("lanczos", "arnoldi"):
            out.append({"op": None, "stream": "large-leaf", "n": n, "la": alg, "ta": "exact", "gen_seed": rng.randrange(1 << 30)})
    return out


# ------------------------------------------------------------------ shrinking
def square_subtrees(e):
    out = []
    for s in gen.subexprs(e):
        if s is e:
            continue
        out.append(s)
    return out


def run(ctx):
    gate, gate_err = None, None
    try:
        gate = dict(common.lean_gate(ctx, MODULE))
        checked = [MODULE]
        for mod in SUBMODULES:          # round 5: the property sub-files are gated like the main module (build, #print axioms audit, source scan)
            g = common.lean_gate(ctx, mod)
            gate["obligations"] += g["obligations"]
            gate["discharged"] += g["discharged"]
            gate["theorems"] = sorted(set(gate["theorems"]) | set(g["theorems"]))
            checked.append(mod)
        gate["modules"] = checked
        gate["checker_cmd"] = "cd lean && lake build " + " ".join(checked) + " && " + " && ".join(
            "lake env lean " + os.path.join("ColaVerif", *m.split(".")[1:]) + ".lean" for m in checked) + \
            (" && " + " && ".join("lake env leanchecker " + m for m in checked) if ctx.thorough else "") + "   # kernel re-check + #print axioms audit"
    except common.LeanGateError as ex:
        gate_err = str(ex)
    rng = random.Random(ctx.seed * 15485863 + 7)
    known = dict(PROVISIONAL_KNOWN)
    for k, v in common.known_clauses(ctx.prop).items():
        known[k] = v.get("what", "")
    stats = collections.Counter()
    dist = {k: collections.Counter() for k in ("log_alg", "trace_alg", "kinds", "base_kinds", "size", "det_class", "dtype", "stream", "singular_how")}
    distinct, samples = set(), []
    maxerr = collections.defaultdict(float)

    def evaluate(cases):
        # the model's answer depends on (tree, log_alg) only: `trace_alg` is handed to the Krylov kernel, whose exact
        # stand-in ignores it, and an omitted log_alg is Auto()
        uniq, keyof = {}, []
        for i, c in enumerate(cases):
            c["id"] = i
            k = common.canon([c["op"], c.get("la") or "auto"])
            if k not in uniq:
                uniq[k] = {"id": len(uniq), "op": c["op"], "la": c.get("la") or "auto", "ta": c.get("ta")}
            keyof.append(uniq[k]["id"])
        ans = oracle.run_driver(list(uniq.values()), driver=DRIVER)
        for u in uniq.values():
            a = ans.get(u["id"]) or {}
            if a.get("krylov_leaves"):
                bad = recheck_krylov_leaves(a)
                stats["krylov-leaves-rechecked"] += len(a["krylov_leaves"])
                if bad:
                    stats["krylov-leaf-recheck-failed"] += 1
                    if stats["krylov-leaf-recheck-failed"] <= 2:
                        common.violation(ctx, {"broken": "arithmetic of the driver's Krylov kernel (trlogK): " + "; ".join(bad)[:600],
                                               "case": {"op": u["op"], "la": u["la"]}}, no_input=True)
        out = []
        for c in cases:
            a = ans.get(keyof[c["id"]], {"error": "no answer"})
            real = run_real(c)
            st, det = CLASSIFIERS.get(c.get("stream"), classify)(c, a, real)
            if st == "known":
                st, det = audit_factors(c, a, real, det)
            out.append((c, a, real, st, det))
        return out

    CLASSIFIERS = {"range": classify_range, "singular": classify_singular, "kernel-tie": classify_tie}

    def audit_factors(c, a, real, clauses):
        """round 5 (ix): PER-FACTOR excuse.  `classify` answered `known`: somewhere in the tree a base leaf meets a clause predicate of
        the driver and the real result is nan / LinAlgError / off the determinant.  The excuse covers only THAT factor: the tree is
        split into the factors of the structural rules, each factor is evaluated on its own (same log_alg / trace_alg, the Krylov cap of
        the whole call -- the same computation as inside the tree) and classified by the normal three-way comparison.  A factor is
        excused iff the driver attributes a clause to it (code model err in KERNEL_OUTCOMES on the factor alone); every other factor
        must pass; at least one factor must be excused."""
        try:
            facs = rule_factors(c["op"])
        except Exception as ex:  # noqa: BLE001
            return "violation", f"known outcome but the tree could not be split into factors: {ex!r}"
        merged = {}
        for f, k in facs:
            key = common.canon(f)
            merged.setdefault(key, [f, 0])
            merged[key][1] += k
        fl = list(merged.values())
        if len(fl) == 1 and common.canon(fl[0][0]) == common.canon(c["op"]):
            stats["known-single-factor"] += 1
            return "known", clauses
        cap = int(c.get("cap") or a.get("rows") or 0) or None
        extra = {"tol0": True} if c.get("tol0") else {}
        subs = [dict({"op": f, "la": c.get("la"), "ta": c.get("ta"), "stream": str(c.get("stream", "?")) + "/factor", "cap": cap}, **extra) for f, _ in fl]
        res = evaluate(subs)
        excused, ex_clauses, expected = 0, [], complex(1.0)
        for (sc, sa, sr, sst, sdet), (f, k) in zip(res, fl):
            code_err = sa.get("code", {}).get("err") if "error" not in sa else None
            if code_err in KERNEL_OUTCOMES and sst in ("known", "ok-spec-only"):
                excused += 1
                stats["factors-excused"] += 1
                ex_clauses.append(KERNEL_OUTCOMES[code_err])
                v = None if "err" in sr else real_value(sr)
                expected = None if (v is None or expected is None) else expected * v ** k
            elif sst in ("ok", "ok-spec-only", "domain", "precondition"):
                stats["factors-compared"] += 1
                if expected is not None and sa.get("spec") is not None and "err" not in sr:
                    expected = expected * exact_z(sa["spec"]) ** k
                else:
                    expected = None
            else:
                stats["factors-not-excused"] += 1
                return "violation", (f"factor NOT covered by the recorded clause {clauses}: status {sst} ({sdet}) on the factor evaluated alone; "
                                     f"factor_case = {json.dumps(strip(sc))[:1500]}; real = {json.dumps(sr)[:300]}")
        if excused == 0:
            return "violation", f"known outcome {clauses} but no factor of the tree meets the clause predicate when evaluated alone"
        # observation only (not a verdict): the whole result is the rules' combination of the factors' own results
        v = None if "err" in real else real_value(real)
        if v is not None and expected is not None and math.isfinite(abs(expected)):
            tot = sum(k for _, k in fl)
            ok = abs(v - expected) <= 1e-6 * (1 + tot) * max(abs(expected), 1e-300)
            stats["recombination-consistent" if ok else "recombination-off"] += 1
            if not ok:
                ctx.notes.append(f"recombination: whole = {v!r}, product of the factors' own results = {expected!r}")
        return "known", sorted(set(ex_clauses))

    def shrink(case):
        cur = case
        for _ in range(12):
            cands = [dict(cur, op=s) for s in square_subtrees(cur["op"])]
            if cur["op"][0] == "diag" and len(cur["op"][2]) > 4:
                # a long Diagonal (numerical-range stream): halve it while the failure persists
                d = cur["op"][2]
                cands += [dict(cur, op=["diag", cur["op"][1], d[:len(d) // 2]]), dict(cur, op=["diag", cur["op"][1], d[len(d) // 2:]])]
            cands = [c for c in cands if len(json.dumps(c["op"])) < len(json.dumps(cur["op"]))]
            if not cands:
                break
            nxt = None
            for (c, a, r, st, det) in evaluate(cands):
                if st == "violation":
                    if nxt is None or len(json.dumps(c["op"])) < len(json.dumps(nxt["op"])):
                        nxt = c
            if nxt is None:
                break
            cur = nxt
        return cur

    def account(c, a, real, st, det):
        stats[st] += 1
        stats["evaluations"] += 1
        dist["log_alg"][str(c.get("la"))] += 1
        dist["trace_alg"][str(c.get("ta"))] += 1
        dist["stream"][c.get("stream", "?")] += 1
        if "error" not in a:
            dist["size"][str(a.get("rows"))] += 1
            for k in set(gen.kinds_of(c["op"])):
                dist["kinds"][k] += 1
            for k in set(a.get("base", [])):
                dist["base_kinds"][k] += 1
            dist["dtype"][a.get("dtype", "?")] += 1
            if a.get("spec") is not None and c.get("stream") == "range":
                lp = exact_logabs_phase(a["spec"])
                if lp is not None:
                    dist["det_class"]["out-of-range " + ("|det|<1e-300" if lp[0] < 0 else "|det|>1e300") if abs(lp[0]) > 690 else
                                      "out-of-f32-range " + ("small" if lp[0] < 0 else "large")] += 1
                    maxerr["range/abs-logabs"] = max(maxerr["range/abs-logabs"], abs(real.get("logabs", math.nan) - lp[0])
                                                     if st == "ok" else 0.0)
            elif a.get("spec") is not None:
                z = exact_z(a["spec"])
                cls = ("|det|<1" if abs(z) < 1 else "|det|=1" if abs(z) == 1 else "|det|>1") + " " + \
                      ("complex-phase" if z.imag != 0 else "negative" if z.real < 0 else "positive")
                dist["det_class"][cls] += 1
        if st in ("ok", "ok-spec-only", "known", "precondition", "domain"):
            nontrivial = len(gen.subexprs(c["op"])) > 1 or c["op"][0] not in ("eye",)
            if nontrivial:
                distinct.add(common.canon([c["op"], c.get("la"), c.get("ta")]))
        if c.get("stream") == "singular":
            dist["singular_how"][str(c.get("how")) + " -> " + (str((a.get("ieee") or {}).get("ok") or (a.get("ieee") or {}).get("err")))] += 1
        if st == "ok" and c.get("stream") == "kernel-tie":
            stats["kernel-tie-three-way"] += 1
        if st == "ok" and "ok" in a.get("code", {}) and c.get("stream") not in ("range", "singular"):
            v = real_value(real)
            z = exact_z(a["spec"])
            key = path_of(c, a) + "/" + ("s" if any(prec(d) == "s" for d in leaf_dtypes(c["op"])) else "d")
            maxerr[key] = max(maxerr[key], abs(v - z) / abs(z))
            if len(samples) < 4 and 3 <= len(gen.subexprs(c["op"])) and len(json.dumps(c["op"])) < 600 and c.get("la") not in (None,):
                samples.append({"op": c["op"], "log_alg": c.get("la"), "trace_alg": c.get("ta"), "real": real,
                                "model_claimedDet": a["code"]["ok"], "spec_det": a["spec"]})
        if st == "known":
            for cl in det:
                if cl in known:
                    common.known_finding(ctx, cl, known[cl])
                else:
                    common.violation(ctx, {"case": strip(c), "model": a.get("code"), "spec": a.get("spec"), "real": real, "clause": cl,
                                           "why": "real = code model differs from the determinant; clause not recorded"})
        elif st == "violation" and len(ctx.violations) >= MAX_VIOLATION_LINES:
            stats["violations-not-listed"] += 1
        elif st == "violation":
            try:
                small = shrink(c)
            except Exception:  # noqa: BLE001
                small = c
            (c2, a2, r2, s2, d2) = evaluate([dict(small)])[0]
            if s2 != "violation":
                c2, a2, r2, d2 = c, a, real, det
            common.violation(ctx, {"case": strip(c2), "expected_det": a2.get("spec"), "model": a2.get("code"), "real": r2,
                                   "detail": d2, "original_case": strip(c),
                                   "call": "cola.linalg.slogdet(build(case.op), log_alg=case.la, trace_alg=case.ta)"})
        elif st == "stale-model" and len(ctx.violations) >= MAX_VIOLATION_LINES:
            stats["violations-not-listed"] += 1
        elif st == "stale-model":
            common.violation(ctx, {"case": strip(c), "model": a.get("code"), "spec": a.get("spec"), "real": real, "detail": det,
                                   "broken": "correspondence between logdet.py and the Lean rule model (Model/LogDet.lean, Model/LogDetSing.lean)"}, no_input=True)
        elif st == "driver-error":
            stats["driver-error"] += 0
            ctx.notes.append(f"driver: {det}")

    def strip(c):
        d = {k: c.get(k) for k in ("op", "la", "ta", "stream")}
        d.update({k: c[k] for k in ("cap", "tol0") if c.get(k)})
        return d

    large = {"ok": 0, "violation": 0, "records": [], "max_abs_logabs_error": 0.0, "max_sign_error": 0.0}

    def do_large(c):
        st, det, rec = run_large_leaf(c)
        stats["evaluations"] += 1
        stats[st] += 1
        dist["stream"]["large-leaf"] += 1
        dist["log_alg"][str(c.get("la"))] += 1
        dist["trace_alg"]["exact"] += 1
        large[st] = large.get(st, 0) + 1
        large["records"].append(rec)
        if st == "ok":
            distinct.add(common.canon(["large-leaf", c["n"], c["la"], c["gen_seed"]]))
            large["max_abs_logabs_error"] = max(large["max_abs_logabs_error"], abs(rec["logabs"] - rec["expected_logabs"]))
            large["max_sign_error"] = max(large["max_sign_error"], abs(complex(*rec["sign"]) - rec["expected_sign"]))
        else:
            common.violation(ctx, {"case": {k: c.get(k) for k in ("stream", "n", "la", "ta", "gen_seed")}, "detail": det, "real": rec,
                                   "expected_logabs": rec["expected_logabs"], "expected_sign": rec["expected_sign"],
                                   "call": "A, d, *_ = props.c07.large_leaf_matrix(n, gen_seed, la); cola.linalg.slogdet(no_dispatch(Dense(A)) [SelfAdjoint for lanczos], "
                                           "Lanczos|Arnoldi(max_iters=n, tol=1e-8), Exact())"})
        return st, det, rec

    if ctx.replay and (json.load(open(ctx.replay)).get("case") or {}).get("stream") == "large-leaf":
        c = json.load(open(ctx.replay))["case"]
        st, det, rec = do_large(c)
        print(json.dumps({"replayed": c, "status": st, "detail": det, "real": rec})[:3000])
    elif ctx.replay:
        rp = json.load(open(ctx.replay))
        c = rp.get("case") or rp.get("original_case")
        res = evaluate([dict(c)])
        for r in res:
            account(*r)
        print(json.dumps({"replayed": strip(c), "status": res[0][3], "detail": res[0][4], "real": res[0][2],
                          "model": res[0][1].get("code"), "spec": res[0][1].get("spec")})[:3000])
    else:
        cases = build_cases(ctx, rng)
        lcases = large_leaf_cases(rng, ctx.thorough)
        for i in range(0, len(cases), 400):
            for r in evaluate(cases[i:i + 400]):
                account(*r)
        for c in lcases:
            do_large(c)
    if stats["driver-error"]:
        common.violation(ctx, {"broken": "DriverC07 answered with errors", "notes": ctx.notes[:5]}, no_input=True)
    if gate_err is not None and not ctx.violations:
        common.violation(ctx, {"broken": f"Lean gate of {MODULE}", "detail": gate_err[-3000:]}, no_input=True)
    cov = {
        "evaluations": stats["evaluations"], "distinct_nontrivial": len(distinct), "outcomes": dict(stats),
        "log_alg": dict(dist["log_alg"]), "trace_alg": dict(dist["trace_alg"]), "streams": dict(dist["stream"]),
        "kinds_in_trees": dict(dist["kinds"]), "base_case_kinds": dict(dist["base_kinds"]), "sizes": dict(dist["size"]),
        "determinant_classes": dict(dist["det_class"]), "dtypes": dict(dist["dtype"]),
        "max_relative_error_observed": {k: float(v) for k, v in maxerr.items()},
        "tolerances": {f"{k[0]}/{k[1]}": v for k, v in TOL.items()},
        "samples": samples,
        "rule": "random non-singular operator trees (Product of square factors, Kronecker with unequal factor sizes, BlockDiag with "
                "multiplicities, Diagonal, ScalarMul of every size, Identity, Triangular, Permutation, dense general / PSD, and gen.py "
                "trees of all other kinds as base-case leaves) x (log_alg, trace_alg); distinct = canonical JSON of (tree, log_alg, "
                "trace_alg); non-trivial = not a bare Identity; stream `range`: Diagonal (400-520 entries of magnitude 0.1-0.3 or 5-30 in double, "
                "60-90 in single precision), the same inside Kronecker(., I_r) / BlockDiag with multiplicities / under a PSD declaration, ScalarMul of "
                "that size, Triangular 60-80 (single precision): |log det| is 90 ... 1500, the determinant itself is not a floating point number; stream `singular`: the direct generator's "
                "trees (no exotic leaves) with ONE leaf made singular (zero Diagonal / Triangular-diagonal entry, ScalarMul 0, zero row / column of an LU leaf, zero row+column of a PSD leaf) + 7 fixed; "
                "stream `kernel-tie`: SelfAdjoint(dense Hermitian PD / indefinite n <= 6), Lanczos(cap in n..n+3, tol = 0), Exact(); stream `large-leaf`: no_dispatch(Dense(Q diag(d) Q^T)), "
                "n in {101, 130} (thorough + 199, 200, 257), d dyadic with few distinct values, Lanczos (SPD) and Arnoldi (3-5 negative entries) with the exact trace",
        "compare": "code model (exact claimedDet over Q[i]) == exact determinant of den; real sign*exp(logabs) within the relative "
                   "tolerance of either; |sign| = 1; sign = +-1 for real operators; logdet == slogdet[1]; |det| < 1 => logabs < 0; "
                   "logabs == log|det| (2 x the same tolerance, absolute on the logarithm, scaled by max(1, |log|det||)); stream `range`: "
                   "logabs == log|det| and sign == det/|det| against the EXACT determinant (big-integer logarithm), finite results required",
        "provisional_known": PROVISIONAL_KNOWN,
        "large_leaf": {k: v for k, v in large.items()},
        "round5": {
            "per_factor_excuse": {k: stats[k] for k in ("known", "known-single-factor", "factors-excused", "factors-compared", "factors-not-excused",
                                                        "recombination-consistent", "recombination-off")},
            "per_factor_rule": "a `known` outcome excuses only the factors (split by the structural rules, `rule_factors`) on which the driver's clause predicate "
                               "holds when the factor is evaluated alone with the options of the whole call; every other factor goes through the normal comparison "
                               "(factors-compared); a factor that fails is a violation although the tree contains an excused leaf",
            "singular": {"outcomes_by_poisoned_leaf": dict(dist["singular_how"]),
                         "compare": "det = 0: real raises nothing, logabs == -inf, logdet == -inf, sign is nan == the model's IEEE outcome `sing` (Model/LogDetSing.lean; "
                                    "C07_singular_structural / _iff / _outcome); Cholesky rule: LinAlgError == the kernel's exception (domain); exact claimedDet == det == 0"},
            "kernel_tie": {"three_way_ok": stats["kernel-tie-three-way"],
                           "compare": "Lanczos(max_iters = cap >= n, tol = 0), Exact(), one Hermitian non-singular base leaf: real exp(tr log A) within the Krylov tolerance of "
                                      "the driver's trlogK value, trlogK == det(den A) EXACTLY, det(den A) = exp of every answer of the theorem-side kernel Op.lanczosKernels "
                                      "(C07_lanczos_kernel_value; its hypotheses square / Hermitian / det != 0 / 1 <= n <= cap are decided by the driver on the case)"},
        },
    }
    common.write_evidence(ctx, gate, cov, assumptions=[
        "numerical kernels: LAPACK cholesky and scipy lu are parameters with contracts (L L^H = A, L lower; A = L[p] U), hypotheses of the theorems, "
        "re-checked by the exact kernels of the driver on every call",
        "Lanczos / Arnoldi base rule: a contract on its PARTS, not on its result. Theorems C07_slogdet_krylov / C07_exp_trace_log / C07_krylov_columns + "
        "KrylovCompose.{lanczos,arnoldi}_unary_exact reduce it to (i) the loop models of C14 / C15 run to Krylov exhaustion (proved invariance A Q = Q T), "
        "(ii) LAPACK's small eigendecomposition T P = P diag(theta), P invertible (CONTRACT), (iii) A diagonalisable and non-singular (meaning of log A); "
        "round 3: for LANCZOS the reduction is one theorem about a kernel DEFINED from the loop model (Op.lanczosKernels: Lanczos.lanczosExact on every identity "
        "probe, eigh of T, Q P (log theta . P^H e1), exact trace): C07_lanczos_kernel_parts proves TrlogOfParts for it, C07_slogdet_lanczos concludes for every tree, "
        "what remains ASSUMED there is EighContract (LAPACK eigh of the small tridiagonal matrix; satisfiable: eighSpectral_contract) -- (ii) -- while (i) and (iii) are "
        "proved (exhaustion from C14_grade for tol = 0 and cap >= n, else a checked condition of the kernel; Hermitian non-singular => diagonalisable off 0); witness "
        "C07_lanczos_kernel_witness ([[2,1],[1,2]], det 3).  For ARNOLDI TrlogOfParts stays a hypothesis (witnessed only by diagLogKernels_parts): assumed are (i) "
        "noClip / stopExact of C15, (ii) eig + solve of the small Hessenberg matrix, (iii) diagonalisability",
        "the executable model evaluates the Krylov path exactly on the monomials (power sums -> determinant); the driver reports, per Krylov base leaf, matrix, power "
        "sums and reconstructed determinant, and the harness RE-CHECKS them independently in exact Python Fractions (tr A^k by matrix powers, Newton's identities, "
        "Gaussian-elimination determinant: recheck_krylov_leaves; outcome krylov-leaves-rechecked); the transcendental step exp(tr log) on "
        "the real floats is compared by tolerance only (Krylov streams: 1e-6 double / 5e-3 single)",
        "stream `range`: IEEE range behaviour (under/overflow of a product) is outside the exact model; the stream compares the real logabs / sign with the "
        "exact determinant's logarithm / phase, so a rule that forms the product before the logarithm is seen although code model == spec there",
        "Triangular operators are triangular (constructor promise); declared annotations are true",
        "stream `large-leaf` is ORACLE ONLY (no Lean model behind it: the entries of Q diag(d) Q^T are floats, the exact driver is not used): matmul-defined operators of size "
        "101 / 130 (thorough: 199, 200, 257) with 5-8 distinct dyadic eigenvalues of multiplicity >= 6 (Krylov grade <= 8 for every identity probe), slogdet through "
        "Lanczos | Arnoldi(max_iters = n, tol = 1e-8) and Exact(): the trace of log A goes through exact_diag's chunks of 100 probes (a short last chunk); compared: "
        "|logabs - sum log|d|| <= 1e-6 n, |sign - (-1)^(#negative)| <= 1e-6, logdet == slogdet[1]; full-length runs (n distinct eigenvalues, max_iters = n) are NOT "
        "claimed: Arnoldi's single-pass Gram-Schmidt loses orthogonality there (observed: NaN at n = 100, flaky at n = 101 with a symmetric indefinite matrix of 100 distinct eigenvalues); "
        "tol = 1e-12 is NOT used at this size: the residual at Krylov closure is ~1e-11 |A| for Arnoldi, the loop misses the closure and returns NaN (observed 2 / 18, unchanged tree)",
        "round 5, singular inputs: the IEEE behaviour 0/0 = nan, log 0 = -inf, nan * x = nan, -inf + finite = -inf, nan ** k = nan and -inf * k = -inf for k >= 1 is ABSTRACTED by the "
        "three-valued instance ieeeOps (fin | sing | junk) of the same rule recursion, not derived from a float model; it is tied to the real code by the stream `singular`; the sign of a "
        "singular operator is nan in cola (NumPy's slogdet returns 0): recorded as what the code does, the property defines no phase for det = 0; the Krylov path on singular operators "
        "(real: (nan, nan)) is modelled as `junk` and not compared",
        "round 5, kernel tie: Op.lanczosKernels (theorem side) is not executable (Complex.log, eigh); the tie to the driver's trlogK is through the VALUE: the theorem gives exp(answer) = det(den A) "
        "under hypotheses the driver decides exactly, the driver's kernel value is compared exactly with det(den A), the real kernel by tolerance -- no Lean lemma relates the two recurrences step by step",
        "IEEE rounding is outside the model: the real result is compared with relative tolerance " + json.dumps({f"{k[0]}/{k[1]}": v for k, v in TOL.items()}),
    ])
    print(json.dumps({"outcomes": dict(stats), "distinct_nontrivial": len(distinct), "gate": (gate or {}).get("obligations"),
                      "maxerr": {k: float(v) for k, v in maxerr.items()}}))


def build_cases(ctx, rng):
    big = ctx.thorough
    cases = []
    n_direct, n_chol, n_lan, n_arn, n_pre = (60, 35, 30, 30, 12) if not big else (1000, 500, 400, 400, 60)
    scale = float(os.environ.get("C07_SCALE", "1"))   # testing aid only
    n_direct, n_chol, n_lan, n_arn, n_pre = [max(1, int(x * scale)) for x in (n_direct, n_chol, n_lan, n_arn, n_pre)]
    max_n = 8 if not big else 12
    # -- direct stream: any tree, LA in {omitted, auto, lu} x all TA
    G = DetGen(rng, basepd=False, max_n=max_n)
    for _ in range(n_direct):
        t = G.node(G.size(), rng.choice([0, 1, 1, 2, 2, 3]))
        for la, ta in itertools.product([None, "auto", "lu"], TAS):
            cases.append({"op": t, "la": la, "ta": ta, "stream": "direct"})
    # -- Cholesky stream: every base leaf declared PSD with a rational Cholesky factor; a few undeclared leaves (assertion)
    G = DetGen(rng, basepd=True, max_n=max_n, undeclared_p=0.04)
    for _ in range(n_chol):
        t = G.node(G.size(), rng.choice([0, 1, 1, 2, 2]))
        for la, ta in itertools.product(["chol", "auto", None], TAS):
            cases.append({"op": t, "la": la, "ta": ta, "stream": "cholesky"})
    # -- Lanczos stream: base leaves self-adjoint; a fraction indefinite (sign -1 through the complex logarithm), a few undeclared (assertion)
    G = DetGen(rng, basepd=True, max_n=min(max_n, 8), herm_indef_p=0.08, undeclared_p=0.03, dtypes=["f64", "f64", "c128", "c128", "f32"])
    for _ in range(n_lan):
        t = G.node(G.size(), rng.choice([0, 1, 1, 2]))
        for ta in TAS:
            cases.append({"op": t, "la": "lanczos", "ta": ta, "stream": "lanczos"})
    # -- Arnoldi stream: general well-conditioned trees
    G = DetGen(rng, basepd=False, max_n=min(max_n, 8), dtypes=["f64", "f64", "c128", "c128", "f32"])
    for _ in range(n_arn):
        for _try in range(40):
            t = G.node(G.size(), rng.choice([0, 1, 1, 2]))
            if eig_well_conditioned(t):
                break
        else:
            t = ["diag", "f64", [2, -1]]
        for ta in TAS:
            cases.append({"op": t, "la": "arnoldi", "ta": ta, "stream": "arnoldi"})
    # regression: complex64 operator with an eigenvalue -1 on the branch cut of the logarithm (repaired in /repo 91895db: the former
    # clause krylov-cut-single-precision), and the same matrix in double precision -- both must pass the normal comparison
    Mw = [[0, 0, 0, 1], [[2, -14], [-2, -11], [-9, -5], 0], [[-10, -10], [-9, -5], [-10, 5], 0], [[-15, -8], [-14, -2], [-10, 10], 0]]
    for dtw in ("c64", "c128"):
        cases.append({"op": ["dense", dtw, 4, 4, Mw], "la": "arnoldi", "ta": None, "stream": "arnoldi"})
    # -- precondition tie: Triangular operators that are not triangular (the Triangular rule fires: real = code != det)
    G = DetGen(rng, basepd=False, max_n=4, exotic=False, dtypes=["f64", "c128"])
    for _ in range(n_pre):
        n = rng.choice([2, 3])
        dt = G.dt()
        M = G.general_mat(dt, n)
        if all(M[i][j] == (0, 0) for i in range(n) for j in range(n) if j > i) or any(M[i][i] == (0, 0) for i in range(n)):
            continue
        t = ["tri", dt, n, n, True, mat_json(M)]
        if rng.random() < 0.5:
            t = ["kron", t, G.leaf_struct(rng.choice([1, 2]))]
        cases.append({"op": t, "la": rng.choice([None, "lu"]), "ta": None, "stream": "precondition"})
    cases += range_cases(rng, 10 if not big else 80)
    cases += singular_cases(rng, max(1, int((40 if not big else 500) * scale)), max_n)
    cases += tie_cases(rng, max(1, int((24 if not big else 300) * scale)))
    return cases


def poison(G, rng, e):
    """make ONE leaf of a non-singular tree singular -> (tree, what) or None: a zero entry in a Diagonal / on the diagonal of a Triangular,
    ScalarMul 0, a zero row or column in a dense LU leaf (the zero pivot of U is then EXACT in floating point), a zero row AND column in a
    dense leaf declared PSD (still Hermitian positive SEMI-definite: Cholesky raises)"""
    leaves = []

    def walk(x, path, under_psd):
        t = x[0]
        if t == "ann":
            walk(x[2], path + [2], under_psd or x[1] == "PSD")
        elif t in ("prod", "kron"):
            for i in range(1, len(x)):
                walk(x[i], path + [i], False)
        elif t == "bdiag":
            for i in range(len(x[1])):
                walk(x[1][i], path + [1, i], False)
        elif t in ("diag", "scalar", "tri", "dense"):
            leaves.append((path, t, under_psd))
    walk(e, [], False)
    if not leaves:
        return None
    path, t, under_psd = rng.choice(leaves)
    out = json.loads(json.dumps(e))
    x = out
    for i in path:
        x = x[i]
    if t == "diag":
        x[2][rng.randrange(len(x[2]))] = 0
    elif t == "scalar":
        x[2] = 0
    elif t == "tri":
        j = rng.randrange(x[2])
        x[5][j][j] = 0
    else:
        n = x[2]
        j = rng.randrange(n)
        how = "both" if under_psd else rng.choice(["row", "col"])
        for i in range(n):
            if how in ("row", "both"):
                x[4][j][i] = 0
            if how in ("col", "both"):
                x[4][i][j] = 0
        t = "dense/" + how + ("/psd" if under_psd else "")
    return out, t


def singular_cases(rng, count, max_n):
    """stream `singular` (round 5, viii): det = 0 reached through every structural rule (Diagonal, ScalarMul, Triangular inside Product /
    Kronecker / BlockDiag with multiplicities / declaration wrappers), through the LU rule (zero row / column) and the Cholesky rule"""
    out = []
    G = DetGen(rng, basepd=False, exotic=False, max_n=min(max_n, 8), dtypes=["f64", "f64", "c128", "f32", "c64"])
    fixed = [["diag", "f64", [2, 0, 3]], ["scalar", "c128", 0, 3], ["tri", "f64", 2, 2, True, [[1, 0], [2, 0]]],
             ["kron", ["diag", "f64", [2, 0, 3]], ["perm", "f64", [1, 0]]],
             ["bdiag", [["diag", "f32", [0, 1]], ["dense", "f64", 2, 2, [[1, 2], [3, 4]]]], [2, 1]],
             ["prod", ["diag", "f64", [2, -1]], ["dense", "f64", 2, 2, [[1, 2], [0, 0]]]],
             ["ann", "PSD", ["dense", "f64", 2, 2, [[1, 0], [0, 0]]]]]
    for t in fixed:
        for la in (None, "lu"):
            out.append({"op": t, "la": la, "ta": None, "stream": "singular", "how": "fixed"})
    tries = 0
    while len(out) < len(fixed) * 2 + count and tries < 20 * count:
        tries += 1
        t = G.node(G.size(), rng.choice([0, 1, 1, 2, 2]))
        pz = poison(G, rng, t)
        if pz is None:
            continue
        out.append({"op": pz[0], "la": rng.choice([None, None, "auto", "lu"]), "ta": rng.choice(TAS), "stream": "singular", "how": pz[1]})
    return out


def tie_cases(rng, count):
    """stream `kernel-tie` (round 5, i): ONE base leaf = a Hermitian non-singular dense matrix declared SelfAdjoint / PSD, log_alg =
    Lanczos(max_iters = cap >= n, tol = 0), trace_alg = Exact(): the inputs of `C07_lanczos_kernel_answers` / `_value`"""
    out = []
    G = DetGen(rng, basepd=True, exotic=False, max_n=6, dtypes=["f64", "c128"])
    for _ in range(count):
        n = rng.choice([1, 2, 2, 3, 3, 4, 5, 6])
        dt = G.dt(n)
        M = G.herm_indef_mat(dt, n) if rng.random() < 0.3 else G.pd_mat(dt, n)
        if G.cond_of(M) > 1e4:
            M = G.pd_mat(dt, n)
        t = ["ann", "SelfAdjoint", ["dense", dt, n, n, mat_json(M)]]
        out.append({"op": t, "la": "lanczos", "ta": "exact", "stream": "kernel-tie", "tol0": True, "cap": max(2, n + rng.choice([0, 0, 1, 3]))})
    return out


def range_cases(rng, count):
    """numerical-range stream: structural trees whose determinant leaves the floating point range of their dtype although
    every entry is harmless (|log det| > 709 in double precision: ~400 entries of size 0.1 or 10; > 87 in single precision:
    ~60 entries).  The rules must work with sums of logarithms; the product of the entries under- / overflows."""
    out = []

    def entries(dt, n, small):
        mags = [Fraction(1, 10), Fraction(1, 8), Fraction(1, 4), Fraction(3, 10)] if small else [Fraction(10), Fraction(8), Fraction(5), Fraction(30)]
        units = [(1, 0), (-1, 0), (0, 1), (0, -1)] if is_cplx(dt) else [(1, 0), (1, 0), (-1, 0)]
        es = []
        for _ in range(n):
            m, u = rng.choice(mags), rng.choice(units)
            es.append(zj(m * u[0], m * u[1]))
        return es

    # (no long Product: the Lean SPECIFICATION `den` of a Product of two n x n members costs n^4 exact operations)
    kinds = ["diag", "diag", "kron", "bdiag", "scalar", "tri", "annpsd"]
    for i in range(count):
        dt = rng.choice(["f64", "f64", "c128", "f32", "c64"])
        single = prec(dt) == "s"
        small = rng.random() < 0.6
        long_n = rng.randint(60, 90) if single else rng.randint(400, 520)
        kind = kinds[i % 7] if i < 7 else rng.choice(kinds)
        if kind == "diag":
            t = ["diag", dt, entries(dt, long_n, small)]
        elif kind == "kron":
            r = rng.choice([4, 5, 8])
            t = ["kron", ["diag", dt, entries(dt, max(2, long_n // r), small)], ["eye", dt, r]]
            if rng.random() < 0.5:
                t = ["kron", t[2], t[1]]
        elif kind == "bdiag":
            m = rng.choice([2, 3, 4])
            t = ["bdiag", [["diag", dt, entries(dt, max(2, long_n // m), small)], ["scalar", dt, zj(Fraction(1, 2)), 2]], [m, 1]]
        elif kind == "scalar":
            c = rng.choice([Fraction(1, 10), Fraction(1, 8)] if small else [Fraction(10), Fraction(8)])
            u = rng.choice([(1, 0), (-1, 0), (0, 1)] if is_cplx(dt) else [(1, 0), (-1, 0)])
            t = ["scalar", dt, zj(c * u[0], c * u[1]), long_n]
        elif kind == "annpsd":
            # positive Diagonal declared PSD: Auto() resolves to Cholesky only for base cases; the Diagonal rule still fires
            mags = [Fraction(1, 10), Fraction(1, 4)] if small else [Fraction(10), Fraction(5)]
            t = ["ann", "PSD", ["diag", dt, [zj(rng.choice(mags)) for _ in range(long_n)]]]
        else:
            # Triangular: its own rule (diagonal of the stored array); kept small (dense payload): single precision range
            dt = rng.choice(["f32", "c64"])
            n = rng.randint(60, 80)
            d = entries(dt, n, small)
            lower = rng.random() < 0.5
            M = [[d[a] if a == b else (1 if ((a == b + 1) if lower else (b == a + 1)) and rng.random() < 0.3 else 0) for b in range(n)] for a in range(n)]
            t = ["tri", dt, n, n, lower, M]
        for la in ([None, "lu"] if kind not in ("tri", "annpsd") else [None] if kind == "tri" else [None, "chol"]):
            out.append({"op": t, "la": la, "ta": None, "stream": "range"})
    return out
