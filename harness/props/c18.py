"""C18 — operators are persistent values: inputs never mutated, flatten round-trips.

Four parts (see run()):
 (a) exhaustive short histories over an alphabet of public operations (OPS) applied to a pool of
     operators of every constructible kind (KINDS) and to caller-owned arrays; after EVERY operation
     the bytes of every caller-owned array and the (to_dense bytes, annotations, shape, dtype, class,
     attribute names) of every operator the caller holds are compared with their snapshots, and the
     first call of the history is repeated at the end (same result bytes);
 (b) flatten / unflatten round trip and leaf substitution for every kind, in this process;
 (c) the same in FRESH interpreters that instantiate the kinds in permuted orders / with different
     first-instance argument types (the class-level attribute registry `_dynamic` is filled by the
     first instance of a class) — modelled by lean/ColaVerif/Model/Registry.lean;
 (d) the translator harness/translators/scan_inplace_sites.py regenerates
     lean/ColaVerif/Gen/InplaceSites.lean and the Lean gate re-checks ColaVerif.Properties.C18
     (`C18_sites` is a `decide` over that table).

Comparison is by bytes everywhere (no tolerance): nothing here is a numerical claim.
"""
import itertools
import json
import multiprocessing as mp
import os
import random
import subprocess
import sys
import time
import warnings

import numpy as np

import common
import shim  # noqa: F401
import cola
from cola.ops import (Adjoint, BlockDiag, Concatenated, Dense, Diagonal, FFT, Householder, Identity, Kernel, Kronecker,
                      KronSum, LinearOperator, Permutation, Product, ScalarMul, Sliced, Sparse, Sum, Transpose,
                      Triangular, Tridiagonal)
from cola.linalg.decompositions.arnoldi import arnoldi as real_arnoldi
from cola.linalg.decompositions.lanczos import lanczos as real_lanczos
from cola.linalg.inverse.cg import cg as real_cg
from cola.linalg.inverse.gmres import gmres as real_gmres

MODULE = "ColaVerif.Properties.C18"
HERE = os.path.dirname(os.path.abspath(__file__))
TRANSLATOR = os.path.join(os.path.dirname(HERE), "translators", "scan_inplace_sites.py")
PY = "/venv/bin/python"

# Genuine defects found by this check and not yet decided (fix in /repo or record in known_findings.json).
# clause name -> what fails.  The clause names are the hypotheses of the Lean theorems
# (C18.C18_leaves_partial) and the `clause` field of the fresh-interpreter reports.
PROVISIONAL_KNOWN = {
    "first-instance-representative":
        "the registry `_dynamic` of a (parametrised) class is fixed by its FIRST instance: `A[i0:i1, :]` and "
        "`A[index_array, :]` are both of class `Sliced[]`; whichever is built first decides whether `slices` is a "
        "pytree child, so later the leaves of flatten() contain slice objects (array first) or miss the index arrays "
        "(slice first); same for container attributes (`Ms`) of classes such as Kronecker[Sliced[Identity, tuple], Identity]",
}

SIZES = (4, 8, 16, 32)


# =============================================================================================
# caller-owned arrays and the operator pool
# =============================================================================================
def _spd(n, shift):
    i = np.arange(n, dtype=np.float64)
    m = 1.0 / (1.0 + np.abs(i[:, None] - i[None, :])) + np.diag(2.0 + ((i + shift) % 3))
    return np.ascontiguousarray(m)


class Env:
    """Everything the CALLER owns: arrays (self.arr: name -> ndarray), the pool operators
    (self.pool: kind -> operator) and, while a history runs, every operator value it produced."""

    def __init__(self, variant=0):
        a = {}
        v = float(variant)
        for n in SIZES:
            i = np.arange(n, dtype=np.float64)
            a[f"b{n}"] = np.cos(i + 1 + v) + 2.0
            a[f"B{n}"] = np.stack([np.sin(i + 2 + v) + 1.5, np.cos(2 * i + v) - 0.25], axis=1)
            a[f"x0{n}"] = 0.1 * np.sin(3 * i + 1 + v) + 0.05
            a[f"X0{n}"] = 0.1 * np.stack([np.cos(i + v), np.sin(i + 0.5 + v)], axis=1)
            a[f"v{n}"] = 1.0 + 0.5 * np.cos(2 * i + 0.3 + v)
            a[f"V{n}"] = np.stack([1.0 + 0.5 * np.sin(i + v), 0.7 - 0.3 * np.cos(i + v)], axis=0)  # (b, n) batch
            a[f"M{n}"] = _spd(n, variant)
            a[f"d{n}"] = 1.0 + (i % 4) + 0.25 * v
            a[f"idx{n}"] = np.array([(3 * k + 1) % n for k in range(n)], dtype=np.int64)  # a permutation (3 coprime to n)
            a[f"jdx{n}"] = np.array([(3 * k + 1) % n for k in range(n)], dtype=np.int64)
        # constructor arrays of the pool (n = 4)
        a["L4"] = np.tril(_spd(4, 1)) + np.eye(4)
        a["M2"] = np.array([[2.0, 0.5], [0.5, 3.0]]) + 0.1 * v * np.eye(2)
        a["N2"] = np.array([[4.0, 1.0], [1.0, 2.0]])
        a["R24"] = np.array([[1.0, 2.0, 0.0, 1.0], [0.5, 1.0, 3.0, 0.0]])
        a["S24"] = np.array([[0.0, 1.0, 1.0, 2.0], [2.0, 0.0, 1.0, 1.5]])
        a["M6"] = _spd(6, 2)
        a["i6"] = np.array([0, 2, 3, 5], dtype=np.int64)
        a["j6"] = np.array([0, 2, 3, 5], dtype=np.int64)
        a["sp_data"] = np.array([4.0, 5.0, 6.0, 7.0, 1.0, 1.0, 0.5, 0.5])
        a["sp_row"] = np.array([0, 1, 2, 3, 0, 1, 2, 3], dtype=np.int64)
        a["sp_col"] = np.array([0, 1, 2, 3, 1, 0, 3, 2], dtype=np.int64)
        a["ta"] = np.array([1.0, 0.5, 0.25])
        a["tb"] = np.array([4.0, 5.0, 6.0, 7.0])
        a["tc"] = np.array([1.0, 0.5, 0.25])
        a["p4"] = np.array([2, 0, 3, 1], dtype=np.int64)
        a["w4"] = np.array([[1.0], [2.0], [0.5], [-1.0]]) / np.sqrt(6.25)
        a["C4"] = (_spd(4, 0) + 1j * (np.triu(np.ones((4, 4)), 1) - np.tril(np.ones((4, 4)), -1)) * 0.25).astype(np.complex128)
        a["kx1"] = np.array([[0.0], [0.5], [1.0], [1.5]])
        a["kx2"] = np.array([[0.1], [0.6], [1.1], [1.6]])
        self.arr = a
        self.pool = build_pool(a)
        self.snap_arr = {k: snap_array(x) for k, x in a.items()}
        self.snap_ops = {k: snap_op(o) for k, o in self.pool.items()}
        self.produced = []      # [(label, operator, snapshot)]
        self.partners = {}

    # partners for binary algebra, by size (built lazily; they wrap caller-owned arrays)
    def partner(self, what, n):
        key = (what, n)
        if key not in self.partners:
            if what == "dense":
                op = Dense(self.arr[f"M{n}"])
            elif what == "diag":
                op = Diagonal(self.arr[f"d{n}"])
            else:
                op = Dense(self.arr["M2"])
            self.partners[key] = op
            self.produced.append((f"partner:{what}{n}", op, snap_op(op)))
        return self.partners[key]


def _kfn(x1, x2):
    return np.exp(-(x1 - x2.T) ** 2)


def _generic_mm(M):
    def mm(X):
        return M @ X
    return mm


def build_pool(a):
    f64 = np.float64
    p = {}
    p["dense"] = Dense(a["M4"])
    p["tri"] = Triangular(a["L4"], lower=True)
    p["sparse"] = Sparse(a["sp_data"], a["sp_row"], a["sp_col"], (4, 4))
    p["scalar"] = ScalarMul(2.5, (4, 4), dtype=f64)
    p["eye"] = Identity((4, 4), f64)
    p["prod"] = Product(Dense(a["M4"]), Diagonal(a["d4"]))
    p["sum"] = Sum(Dense(a["M4"]), Diagonal(a["d4"]))
    p["kron"] = Kronecker(Dense(a["M2"]), Dense(a["N2"]))
    p["kronsum"] = KronSum(Dense(a["M2"]), Dense(a["N2"]))
    p["bdiag"] = BlockDiag(Dense(a["M2"]), Dense(a["N2"]))
    p["bdiagm"] = BlockDiag(Dense(a["M2"]), multiplicities=[2])
    p["diag"] = Diagonal(a["d4"])
    p["tridiag"] = Tridiagonal(a["ta"], a["tb"], a["tc"])
    p["transpose"] = Transpose(Triangular(a["L4"], lower=True))
    p["adjoint"] = Adjoint(Sparse(a["sp_data"], a["sp_row"], a["sp_col"], (4, 4)))
    p["sliced_s"] = Dense(a["M6"])[1:5, 1:5]
    p["sliced_a"] = Dense(a["M6"])[a["i6"], a["j6"]]
    p["perm"] = Permutation(a["p4"], f64)
    p["concat"] = Concatenated(Dense(a["R24"]), Dense(a["S24"]), axis=0)
    p["house"] = Householder(a["w4"], beta=2.0)
    p["generic"] = LinearOperator(f64, (4, 4), matmat=_generic_mm(a["M4"]))
    p["nodispatch"] = cola.no_dispatch(Sum(Dense(a["M4"]), Diagonal(a["d4"])))
    p["psd"] = cola.PSD(Dense(a["M4"]))
    p["fft"] = FFT(4, dtype=np.complex128)
    p["kernel"] = Kernel(a["kx1"], a["kx2"], _kfn, 2, 2)
    p["cdense"] = cola.SelfAdjoint(Dense(a["C4"]))
    return p


KINDS = ["dense", "tri", "sparse", "scalar", "eye", "prod", "sum", "kron", "kronsum", "bdiag", "bdiagm", "diag",
         "tridiag", "transpose", "adjoint", "sliced_s", "sliced_a", "perm", "concat", "house", "generic",
         "nodispatch", "psd", "fft", "kernel", "cdense"]


# =============================================================================================
# snapshots
# =============================================================================================
def snap_array(x):
    return (x.dtype.str, x.shape, x.tobytes())


def ann_names(A):
    return tuple(sorted(getattr(a, "__name__", str(a)) for a in A.annotations))


def snap_op(A):
    """what the caller can observe of an operator: class, shape, dtype, annotations, attribute
    names, device and the represented matrix"""
    with np.errstate(all="ignore"):
        D = np.asarray(A.to_dense())
    return (type(A).__name__, tuple(A.shape), str(A.dtype), ann_names(A), tuple(sorted(vars(A))), repr(A.device),
            snap_array(D))


def fingerprint(res):
    """bytes-exact description of a result (arrays, operators, tuples of them; info dicts carry
    wall-clock timings and are skipped)"""
    if isinstance(res, LinearOperator):
        return ("op",) + snap_op(res)
    if isinstance(res, np.ndarray):
        return ("arr",) + snap_array(res)
    if isinstance(res, (tuple, list)):
        return ("tup",) + tuple(fingerprint(r) for r in res if not isinstance(r, dict))
    if isinstance(res, dict):
        return ("info",)
    if isinstance(res, (int, float, complex, np.generic)):
        return ("num", repr(res))
    return ("other", type(res).__name__)


# =============================================================================================
# the alphabet: name -> f(env, A, last) ; A = the focus operator, last = the last array result
# (or None).  Every array argument is a caller-owned array of the environment.
# =============================================================================================
def _n(A):
    return A.shape[-1]


def _vec(env, A, last, name):
    return env.arr[f"{name}{_n(A)}"]


def _rhs(env, A, last):
    """right-hand side: the previous array result when it fits (aliasing chains), else b"""
    if isinstance(last, np.ndarray) and last.shape == (A.shape[0],) and last.dtype.kind in "fc":
        return last
    return env.arr[f"b{A.shape[0]}"]


OPS = {}


def op(name):
    def deco(f):
        OPS[name] = f
        return f
    return deco


@op("matvec")
def _(env, A, last):
    return A @ _rhs(env, A, last)


@op("matmat")
def _(env, A, last):
    return A @ env.arr[f"B{_n(A)}"]


@op("rmatvec")
def _(env, A, last):
    return env.arr[f"b{A.shape[0]}"] @ A


@op("rmatmat")
def _(env, A, last):
    return env.arr[f"V{A.shape[0]}"] @ A


@op("T")
def _(env, A, last):
    return A.T


@op("H")
def _(env, A, last):
    return A.H


@op("add")
def _(env, A, last):
    return A + env.partner("dense", _n(A))


@op("sub")
def _(env, A, last):
    return A - env.partner("diag", _n(A))


@op("smul")
def _(env, A, last):
    return 2.5 * A


@op("neg_div")
def _(env, A, last):
    return (-A) / 4.0


@op("prod")
def _(env, A, last):
    return A @ env.partner("dense", _n(A))


@op("kron")
def _(env, A, last):
    if _n(A) * 2 > SIZES[-1]:
        raise NotApplicable("size")
    return cola.kron(env.partner("two", 2), A)


@op("kronsum")
def _(env, A, last):
    if _n(A) * 2 > SIZES[-1]:
        raise NotApplicable("size")
    return cola.kronsum(env.partner("two", 2), A)


@op("PSD")
def _(env, A, last):
    return cola.PSD(A)


@op("to_dense")
def _(env, A, last):
    return A.to_dense()


@op("flatten")
def _(env, A, last):
    leaves, unflatten = A.flatten()
    return unflatten(leaves)


@op("to")
def _(env, A, last):
    return A.to(None)


@op("getitem_ij")
def _(env, A, last):
    return np.asarray(A[1, 2])


@op("getitem_col")
def _(env, A, last):
    return A[:, 1]


@op("getitem_row")
def _(env, A, last):
    return A[2]


@op("slice")
def _(env, A, last):
    return A[0:_n(A), 0:_n(A):1]


@op("index")
def _(env, A, last):
    return A[env.arr[f"idx{A.shape[0]}"], env.arr[f"jdx{_n(A)}"]]


@op("diag")
def _(env, A, last):
    return cola.diag(A)


@op("diag1")
def _(env, A, last):
    return cola.diag(A, k=1)


@op("trace")
def _(env, A, last):
    return np.asarray(cola.trace(A))


@op("solve")
def _(env, A, last):
    return cola.solve(A, _rhs(env, A, last))


@op("inv")
def _(env, A, last):
    return cola.inv(A)


@op("inv_cg")
def _(env, A, last):
    Ai = cola.inv(A, cola.CG(x0=env.arr[f"x0{_n(A)}"], max_iters=6, tol=1e-9))
    return Ai @ _rhs(env, A, last)


@op("inv_gmres")
def _(env, A, last):
    Ai = cola.inv(A, cola.GMRES(x0=env.arr[f"x0{_n(A)}"], max_iters=4, tol=1e-9))
    return Ai @ _rhs(env, A, last)


@op("cg")
def _(env, A, last):
    x, _info = real_cg(A, _rhs(env, A, last), x0=env.arr[f"x0{_n(A)}"], max_iters=5, tol=1e-10)
    return x


@op("cg_block")
def _(env, A, last):
    x, _info = real_cg(A, env.arr[f"B{_n(A)}"], x0=env.arr[f"X0{_n(A)}"], P=env.partner("diag", _n(A)), max_iters=5,
                       tol=1e-10)
    return x


@op("gmres")
def _(env, A, last):
    x, _info = real_gmres(A, _rhs(env, A, last), x0=env.arr[f"x0{_n(A)}"], max_iters=3, tol=1e-10)
    return x


@op("gmres_tri")
def _(env, A, last):
    x, _info = real_gmres(A, env.arr[f"b{_n(A)}"], x0=env.arr[f"x0{_n(A)}"], max_iters=3, tol=1e-10,
                          use_triangular=True, use_householder=True)
    return x


@op("lanczos")
def _(env, A, last):
    Q, T, _info = real_lanczos(A, start_vector=env.arr[f"v{_n(A)}"], max_iters=3, tol=1e-12)
    return (Q, T)


@op("arnoldi")
def _(env, A, last):
    Q, H, _info = real_arnoldi(A, start_vector=env.arr[f"v{_n(A)}"], max_iters=3, tol=1e-12)
    return (Q, H)


@op("arnoldi_hh")
def _(env, A, last):
    Q, H, _info = real_arnoldi(A, start_vector=env.arr[f"v{_n(A)}"], max_iters=3, tol=1e-12, use_householder=True)
    return (Q, H)


@op("eig")
def _(env, A, last):
    return cola.eig(A, k=2)


@op("eig_arnoldi")
def _(env, A, last):
    return cola.eig(A, 2, "LM", cola.Arnoldi(start_vector=env.arr[f"v{_n(A)}"], max_iters=3))


@op("exp_lanczos")
def _(env, A, last):
    return cola.exp(A, cola.Lanczos(start_vector=env.arr[f"v{_n(A)}"], max_iters=3)) @ env.arr[f"b{_n(A)}"]


@op("sqrt_lanczos")
def _(env, A, last):
    return cola.sqrt(A, cola.Lanczos(max_iters=3)) @ env.arr[f"B{_n(A)}"]


@op("exp")
def _(env, A, last):
    return cola.exp(A)


@op("logdet")
def _(env, A, last):
    return np.asarray(cola.logdet(A))


ALPHABET = list(OPS)


class NotApplicable(Exception):
    pass


# =============================================================================================
# running one history on one focus kind
# =============================================================================================
def check_unchanged(env, step):
    """-> list of differences between the caller's values and their snapshots"""
    diffs = []
    for k, x in env.arr.items():
        if snap_array(x) != env.snap_arr[k]:
            diffs.append({"what": "caller-owned array changed", "array": k, "step": step,
                          "before": np.frombuffer(env.snap_arr[k][2], dtype=env.snap_arr[k][0]).tolist()[:16],
                          "after": x.ravel().tolist()[:16]})
    for k, o in env.pool.items():
        try:
            s = snap_op(o)
        except Exception as ex:  # an operator that no longer multiplies is a change, too
            s = ("error", type(ex).__name__, str(ex)[:200])
        if s != env.snap_ops[k]:
            diffs.append({"what": "pool operator changed", "operator": k, "step": step, "field": _first_diff(env.snap_ops[k], s)})
    for label, o, s0 in env.produced:
        try:
            s = snap_op(o)
        except Exception as ex:
            s = ("error", type(ex).__name__, str(ex)[:200])
        if s != s0:
            diffs.append({"what": "operator value changed after it was returned", "operator": label, "step": step,
                          "field": _first_diff(s0, s)})
    return diffs


FIELDS = ["class", "shape", "dtype", "annotations", "attributes", "device", "to_dense"]


def _first_diff(s0, s1):
    if len(s0) != len(s1):
        return f"{s0[:3]} -> {s1[:3]}"
    for name, a, b in zip(FIELDS, s0, s1):
        if a != b:
            if name == "to_dense":
                return "to_dense bytes"
            return f"{name}: {a} -> {b}"
    return "?"


def apply_op(env, name, A, last):
    """-> (status, result).  status 'ok' | 'na' (the call raised: not applicable to this operand)"""
    with warnings.catch_warnings():
        warnings.simplefilter("ignore")
        with np.errstate(all="ignore"):
            try:
                return "ok", OPS[name](env, A, last)
            except NotApplicable as ex:
                return "na", "NotApplicable"
            except Exception as ex:
                return "na", type(ex).__name__


def run_history(history, kind, variant=0, env=None):
    """Runs the history (list of operation names) with focus operator pool[kind].
    -> dict(evals, touched, failures=[...])"""
    env = env or Env(variant)
    A, last = env.pool[kind], None
    failures, evals, statuses = [], 0, []
    first = None
    for step, name in enumerate(history):
        st, res = apply_op(env, name, A, last)
        evals += 1
        statuses.append(st if st == "ok" else f"na:{res}")
        if step == 0:
            first = (st, fingerprint(res) if st == "ok" else res)
        if st == "ok":
            # operators that came back are values the caller now holds
            for r in (res if isinstance(res, (tuple, list)) else [res]):
                if isinstance(r, LinearOperator):
                    try:
                        env.produced.append((f"step{step}:{name}", r, snap_op(r)))
                    except Exception:
                        pass
            r0 = res[0] if isinstance(res, (tuple, list)) and len(res) else res
            if isinstance(r0, LinearOperator) and len(r0.shape) == 2 and r0.shape[0] == r0.shape[1] and r0.shape[0] in SIZES:
                A = r0
            elif isinstance(r0, np.ndarray):
                last = r0
        d = check_unchanged(env, step)
        if d:
            failures.extend(d)
            break
    if not failures and history:
        # repeatability: the first call again, on the original operand
        st, res = apply_op(env, history[0], env.pool[kind], None)
        evals += 1
        again = (st, fingerprint(res) if st == "ok" else res)
        if again != first:
            failures.append({"what": "repeating the first call gives a different result", "step": len(history),
                             "first": _short(first), "again": _short(again)})
        else:
            d = check_unchanged(env, len(history))
            failures.extend(d)
    return {"evals": evals, "statuses": statuses, "failures": failures}


def _short(fp):
    s = repr(fp)
    return s if len(s) < 300 else s[:300] + "..."
