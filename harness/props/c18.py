"""C18 — operators are persistent values: inputs never mutated, flatten round-trips.

Four parts (see run()):
 (a) exhaustive short histories over an alphabet of public operations (OPS) applied to a pool of
     operators of every constructible kind (KINDS) and to caller-owned arrays; after EVERY operation
     the bytes of every caller-owned array and the (to_dense bytes, annotations, shape, dtype, class,
     attribute names) of every operator the caller holds are compared with their snapshots, and the
     first call of the history is repeated at the end (same result bytes);
 (b) flatten / unflatten round trip and leaf substitution for every kind, in this process;
 (c) the same in FRESH interpreters that instantiate the kinds in permuted orders / with different
     first-instance argument types (the class-level attribute registry `_dynamic` is filled by the
     first instance of a class) — modelled by lean/ColaVerif/Model/Registry.lean;
 (d) the translator harness/translators/scan_inplace_sites.py regenerates
     lean/ColaVerif/Gen/InplaceSites.lean and the Lean gate re-checks ColaVerif.Properties.C18
     (`C18_sites` is a `decide` over that table).  Round 2: a site whose own slice does not obey the write
     discipline carries a REASON the scanner established by analysis (caller-side slices of every call
     site of a private helper / of the backend primitive ending in the IR edge `call`, defining slices of
     every store to a constructor-owned field, zero reads of a write-only attribute, class-level target);
     the Lean theorem checks the emitted data — there is no prose allow-list and no named clause any more
     (C18_clause_rows: the list of rows resting on a clause is empty).

Tiers of (a): quick = all histories of length <= 2, a STRATIFIED sample of length 3 (every ordered triple of
the 7 operation kinds, every operation in every position), 60 random histories of length 4-8; thorough =
EXHAUSTIVE for length <= 3 (32 + 32^2 + 32^3 histories, each on all 26 pool kinds; the 32 continuations of a
prefix share its evaluation, `run_tree`) and 1500 long ones.  Caller-owned Algorithm objects (CG(x0=..., P=...),
GMRES(x0=...), Lanczos(start_vector=...), Arnoldi(start_vector=...), Auto(...)) are reused across calls and compared by value and
identity after every operation; nothing the caller created is excluded from the comparison (see OWNERSHIP below).  Round 3: an
exception is an observation — `predict` names the class a call must end in (or success), the generator hands every routine an
operand it is defined on, and the per-operation success rates are part of the evidence (>= 90 % required outside
EXPECTED_RAISING).

A changed /repo never makes the check crash: a scanner / gate / driver failure is reported as
`VIOLATION ... no-failing-input-found` naming the theorems that no longer check, unless the byte comparison
finds a concrete failing history.

Comparison is by bytes everywhere (no tolerance): nothing here is a numerical claim.
"""
import itertools
import json
import multiprocessing as mp
import os
import random
import subprocess
import sys
import time
import warnings

import numpy as np

# `cola.backends.get_library_fns` tries `import jax` / `import torch` on EVERY call; neither is installed and a failed
# import is not cached by Python (≈ 0.5 ms of path scanning per call, 60 % of the run time of this check).  A finder in
# front of sys.meta_path makes the same ModuleNotFoundError immediate.  Semantics unchanged.
class _AbsentBackends:
    @staticmethod
    def find_spec(name, path=None, target=None):
        if name in ("jax", "torch"):
            raise ModuleNotFoundError(f"No module named '{name}'", name=name)
        return None


def _absent_backends():
    import importlib.util
    if all(importlib.util.find_spec(m) is None for m in ("jax", "torch")):
        sys.meta_path.insert(0, _AbsentBackends)


_absent_backends()

import common  # noqa: E402
import shim  # noqa: F401,E402
import cola
from cola.ops import (Adjoint, BlockDiag, Concatenated, Dense, Diagonal, FFT, Householder, Identity, Kernel, Kronecker,
                      KronSum, LinearOperator, Permutation, Product, ScalarMul, Sliced, Sparse, Sum, Transpose,
                      Triangular, Tridiagonal)
from cola.linalg.decompositions.arnoldi import arnoldi as real_arnoldi
from cola.linalg.decompositions.lanczos import lanczos as real_lanczos
from cola.linalg.inverse.cg import cg as real_cg
from cola.linalg.inverse.gmres import gmres as real_gmres

MODULE = "ColaVerif.Properties.C18"
HERE = os.path.dirname(os.path.abspath(__file__))
TRANSLATOR = os.path.join(os.path.dirname(HERE), "translators", "scan_inplace_sites.py")
PY = "/venv/bin/python"

# Genuine defects found by this check and not yet decided (fix in /repo or record in known_findings.json).
# clause name -> what fails.  The clause names are the hypotheses of the Lean theorems
# (C18.C18_leaves_partial) and the `clause` field of the fresh-interpreter reports.
# (first-instance-representative was decided: it is recorded in /verif/known_findings.json.
#  identity-to-mutates-receiver — Identity.to(device) stored the device into the RECEIVER, found in round 2 when the prose
#  allow-list of in-place sites was replaced by analysis — was REPAIRED in /repo by aef9931; the operation `to_dev` stays in the
#  history stream as a regression: it must leave the receiver unchanged, a change is a VIOLATION.)
PROVISIONAL_KNOWN = {}

SIZES = (4, 8, 16, 32)


# =============================================================================================
# caller-owned arrays and the operator pool
# =============================================================================================
def _spd(n, shift):
    i = np.arange(n, dtype=np.float64)
    m = 1.0 / (1.0 + np.abs(i[:, None] - i[None, :])) + np.diag(2.0 + ((i + shift) % 3))
    return np.ascontiguousarray(m)


def make_arrays(variant=0):
    """the arrays the caller owns (fixed payloads; `variant` shifts them)"""
    a = {}
    v = float(variant)
    for n in SIZES:
        i = np.arange(n, dtype=np.float64)
        a[f"b{n}"] = np.cos(i + 1 + v) + 2.0
        a[f"B{n}"] = np.stack([np.sin(i + 2 + v) + 1.5, np.cos(2 * i + v) - 0.25], axis=1)
        a[f"x0{n}"] = 0.1 * np.sin(3 * i + 1 + v) + 0.05
        a[f"X0{n}"] = 0.1 * np.stack([np.cos(i + v), np.sin(i + 0.5 + v)], axis=1)
        a[f"v{n}"] = 1.0 + 0.5 * np.cos(2 * i + 0.3 + v)
        a[f"V{n}"] = np.stack([1.0 + 0.5 * np.sin(i + v), 0.7 - 0.3 * np.cos(i + v)], axis=0)  # (b, n) batch
        a[f"M{n}"] = _spd(n, variant)
        a[f"d{n}"] = 1.0 + (i % 4) + 0.25 * v
        a[f"idx{n}"] = np.array([(3 * k + 1) % n for k in range(n)], dtype=np.int64)  # a permutation (3 coprime to n)
        a[f"jdx{n}"] = np.array([(3 * k + 1) % n for k in range(n)], dtype=np.int64)
    # constructor arrays of the pool (n = 4)
    a["L4"] = np.tril(_spd(4, 1)) + np.diag([1.0, 2.0, 3.0, 4.0])   # distinct diagonal 5, 7, 6, 8: eig(Triangular) needs simple eigenvalues
    a["M2"] = np.array([[2.0, 0.5], [0.5, 3.0]]) + 0.1 * v * np.eye(2)
    a["N2"] = np.array([[4.0, 1.0], [1.0, 2.0]])
    a["R24"] = np.array([[1.0, 2.0, 0.0, 1.0], [0.5, 1.0, 3.0, 0.0]])
    a["S24"] = np.array([[0.0, 1.0, 1.0, 2.0], [2.0, 0.0, 1.0, 1.5]])
    a["M6"] = _spd(6, 2)
    a["i6"] = np.array([0, 2, 3, 5], dtype=np.int64)
    a["j6"] = np.array([0, 2, 3, 5], dtype=np.int64)
    a["sp_data"] = np.array([4.0, 5.0, 6.0, 7.0, 1.0, 1.0, 0.5, 0.5])
    a["sp_row"] = np.array([0, 1, 2, 3, 0, 1, 2, 3], dtype=np.int64)
    a["sp_col"] = np.array([0, 1, 2, 3, 1, 0, 3, 2], dtype=np.int64)
    a["ta"] = np.array([1.0, 0.5, 0.25])
    a["tb"] = np.array([4.0, 5.0, 6.0, 7.0])
    a["tc"] = np.array([1.0, 0.5, 0.25])
    a["p4"] = np.array([2, 0, 3, 1], dtype=np.int64)
    a["w4"] = np.array([[1.0], [2.0], [0.5], [-1.0]]) / np.sqrt(6.25)
    a["C4"] = (_spd(4, 0) + 1j * (np.triu(np.ones((4, 4)), 1) - np.tril(np.ones((4, 4)), -1)) * 0.25).astype(np.complex128)
    a["kx1"] = np.array([[0.0], [0.5], [1.0], [1.5]])
    a["kx2"] = np.array([[0.1], [0.6], [1.1], [1.6]])
    return a


class RecDict(dict):
    """dict of the caller-owned arrays that records which ones an operation asked for"""
    touched = None

    def __getitem__(self, k):
        if self.touched is not None:
            self.touched.add(k)
        return dict.__getitem__(self, k)


class EnvBase:
    """Everything the CALLER owns: arrays (self.arr: name -> ndarray), the pool operators
    (self.pool: kind -> operator) and, while a history runs, every operator value it produced."""

    def __init__(self, variant=0):
        a = make_arrays(variant)
        self.arr = RecDict(a)
        self.pool = build_pool(a)
        self.arr.touched = set()
        self.snap_arr = {k: snap_array(x) for k, x in a.items()}
        self.snap_ops = {k: snap_op(o, skip=False) for k, o in self.pool.items()}
        self.partners = {}
        self.algs, self.snap_algs, self.used_algs = {}, {}, set()
        self.used = set()
        self.produced = []
        self.dirty = False
        self.surprises = []         # outcomes `predict` did not name (evidence + reported)
        self.lib0 = {}              # id(result operator) -> its library-owned state at the moment it was returned
        self.sig0 = {}              # id(result operator) -> leaf_sig at the moment it was returned

    # partners for binary algebra, by size (built lazily; they wrap caller-owned arrays)
    def partner(self, what, n):
        key = (what, n)
        if key not in self.partners:
            if what == "dense":
                op = Dense(self.arr[f"M{n}"])
            elif what == "diag":
                op = Diagonal(self.arr[f"d{n}"])
            else:
                op = Dense(self.arr["M2"])
            self.partners[key] = op
            self.snap_ops[key] = snap_op(op, skip=False)
        self.used.add(key)
        if self.arr.touched is not None:     # the partner wraps a caller-owned array (recorded on every use, not only on creation)
            self.arr.touched.add({"dense": f"M{n}", "diag": f"d{n}"}.get(what, "M2"))
        return self.partners[key]

    # Algorithm objects the CALLER owns and passes to several calls: their fields (the arrays x0 / start_vector, the
    # preconditioner operator P, tolerances) are inputs no cola operation may modify; compared by value and identity (alg_snap)
    def alg(self, what, n):
        key = ("alg", what, n)
        if key not in self.algs:
            if what == "cg":
                # (n, 1) view of the caller's array (the operator is applied to a matrix); P: a caller-owned preconditioner
                a = cola.CG(x0=self.arr[f"x0{n}"][:, None], P=self.partner("diag", n), max_iters=6, tol=1e-9)
            elif what == "gmres":
                # max_iters < n = 4: at m >= n the Krylov space is exhausted by construction
                a = cola.GMRES(x0=self.arr[f"x0{n}"][:, None], max_iters=3, tol=1e-9)
            elif what == "arnoldi":
                a = cola.Arnoldi(start_vector=self.arr[f"v{n}"], max_iters=3)
            elif what == "lanczos_sv":
                a = cola.Lanczos(start_vector=self.arr[f"v{n}"], max_iters=3)
            elif what == "auto":
                a = cola.Auto(max_iters=5, tol=1e-8)                                      # apply_unary reads alg.__dict__ of an Auto
            else:
                a = cola.Lanczos(max_iters=3)
            self.algs[key] = a
            self.snap_algs[key] = alg_snap(a)
        self.used_algs.add(key)
        if what == "cg":
            self.used.add(("diag", n))              # the preconditioner the Algorithm object carries is involved
        if self.arr.touched is not None and what in ("cg", "gmres"):
            self.arr.touched.add(f"x0{n}")
        if self.arr.touched is not None and what in ("arnoldi", "lanczos_sv"):
            self.arr.touched.add(f"v{n}")
        return self.algs[key]


def _kfn(x1, x2):
    return np.exp(-(x1 - x2.T) ** 2)


def _generic_mm(M):
    def mm(X):
        return M @ X
    return mm


BUILDERS = {
    "dense": lambda a: Dense(a["M4"]),
    "tri": lambda a: Triangular(a["L4"], lower=True),
    "sparse": lambda a: Sparse(a["sp_data"], a["sp_row"], a["sp_col"], (4, 4)),
    "scalar": lambda a: ScalarMul(2.5, (4, 4), dtype=np.float64),
    "eye": lambda a: Identity((4, 4), np.float64),
    "prod": lambda a: Product(Dense(a["M4"]), Diagonal(a["d4"])),
    "sum": lambda a: Sum(Dense(a["M4"]), Diagonal(a["d4"])),
    "kron": lambda a: Kronecker(Dense(a["M2"]), Dense(a["N2"])),
    "kronsum": lambda a: KronSum(Dense(a["M2"]), Dense(a["N2"])),
    "bdiag": lambda a: BlockDiag(Dense(a["M2"]), Dense(a["N2"])),
    "bdiagm": lambda a: BlockDiag(Dense(a["M2"]), multiplicities=[2]),
    "diag": lambda a: Diagonal(a["d4"]),
    "tridiag": lambda a: Tridiagonal(a["ta"], a["tb"], a["tc"]),
    "transpose": lambda a: Transpose(Triangular(a["L4"], lower=True)),
    "adjoint": lambda a: Adjoint(Sparse(a["sp_data"], a["sp_row"], a["sp_col"], (4, 4))),
    "sliced_s": lambda a: Dense(a["M6"])[1:5, 1:5],
    "sliced_a": lambda a: Dense(a["M6"])[a["i6"], a["j6"]],
    "perm": lambda a: Permutation(a["p4"], np.float64),
    "concat": lambda a: Concatenated(Dense(a["R24"]), Dense(a["S24"]), axis=0),
    "house": lambda a: Householder(a["w4"], beta=2.0),
    "generic": lambda a: LinearOperator(np.float64, (4, 4), matmat=_generic_mm(a["M4"])),
    "nodispatch": lambda a: cola.no_dispatch(Sum(Dense(a["M4"]), Diagonal(a["d4"]))),
    "psd": lambda a: cola.PSD(Dense(a["M4"])),
    "fft": lambda a: FFT(4, dtype=np.complex128),
    "kernel": lambda a: Kernel(a["kx1"], a["kx2"], _kfn, 2, 2),
    "cdense": lambda a: cola.SelfAdjoint(Dense(a["C4"])),
}


def build_pool(a, order=None):
    return {k: BUILDERS[k](a) for k in (order or KINDS)}


KINDS = ["dense", "tri", "sparse", "scalar", "eye", "prod", "sum", "kron", "kronsum", "bdiag", "bdiagm", "diag",
         "tridiag", "transpose", "adjoint", "sliced_s", "sliced_a", "perm", "concat", "house", "generic",
         "nodispatch", "psd", "fft", "kernel", "cdense"]


# =============================================================================================
# snapshots
# =============================================================================================
def snap_array(x):
    return (x.dtype.str, x.shape, x.tobytes())


def ann_names(A):
    return tuple(sorted(getattr(a, "__name__", str(a)) for a in A.annotations))


# OWNERSHIP (round 3).  The property says that no cola operation modifies an INPUT.
#  * caller-owned = every object the caller created and handed to cola, transitively: the arrays of `env.arr` (right-hand sides,
#    x0, start vectors, index arrays, constructor arrays), the pool operators and partners the caller constructed (with EVERY
#    attribute, nothing skipped), the Algorithm objects the caller constructed (`env.algs`: every field by value AND by object
#    identity — x0, start_vector, the preconditioner operator P, tolerances — and the same for Auto(...) namespaces).  All of them
#    are compared after every operation without any exclusion.
#  * library-owned = the `info` dict of IterativeOperatorWInfo / LanczosUnary / ArnoldiUnary inside an operator cola RETURNED
#    (log of the last run: `self.info = {}` in __init__, replaced / updated by `_matmat`; carries wall-clock timings).  Only this
#    field of these three classes is excluded from the snapshot of an operator cola returned (`LIB_STATE`), and only while the
#    dict is not itself a caller object (`lib_state_is_fresh`); the exclusion never applies to a pool operator, a partner or an
#    Algorithm object.  Every time the exclusion actually hides a difference it is counted (`library_owned_state_changes`).
#    Since /repo 7ca2ac5 the `kwargs` dict of LanczosUnary / ArnoldiUnary is NOT excluded any more (`_matmat` used to pop its
#    `start_vector` entry, so F.flatten() lost a leaf after the first F @ b): a returned operator whose attributes or whose
#    flatten() leaves (`leaf_sig`, recorded at the moment of return) change after use is a VIOLATION; regression histories
#    KWARGS_REGRESSION.
LIB_STATE = {"IterativeOperatorWInfo": {"info": None},
             "LanczosUnary": {"info": None},
             "ArnoldiUnary": {"info": None}}


def _base_name(v):
    return type(v).__name__.split("[")[0]


from cola.linalg.algorithm_base import Algorithm as _ALGORITHM  # noqa: E402


def struct_snap(v, depth=0, skip=True):
    """structural (deep) snapshot of a value held by the caller: every attribute of an operator,
    recursively; arrays by bytes.  `skip`: apply the LIB_STATE exclusion (operators cola returned); with
    skip=False (caller-constructed roots: pool, partners, Algorithm objects) nothing is excluded."""
    if isinstance(v, np.ndarray):
        return ("a",) + snap_array(v)
    if isinstance(v, LinearOperator):
        items = []
        lib = LIB_STATE.get(_base_name(v), {}) if skip else {}
        for k, x in sorted(vars(v).items()):
            if k in lib:
                if lib[k] is None:
                    continue
                if isinstance(x, dict):
                    x = {kk: vv for kk, vv in x.items() if kk not in lib[k]}
            items.append((k, struct_snap(x, depth + 1, skip)))
        return ("o", type(v).__name__, tuple(items))
    if isinstance(v, (tuple, list)):
        return (type(v).__name__,) + tuple(struct_snap(x, depth + 1, skip) for x in v)
    if isinstance(v, dict):
        return ("d",) + tuple((repr(k), struct_snap(x, depth + 1, skip)) for k, x in sorted(v.items(), key=lambda kv: repr(kv[0])))
    if isinstance(v, (set, frozenset)):
        return ("s",) + tuple(sorted(getattr(x, "__name__", repr(x)) for x in v))
    if v is None or isinstance(v, (bool, int, float, complex, str, slice, np.generic, np.dtype)):
        return ("v", type(v).__name__, repr(v))
    if hasattr(v, "tocoo") and hasattr(v, "data"):  # scipy sparse matrix held by Sparse
        c = v.tocoo()
        return ("sp", v.shape, snap_array(np.asarray(c.data)), snap_array(np.asarray(c.row)), snap_array(np.asarray(c.col)))
    if isinstance(v, _ALGORITHM) and depth < 6:
        # Algorithm objects are callable (alg(A, b)); their attributes (x0, start_vector, P, tolerances) are caller-owned data
        return ("obj", type(v).__name__, struct_snap(vars(v), depth + 1, skip))
    if hasattr(v, "__dict__") and not callable(v) and depth < 6 and not isinstance(v, type) \
            and type(v).__module__.startswith("cola"):
        return ("obj", type(v).__name__, struct_snap(vars(v), depth + 1, skip))  # Algorithm dataclasses (CG(x0=...), ...)
    return ("id", type(v).__name__, getattr(v, "__qualname__", None) or getattr(v, "__name__", None) or "")


def alg_snap(a):
    """an Algorithm object the caller owns: every field by value (deep, nothing excluded) and by object identity"""
    return (struct_snap(a, skip=False), tuple((k, id(x)) for k, x in sorted(vars(a).items())))


def lib_state_is_fresh(op, env):
    """the containers excluded by LIB_STATE are objects cola allocated: none of them IS (by identity) an object the caller owns
    (the __dict__ of an Algorithm object, a dict / list stored in one, a caller array).  -> list of offending fields"""
    lib = LIB_STATE.get(_base_name(op))
    if not lib:
        return []
    mine = set()
    for a in env.algs.values():
        mine.add(id(vars(a)))
        mine.update(id(x) for x in vars(a).values() if isinstance(x, (dict, list, set)))
    mine.update(id(x) for x in dict.values(env.arr))
    return [k for k in lib if k in vars(op) and id(vars(op)[k]) in mine]


def leaf_sig(A):
    """the pytree leaves of an operator as the caller sees them: arrays by identity, anything else by type"""
    try:
        with warnings.catch_warnings():
            warnings.simplefilter("ignore")
            leaves = A.flatten()[0]
    except Exception as ex:  # noqa: BLE001
        return ("error", type(ex).__name__)
    return tuple(("a", id(x)) if isinstance(x, np.ndarray) else ("t", type(x).__name__) for x in leaves)


def dense_snap(A):
    with np.errstate(all="ignore"), warnings.catch_warnings():
        warnings.simplefilter("ignore")
        try:
            return snap_array(np.asarray(A.to_dense()))
        except Exception as ex:
            return ("error", type(ex).__name__, str(ex)[:160])


def head_snap(A):
    return (type(A).__name__, tuple(A.shape), str(A.dtype), ann_names(A), repr(A.device))


def snap_op(A, skip=True):
    """what the caller can observe of an operator: class, shape, dtype, annotations, device, every
    attribute (deep), and the represented matrix.  skip=False for operators the caller constructed (nothing excluded)"""
    return (head_snap(A), struct_snap(A, skip=skip), dense_snap(A))


def fingerprint(res):
    """bytes-exact description of a result (arrays, operators, tuples of them; info dicts carry
    wall-clock timings and are skipped)"""
    if isinstance(res, LinearOperator):
        return ("op", head_snap(res), dense_snap(res))
    if isinstance(res, np.ndarray):
        return ("arr",) + snap_array(res)
    if isinstance(res, (tuple, list)):
        return ("tup",) + tuple(fingerprint(r) for r in res if not isinstance(r, dict))
    if isinstance(res, dict):
        return ("info",)
    if isinstance(res, (int, float, complex, np.generic)):
        return ("num", repr(res))
    return ("other", type(res).__name__)


# =============================================================================================
# the alphabet: name -> f(env, A, last) ; A = the focus operator, last = the last array result
# (or None).  Every array argument is a caller-owned array of the environment.
# =============================================================================================
def _n(A):
    return A.shape[-1]


def _vec(env, A, last, name):
    return env.arr[f"{name}{_n(A)}"]


def _rhs(env, A, last):
    """right-hand side: the previous array result when it fits (aliasing chains), else b"""
    if isinstance(last, np.ndarray) and last.shape == (A.shape[0],) and last.dtype.kind in "fc" \
            and np.all(np.isfinite(last)) and 1e-100 < np.abs(last).max() < 1e100:
        # (a zero / non-finite right-hand side: recorded C13 zeroResidual; beyond 1e±100 — exp of a large operator — norms over/underflow)
        return last
    return env.arr[f"b{A.shape[0]}"]


# ---- operands on which an operation is DEFINED (round 3: the generator no longer hands Lanczos / CG operators that cola
# refuses by assertion; an exception is an observation, see `predict`) -----------------------------------------------------
from cola.annotations import PSD as _PSD, SelfAdjoint as _SELFADJ  # noqa: E402

# kinds whose inv / apply_unary rule hands the SAME Algorithm object to members (of another size, and not annotated)
DISTRIBUTING = {"Kronecker", "BlockDiag", "KronSum", "Product", "Transpose", "Adjoint"}


def _dense_of(A):
    with warnings.catch_warnings(), np.errstate(all="ignore"):
        warnings.simplefilter("ignore")
        return np.asarray(A.to_dense())


def well_posed(A, V=None, m=0, x0=None):
    """Decided on the represented matrix before the call: finite, numerically non-singular (sigma_min > 1e-8 sigma_max) and, for a
    Krylov routine with start block V and m iterations, every column's Krylov space K_j(A, v) keeps growing for min(m + 1, n)
    steps (no exhaustion inside the iteration budget: exhaustion is where the recorded breakdown defects C14
    batch-member-breakdown / C06 gmres-krylov-breakdown / C09 krylov-batch-unequal-exhaustion live)."""
    try:
        D = _dense_of(A)
        if D.ndim != 2 or D.shape[0] != D.shape[1] or not np.all(np.isfinite(D)):
            return False
        sv = np.linalg.svd(D, compute_uv=False)
        if not (sv[-1] > 1e-8 * sv[0]):
            return False
        if V is not None:
            V = np.asarray(V)
            V = V[:, None] if V.ndim == 1 else V
            if x0 is not None:                       # GMRES / CG iterate on the residual of the initial guess
                x0 = np.asarray(x0)
                V = V - D @ (x0[:, None] if x0.ndim == 1 else x0)
            if m + 1 > D.shape[0]:
                return False                         # more iterations than dimensions: exhaustion by construction
            k = m + 1
            for j in range(V.shape[1]):
                cols, v = [], V[:, j].astype(D.dtype if D.dtype.kind == "c" else np.result_type(D.dtype, V.dtype))
                for _ in range(k):
                    nv = np.linalg.norm(v)
                    if not (nv > 0 and np.isfinite(nv)):
                        return False
                    v = v / nv
                    cols.append(v)
                    v = D @ v
                ks = np.linalg.svd(np.stack(cols, axis=1), compute_uv=False)
                if not (ks[-1] > 1e-4 * ks[0]):
                    return False
        return True
    except Exception:  # noqa: BLE001
        return False


def hpd_operand(env, A, V=None, m=0):
    """A truthfully annotated Hermitian positive definite operator built FROM A for the routines cola only accepts on
    SelfAdjoint / PSD operators (Lanczos, CG).  A itself when it already carries the annotation PSD, its rule does not
    distribute the algorithm to un-annotated members and the problem is well posed; else PSD(Aᴴ A + M) with the caller-owned
    dense symmetric positive definite partner M — a Sum (no structural rule, so the iterative algorithm really runs) that is positive definite
    whatever A is, and whose every product goes through A's own _matmat and _rmatmat / transpose."""
    if A.isa(_PSD) and _base_name(A) not in DISTRIBUTING and well_posed(A, V, m):
        return A
    return cola.PSD(A.H @ A + env.partner("dense", _n(A)))


def regular_operand(env, A, V=None, m=0, x0=None):
    """A itself when solving with it is well posed (see `well_posed`), else the regularised Aᴴ A + M built from A (M the dense
    symmetric positive definite partner: unit vectors are not eigenvectors of it, unlike for a diagonal shift)"""
    if well_posed(A, V, m, x0):
        return A
    return A.H @ A + env.partner("dense", _n(A))


def x0_unfit(A):
    """inv(A, alg) hands `alg` (and with it an x0 of size n) to members of another size: Kronecker / BlockDiag, also below a
    Product / Transpose / Adjoint whose inv rule passes `alg` on"""
    b = _base_name(A)
    if b in ("Kronecker", "BlockDiag"):
        return True
    if b == "Product":
        return any(x0_unfit(M) for M in A.Ms)
    if b in ("Transpose", "Adjoint"):
        return x0_unfit(A.A)
    return False


def contains_kind(A, names, depth=0):
    if _base_name(A) in names:
        return True
    if depth > 8:
        return False
    for x in vars(A).values():
        for y in (x if isinstance(x, (tuple, list)) else [x]):
            if isinstance(y, LinearOperator) and contains_kind(y, names, depth + 1):
                return True
    return False


def hermitian_pd(A):
    """is the represented matrix exactly Hermitian and positive definite? (so that cola.PSD(A) is a TRUE declaration)"""
    try:
        D = _dense_of(A)
        if D.ndim != 2 or D.shape[0] != D.shape[1] or not np.all(np.isfinite(D)) or not np.array_equal(D, D.conj().T):
            return False
        w = np.linalg.eigvalsh(D)
        return bool(w[0] > 1e-8 * max(1.0, abs(w[-1])))
    except Exception:  # noqa: BLE001
        return False


OPS = {}


def op(name):
    def deco(f):
        OPS[name] = f
        return f
    return deco


@op("matvec")
def _(env, A, last):
    return A @ _rhs(env, A, last)


@op("matmat")
def _(env, A, last):
    return A @ env.arr[f"B{_n(A)}"]


@op("rmatvec")
def _(env, A, last):
    return env.arr[f"b{A.shape[0]}"] @ A


@op("rmatmat")
def _(env, A, last):
    return env.arr[f"V{A.shape[0]}"] @ A


@op("T")
def _(env, A, last):
    return A.T


@op("H")
def _(env, A, last):
    return A.H


@op("add")
def _(env, A, last):
    return A + env.partner("dense", _n(A))


@op("sub")
def _(env, A, last):
    return A - env.partner("diag", _n(A))


@op("smul")
def _(env, A, last):
    return 2.5 * A


@op("neg_div")
def _(env, A, last):
    return (-A) / 4.0


@op("prod")
def _(env, A, last):
    return A @ env.partner("dense", _n(A))


@op("kron")
def _(env, A, last):
    if _n(A) * 2 > SIZES[-1]:
        raise NotApplicable("size")
    return cola.kron(env.partner("two", 2), A)


@op("kronsum")
def _(env, A, last):
    if _n(A) * 2 > SIZES[-1]:
        raise NotApplicable("size")
    return cola.kronsum(env.partner("two", 2), A)


@op("PSD")
def _(env, A, last):
    # the declaration must be TRUE (a false PSD sends solve / logdet into a Cholesky that raises): A when its matrix is Hermitian
    # positive definite, else the positive definite Aᴴ A + M built from A
    return cola.PSD(A) if hermitian_pd(A) else cola.PSD(A.H @ A + env.partner("dense", _n(A)))


@op("to_dense")
def _(env, A, last):
    return A.to_dense()


@op("flatten")
def _(env, A, last):
    leaves, unflatten = A.flatten()
    return unflatten(leaves)


@op("to")
def _(env, A, last):
    return A.to(None)


@op("to_dev")
def _(env, A, last):
    # a device move; raises for every kind holding arrays on the NumPy backend (move_to).  Regression for the repaired
    # identity-to-mutates-receiver (/repo aef9931): Identity.to must return a NEW operator and leave the receiver alone
    return A.to("cpu")


@op("to_dtype")
def _(env, A, last):
    # "WARNING: dtype change is not supported yet" (it casts integer index arrays as well): only the inputs matter here, the
    # result is not kept as the next operand
    A.to(None, np.float32)
    return None


@op("getitem_ij")
def _(env, A, last):
    return np.asarray(A[1, 2])


@op("getitem_col")
def _(env, A, last):
    return A[:, 1]


@op("getitem_row")
def _(env, A, last):
    return A[2]


@op("slice")
def _(env, A, last):
    return A[0:_n(A), 0:_n(A):1]


@op("index")
def _(env, A, last):
    return A[env.arr[f"idx{A.shape[0]}"], env.arr[f"jdx{_n(A)}"]]


@op("diag")
def _(env, A, last):
    return cola.diag(A)


@op("diag1")
def _(env, A, last):
    # the structural rules of Kronecker / KronSum / BlockDiag refuse k != 0 by assertion at their first line ("Need to verify
    # correctness of rule for off diagonal case"): there the documented way round dispatch, the generic rule on A's own _matmat
    if contains_kind(A, ("Kronecker", "KronSum", "BlockDiag")):
        return cola.diag(cola.no_dispatch(A), k=1)
    return cola.diag(A, k=1)


@op("trace")
def _(env, A, last):
    return np.asarray(cola.trace(A))


@op("solve")
def _(env, A, last):
    return cola.solve(regular_operand(env, A), _rhs(env, A, last))


@op("inv")
def _(env, A, last):
    return cola.inv(A)


@op("inv_cg")
def _(env, A, last):
    rhs = _rhs(env, A, last)
    Ai = cola.inv(hpd_operand(env, A, rhs, 0), env.alg("cg", _n(A)))
    return Ai @ rhs


@op("inv_gmres")
def _(env, A, last):
    # The inv rules of Kronecker / BlockDiag (also below a Product / Transpose / Adjoint) pass `alg` on to members of another
    # size: an x0 of size n does not fit them, and the members' systems (m >= their dimension, zero columns of the reshaped
    # right-hand side: recorded C06 gmres-zero-rhs-column / gmres-krylov-breakdown) are not this property's subject — there, and
    # where A is numerically singular or its Krylov space is exhausted, GMRES runs on the regularised Sum Aᴴ A + M built from A
    rhs = _rhs(env, A, last)
    R = A.H @ A + env.partner("dense", _n(A)) if x0_unfit(A) else regular_operand(env, A, rhs, 3, env.arr[f"x0{_n(A)}"])
    Ai = cola.inv(R, env.alg("gmres", _n(A)))
    return Ai @ rhs


@op("cg")
def _(env, A, last):
    x, _info = real_cg(A, _rhs(env, A, last), x0=env.arr[f"x0{_n(A)}"], max_iters=5, tol=1e-10)
    return x


@op("cg_block")
def _(env, A, last):
    x, _info = real_cg(A, env.arr[f"B{_n(A)}"], x0=env.arr[f"X0{_n(A)}"], P=env.partner("diag", _n(A)), max_iters=5,
                       tol=1e-10)
    return x


@op("gmres")
def _(env, A, last):
    rhs = _rhs(env, A, last)
    x, _info = real_gmres(regular_operand(env, A, rhs, 3, env.arr[f"x0{_n(A)}"]), rhs, x0=env.arr[f"x0{_n(A)}"], max_iters=3, tol=1e-10)
    return x


@op("gmres_tri")
def _(env, A, last):
    x, _info = real_gmres(A, env.arr[f"b{_n(A)}"], x0=env.arr[f"x0{_n(A)}"], max_iters=3, tol=1e-10,
                          use_triangular=True, use_householder=True)
    return x


@op("lanczos")
def _(env, A, last):
    Q, T, _info = real_lanczos(A, start_vector=env.arr[f"v{_n(A)}"], max_iters=3, tol=1e-12)
    return (Q, T)


@op("arnoldi")
def _(env, A, last):
    Q, H, _info = real_arnoldi(A, start_vector=env.arr[f"v{_n(A)}"], max_iters=3, tol=1e-12)
    return (Q, H)


@op("arnoldi_hh")
def _(env, A, last):
    Q, H, _info = real_arnoldi(A, start_vector=env.arr[f"v{_n(A)}"], max_iters=3, tol=1e-12, use_householder=True)
    return (Q, H)


@op("eig")
def _(env, A, last):
    return cola.eig(A, k=2)


@op("eig_arnoldi")
def _(env, A, last):
    return cola.eig(A, 2, "LM", env.alg("arnoldi", _n(A)))


@op("exp_lanczos")
def _(env, A, last):
    b = env.arr[f"b{_n(A)}"]
    return cola.exp(hpd_operand(env, A, b, 3), env.alg("lanczos_sv", _n(A))) @ b


@op("sqrt_lanczos")
def _(env, A, last):
    B = env.arr[f"B{_n(A)}"]
    return cola.sqrt(hpd_operand(env, A, B, 3), env.alg("lanczos", _n(A))) @ B


def _b_and_units(env, A):
    n = _n(A)
    return np.concatenate([env.arr[f"b{n}"][:, None], np.eye(n)], axis=1)


@op("lanczos_fn")
def _(env, A, last):
    # the LanczosUnary operator itself (returned to the caller; later products update its info: LIB_STATE; its kwargs and flatten() leaves must stay — KWARGS_REGRESSION)
    return cola.exp(hpd_operand(env, A, _b_and_units(env, A), 3), env.alg("lanczos_sv", _n(A)))


@op("arnoldi_fn")
def _(env, A, last):
    # always the Hermitian positive definite Aᴴ A + M: ArnoldiUnary diagonalises the projected H and solves with its eigenvector
    # matrix, which is singular for a defective H (unit start vectors under a Permutation give a nilpotent shift)
    return cola.exp(A.H @ A + env.partner("dense", _n(A)), env.alg("arnoldi", _n(A)))


@op("inv_cg_op")
def _(env, A, last):
    return cola.inv(hpd_operand(env, A, _b_and_units(env, A), 0), env.alg("cg", _n(A)))


@op("exp_auto")
def _(env, A, last):
    # a caller-owned Auto(...) namespace: apply_unary / inv read alg.__dict__
    return cola.exp(A, env.alg("auto", _n(A))) @ env.arr[f"b{_n(A)}"]


@op("exp")
def _(env, A, last):
    return cola.exp(A)


@op("logdet")
def _(env, A, last):
    return np.asarray(cola.logdet(A))


ALPHABET = list(OPS)
USES_LAST = {"matvec", "solve", "inv_cg", "inv_gmres", "cg", "gmres"}


class NotApplicable(Exception):
    pass


# =============================================================================================
# running one history on one focus kind
# =============================================================================================
def _explain(s0, s1):
    if s0[0] != s1[0]:
        return f"class/shape/dtype/annotations/device: {s0[0]} -> {s1[0]}"
    if s0[1] != s1[1]:
        return "attributes: " + _struct_diff(s0[1], s1[1])
    return "to_dense bytes"


def _only_device(s0, s1):
    """the two snapshots differ in the `device` of the operator itself and in nothing else"""
    h0, h1 = s0[0], s1[0]
    if h0[:4] != h1[:4] or h0[4] == h1[4] or s0[2] != s1[2]:
        return False

    def drop(t):
        if isinstance(t, tuple) and len(t) == 3 and t[0] == "o":
            return ("o", t[1], tuple((k, v) for k, v in t[2] if k != "device"))
        return t
    return drop(s0[1]) == drop(s1[1])


def _struct_diff(a, b, path=""):
    if a == b:
        return ""
    if isinstance(a, tuple) and isinstance(b, tuple) and a and b and a[0] == b[0] == "o" and a[1] == b[1]:
        da, db = dict(a[2]), dict(b[2])
        for k in sorted(set(da) | set(db)):
            if da.get(k) != db.get(k):
                if k in da and k in db:
                    return _struct_diff(da[k], db[k], path + "." + k)
                return f"{path}.{k} {'removed' if k in da else 'added'}"
    if isinstance(a, tuple) and isinstance(b, tuple) and len(a) == len(b):
        for i, (x, y) in enumerate(zip(a, b)):
            if x != y and isinstance(x, tuple) and isinstance(y, tuple):
                return _struct_diff(x, y, path + f"[{i}]")
    return f"{path}: {str(a)[:80]} -> {str(b)[:80]}"


def _lib_ops(v, out=None, depth=0):
    """operators of the three LIB_STATE classes inside a value cola returned"""
    out = [] if out is None else out
    if isinstance(v, LinearOperator) and depth < 8:
        if _base_name(v) in LIB_STATE:
            out.append(v)
        for x in vars(v).values():
            _lib_ops(x, out, depth + 1)
    elif isinstance(v, (tuple, list)):
        for x in v:
            _lib_ops(x, out, depth + 1)
    elif isinstance(v, dict):
        for x in v.values():
            _lib_ops(x, out, depth + 1)
    return out


def _lib_fields(op):
    """{(position, "<Class>.<field>[<entry>]"): snapshot} of everything LIB_STATE excludes inside `op`"""
    out = {}
    for i, o in enumerate(_lib_ops(op)):
        b = _base_name(o)
        for fld, sub in LIB_STATE[b].items():
            x = vars(o).get(fld)
            if sub is None:
                out[(i, f"{b}.{fld}")] = struct_snap(x, skip=False) if not isinstance(x, dict) else ("keys",) + tuple(sorted(map(str, x)))
            elif isinstance(x, dict):
                for e in sub:
                    out[(i, f"{b}.{fld}[{e!r}]")] = ("present",) if e in x else ("absent",)
    return out


def _has_lib_state(op):
    return bool(_lib_ops(op))


class Env(EnvBase):
    """EnvBase + the bookkeeping of one history: which operator values the caller holds"""

    lib_changes = None

    def reset(self):
        self.produced = []          # [(label, operator, snapshot, full snapshot | None)] operator values returned by earlier steps
        self.dirty = False
        self.lib0 = {}
        self.sig0 = {}
        if self.lib_changes is None:
            self.lib_changes = {}       # "<Class>.<field>" -> how often the LIB_STATE exclusion hid a change (evidence)

    def hold(self, label, op):
        has_lib = _has_lib_state(op)
        # the exclusion is applied only while the excluded containers are objects cola allocated; if one of them IS a caller-owned
        # object (e.g. the __dict__ of the caller's Algorithm), nothing is excluded for this operator
        skip = has_lib and not any(lib_state_is_fresh(o, self) for o in _lib_ops(op))
        if has_lib and not skip:
            self.lib_changes["shared-with-caller"] = self.lib_changes.get("shared-with-caller", 0) + 1
        # the library-owned state as it was when the operator was RETURNED (recorded by apply_op, before any fingerprint /
        # snapshot: their to_dense() is itself a product with the operator and already fills info)
        lib0 = (self.lib0.pop(id(op), None) or _lib_fields(op)) if skip else None
        sig0 = self.sig0.pop(id(op), None) or leaf_sig(op)
        self.produced.append((label, op, snap_op(op, skip=skip), lib0, skip, sig0))

    def check(self, step, involved, full=False):
        """-> differences between the caller's values and their snapshots.  After every operation:
        ALL caller-owned arrays by bytes (the arrays the pool operators were built from are among
        them), and class/shape/dtype/annotations/device + deep attribute snapshot + to_dense() bytes of
        the operators involved so far (focus operator, partners, every operator an earlier step
        returned).  With `full` (end of the history): the same for EVERY pool operator."""
        diffs = []
        for k, x in self.arr.items():
            if snap_array(x) != self.snap_arr[k]:
                s0 = self.snap_arr[k]
                diffs.append({"what": "caller-owned array changed", "array": k, "step": step,
                              "before": np.frombuffer(s0[2], dtype=s0[0]).tolist()[:8], "after": x.ravel().tolist()[:8]})
        for k, o in list(self.pool.items()) + list(self.partners.items()):
            if not (full or k in involved):
                continue
            s0 = self.snap_ops[k]
            s1 = snap_op(o, skip=False)            # caller-constructed: nothing excluded
            if s1 != s0:
                diffs.append({"what": "pool operator changed", "operator": str(k), "step": step, "field": _explain(s0, s1),
                              "class": type(o).__name__, "only_device": _only_device(s0, s1)})
        for k, a in self.algs.items():
            s1 = alg_snap(a)
            if s1 != self.snap_algs[k]:
                s0 = self.snap_algs[k]
                diffs.append({"what": "caller-owned Algorithm object changed", "operator": str(k), "step": step,
                              "field": _struct_diff(s0[0], s1[0]) or
                              "a field was rebound to another object: " + str([a_[0] for a_, b_ in zip(s0[1], s1[1]) if a_ != b_] or "field set changed")})
        for i, (label, o, s0, full0, skip, sig0) in enumerate(self.produced):
            s1 = snap_op(o, skip=skip)
            sig1 = leaf_sig(o)
            if sig1 != sig0:
                diffs.append({"what": "flatten() leaves of an operator changed after it was returned to the caller", "operator": label,
                              "step": step, "field": f"{len(sig0)} leaves when returned, {len(sig1)} now", "class": type(o).__name__})
            elif s1 != s0:
                diffs.append({"what": "an operator changed after it was returned to the caller", "operator": label,
                              "step": step, "field": _explain(s0, s1), "class": type(o).__name__, "only_device": _only_device(s0, s1)})
            elif full0 is not None:
                # the exclusion of library-owned state (LIB_STATE) is measured, never silent
                full1 = _lib_fields(o)
                if full1 != full0:
                    for key in sorted(set(full0) | set(full1)):
                        if full0.get(key) != full1.get(key):
                            self.lib_changes[key[1]] = self.lib_changes.get(key[1], 0) + 1
                    self.produced[i] = (label, o, s0, full1, skip, sig0)
        if diffs:
            self.dirty = True
        return diffs


# Operations that raise BY DESIGN of cola on (most of) the pool; they stay in the stream for the exception path (an operation that
# raises half-way must not have modified its inputs either) and the class of the exception is compared with `predict`.
EXPECTED_RAISING = {
    "to_dev": "xnp.move_to refuses a device argument on the NumPy backend: every operator with an array leaf raises RuntimeError",
    "gmres_tri": "same path as arnoldi_hh; defined, but in no alphabet: it never runs",
    "arnoldi_hh": "run_householder_arnoldi permutes a 2-D array with 3 axes: use_householder=True raises ValueError on every input",
}


def predict(name, A):
    """The exception class the call is EXPECTED to end in on operand A (decided from the operand before the call), or None when
    it must succeed.  Everything else that is raised is an unpredicted outcome and reported."""
    base = _base_name(A)
    if name in ("gmres_tri", "arnoldi_hh"):
        return "ValueError"
    if name == "to_dev":
        if base == "Identity":
            return None                      # Identity.to builds a new Identity
        with warnings.catch_warnings():
            warnings.simplefilter("ignore")
            return "RuntimeError" if any(isinstance(x, np.ndarray) for x in A.flatten()[0]) else None
    if name == "to_dtype" and base == "Identity":
        return "TypeError"                   # Identity.to(device) has no dtype parameter (LinearOperator.to(device, dtype) has)
    return None


def apply_op(env, name, A, last):
    """-> (status, result).  status 'ok' | 'skip' (the GENERATOR does not apply the operation here: size limit) | 'raise' (the call
    ended in the exception class `predict` names; result = class name) | 'unpredicted' (any other exception; result = class
    name).  A predicted exception that does not happen is recorded in env.surprises and the result used as 'ok'."""
    with warnings.catch_warnings():
        warnings.simplefilter("ignore")
        with np.errstate(all="ignore"):
            try:
                pred = predict(name, A)
            except Exception as ex:  # noqa: BLE001
                pred = f"predict failed: {type(ex).__name__}"
            try:
                res = OPS[name](env, A, last)
            except NotApplicable:
                return "skip", "NotApplicable"
            except Exception as ex:  # noqa: BLE001
                got = type(ex).__name__
                if got == pred:
                    return "raise", got
                env.surprises.append({"op": name, "operand_class": type(A).__name__, "annotations": list(ann_names(A)),
                                      "predicted": pred or "success", "raised": got, "message": str(ex)[:200]})
                return "unpredicted", got
            if pred is not None:
                env.surprises.append({"op": name, "operand_class": type(A).__name__, "annotations": list(ann_names(A)),
                                      "predicted": pred, "raised": "nothing (the call succeeded)"})
            for r in (res if isinstance(res, (tuple, list)) else [res]):
                if isinstance(r, LinearOperator):
                    env.sig0[id(r)] = leaf_sig(r)          # before any fingerprint / snapshot (their to_dense() USES the operator)
                    if _has_lib_state(r):
                        env.lib0[id(r)] = _lib_fields(r)
            return "ok", res


def _stat(st, res):
    return st if st in ("ok", "skip") else f"{st}:{res}"


def run_history(history, kind, env, full_end=False):
    """Runs the history (list of operation names) with focus operator pool[kind] in `env`.
    -> dict(evals, statuses, touched, failures=[...]).  `env.dirty` is set when something changed
    (the caller must then use a new Env).  `touched`: some applicable operation of the history was
    handed at least one caller-owned array (right-hand side, x0, start vector, index array)."""
    env.reset()
    A, last = env.pool[kind], None
    failures, evals, statuses = [], 0, []
    involved = {kind}
    first = None
    touched = False
    for step, name in enumerate(history):
        env.used = set()
        env.arr.touched = set()
        st, res = apply_op(env, name, A, last)
        evals += 1
        involved |= env.used
        if st == "ok" and (env.arr.touched or (isinstance(last, np.ndarray) and name in USES_LAST)):
            touched = True
        statuses.append(_stat(st, res))
        if step == 0:
            first = (st, fingerprint(res) if st == "ok" else res)
        if st == "ok":
            for r in (res if isinstance(res, (tuple, list)) else [res]):
                if isinstance(r, LinearOperator):   # a value the caller now holds
                    env.hold(f"step{step}:{name}", r)
            r0 = res[0] if isinstance(res, (tuple, list)) and len(res) else res
            if isinstance(r0, LinearOperator) and len(r0.shape) == 2 and r0.shape[0] == r0.shape[1] and r0.shape[0] in SIZES \
                    and r0.device == env.pool[kind].device:       # (operands on different devices cannot be combined)
                A = r0
            elif isinstance(r0, np.ndarray):
                last = r0
        d = env.check(step, involved)
        if d:
            failures.extend(d)
            break
    if not failures and history:
        # repeatability: the first call again, on the original operand
        st, res = apply_op(env, history[0], env.pool[kind], None)
        evals += 1
        again = (st, fingerprint(res) if st == "ok" else res)
        if again != first:
            env.dirty = True
            failures.append({"what": "repeating the first call gives a different result", "step": len(history),
                             "first": _short(first), "again": _short(again)})
        else:
            failures.extend(env.check(len(history), involved, full=full_end))
    return {"evals": evals, "statuses": statuses, "failures": failures, "touched": touched}


def run_tree(prefix, conts, kind, env):
    """All histories prefix + (c,) for c in conts, sharing the evaluation of the prefix (thorough tier, exhaustive length 3).
    Exactly the comparisons of `run_history` are made for every one of them — snapshots of everything the caller holds after
    every operation, the first call repeated after each complete history — the operations of the prefix are merely not
    re-evaluated for every continuation, which is sound as long as nothing changed (every comparison so far was clean); at the
    first difference the remaining continuations are run one by one with `run_history` in fresh environments.
    -> dict(evals, per_history: {history: (statuses, touched)}, failures: [{history, failures}])"""
    env.reset()
    A, last = env.pool[kind], None
    out = {"evals": 0, "per": {}, "failures": []}
    involved = {kind}
    statuses, touched, first = [], False, None
    for step, name in enumerate(prefix):
        env.used = set()
        env.arr.touched = set()
        st, res = apply_op(env, name, A, last)
        out["evals"] += 1
        involved |= env.used
        if st == "ok" and (env.arr.touched or (isinstance(last, np.ndarray) and name in USES_LAST)):
            touched = True
        statuses.append(_stat(st, res))
        if step == 0:
            first = (st, fingerprint(res) if st == "ok" else res)
        if st == "ok":
            for r in (res if isinstance(res, (tuple, list)) else [res]):
                if isinstance(r, LinearOperator):
                    env.hold(f"step{step}:{name}", r)
            r0 = res[0] if isinstance(res, (tuple, list)) and len(res) else res
            if isinstance(r0, LinearOperator) and len(r0.shape) == 2 and r0.shape[0] == r0.shape[1] and r0.shape[0] in SIZES \
                    and r0.device == env.pool[kind].device:       # (operands on different devices cannot be combined)
                A = r0
            elif isinstance(r0, np.ndarray):
                last = r0
        d = env.check(step, involved)
        if d:
            # the prefix itself fails: every history of the group fails the same way (reported once, for the prefix)
            out["failures"].append({"history": list(prefix[:step + 1]), "failures": d})
            for c in conts:
                out["per"][tuple(prefix) + (c,)] = (statuses + ["skipped"], touched)
            return out
    base = len(env.produced)
    step = len(prefix)
    for ci, c in enumerate(conts):
        h = tuple(prefix) + (c,)
        env.used = set()
        env.arr.touched = set()
        st, res = apply_op(env, c, A, last)
        out["evals"] += 1
        inv_c = involved | env.used
        t_c = touched or (st == "ok" and bool(env.arr.touched or (isinstance(last, np.ndarray) and c in USES_LAST)))
        if st == "ok":
            for r in (res if isinstance(res, (tuple, list)) else [res]):
                if isinstance(r, LinearOperator):
                    env.hold(f"step{step}:{c}", r)
        fails = env.check(step, inv_c)
        if not fails:
            st2, res2 = apply_op(env, prefix[0], env.pool[kind], None)
            out["evals"] += 1
            again = (st2, fingerprint(res2) if st2 == "ok" else res2)
            if again != first:
                env.dirty = True
                fails = [{"what": "repeating the first call gives a different result", "step": step + 1,
                          "first": _short(first), "again": _short(again)}]
            else:
                fails = env.check(step + 1, inv_c)
        out["per"][h] = (statuses + [_stat(st, res)], t_c)
        env.produced = env.produced[:base]
        if fails:
            out["failures"].append({"history": list(h), "failures": fails})
            # state may be damaged: the remaining continuations one by one, each in a fresh environment
            for c2 in conts[ci + 1:]:
                h2 = tuple(prefix) + (c2,)
                r = run_history(list(h2), kind, Env(), full_end=True)
                out["evals"] += r["evals"]
                out["per"][h2] = (r["statuses"], r["touched"])
                if r["failures"]:
                    out["failures"].append({"history": list(h2), "failures": r["failures"]})
            env.dirty = True
            return out
    return out


def _short(fp):
    s = repr(fp)
    return s if len(s) < 300 else s[:300] + "..."


# =============================================================================================
# (a) exhaustive short histories, random longer ones
# =============================================================================================
# the alphabet of the exhaustive part (32 operations); the remaining operations of OPS (variants of
# these) only take part in the random longer histories
SHORT_ALPHABET = ["matvec", "matmat", "rmatvec", "T", "H", "add", "sub", "smul", "prod", "kron", "PSD", "to_dense",
                  "flatten", "to", "getitem_ij", "getitem_col", "slice", "index", "diag", "trace", "solve", "inv_cg",
                  "inv_gmres", "cg", "cg_block", "gmres", "lanczos", "arnoldi", "eig", "exp_lanczos", "sqrt_lanczos",
                  "logdet"]
# `exp` / `inv` return lazily nested operators (V D V^-1, U^-1 L^-1 P^-1); every further operation on them creates new
# parametrised classes whose dispatch resolution in plum costs 50-300 ms, so they take part in dedicated pairs only
# the device move takes part in dedicated short histories and in the random long ones
DEVICE_MOVES = [("to_dev",), ("to_dev", "matvec"), ("matvec", "to_dev"), ("T", "to_dev"), ("to_dev", "flatten")]
HEAVY = ["exp", "inv", "exp_auto", "lanczos_fn", "arnoldi_fn", "inv_cg_op"]
HEAVY_FOLLOW = ["matvec", "flatten", "PSD", "cg"]
# operators that carry library-owned mutable state (LIB_STATE): returned to the caller, then used twice / flattened after use
STATEFUL = ["lanczos_fn", "arnoldi_fn", "inv_cg_op"]
# regression of /repo 7ca2ac5 (LanczosUnary / ArnoldiUnary._matmat popped kwargs['start_vector']): on the pool kind `psd`
# `lanczos_fn` is exactly F = cola.exp(cola.PSD(Dense(M)), cola.Lanczos(start_vector=v, max_iters=3)); then F @ b; F must keep its
# attributes and its flatten() leaves
KWARGS_REGRESSION = [("lanczos_fn", "matvec"), ("arnoldi_fn", "matvec"), ("lanczos_fn", "matvec", "flatten")]
STATEFUL_FOLLOW = [("matvec", "matvec"), ("matmat", "flatten"), ("matvec", "T"), ("add", "matvec"), ("matvec", "to_dense")]
LONG_ALPHABET = [o for o in ALPHABET if o not in ("gmres_tri",) and o not in HEAVY]

# operation kinds (strata of the quick tier's length-3 sample): every operation of the short alphabet belongs to exactly one
STRATA = {
    "apply": ["matvec", "matmat", "rmatvec"],
    "algebra": ["T", "H", "add", "sub", "smul", "prod", "kron", "PSD"],
    "convert": ["to_dense", "flatten", "to"],
    "index": ["getitem_ij", "getitem_col", "slice", "index"],
    "reduce": ["diag", "trace", "logdet"],
    "solve": ["solve", "inv_cg", "inv_gmres", "cg", "cg_block", "gmres"],
    "krylov": ["lanczos", "arnoldi", "eig", "exp_lanczos", "sqrt_lanczos"],
}
assert sorted(o for v in STRATA.values() for o in v) == sorted(SHORT_ALPHABET), "STRATA must partition SHORT_ALPHABET"

_ENV = None


def _get_env():
    global _ENV
    if _ENV is None or _ENV.dirty:
        _ENV = Env()
    return _ENV


_BUCKET = {"ok": 0, "raise": 1, "unpredicted": 2, "skip": 3}


def _count(table, name, st):
    table.setdefault(name, [0, 0, 0, 0])[_BUCKET[st.split(":")[0]]] += 1


def _drain(env, out, where):
    """moves the unpredicted outcomes and the counts of hidden library-owned state changes of `env` into the chunk's result"""
    for x in env.surprises:
        if len(out["surprises"]) < 20:
            out["surprises"].append(dict(x, **where))
        out["n_surprises"] += 1
    env.surprises = []
    for k, v in (env.lib_changes or {}).items():
        out["lib_changes"][k] = out["lib_changes"].get(k, 0) + v
    env.lib_changes = {}


def _work(chunk):
    """chunk: list of histories (tuples).  Every history runs on every kind of the pool, in one
    persistent environment (a change that survives a history is caught by the full comparison at
    the end of the chunk and then attributed by re-running the chunk history by history)."""
    global _ENV
    out = {"evals": 0, "runs": 0, "touched": [], "status": {}, "failures": [], "surprises": [], "n_surprises": 0, "lib_changes": {}}
    env = _get_env()
    if chunk and chunk[0] == "tree":
        # ("tree", prefix, continuations): the exhaustive length-3 group of one prefix
        _tag, prefix, conts = chunk
        hs = [tuple(prefix) + (c,) for c in conts]
        t_any = {h: False for h in hs}
        for kind in KINDS:
            r = run_tree(tuple(prefix), list(conts), kind, env)
            out["evals"] += r["evals"]
            out["runs"] += len(conts)
            for h, (sts, t) in r["per"].items():
                t_any[h] = t_any[h] or t
                for name, st in zip(h, sts):
                    if st != "skipped":
                        _count(out["status"], name, st)
            for f in r["failures"]:
                out["failures"].append({"history": f["history"], "kind": kind, "failures": f["failures"][:3]})
            _drain(env, out, {"history": list(prefix) + ["*"], "kind": kind})
            if r["failures"] or env.dirty:
                env = _ENV = Env()
        out["touched"] = [t_any[h] for h in hs]
        d = env.check(-1, set(), full=True)
        if d:
            env = _ENV = Env()
            out["failures"].append({"history": [list(h) for h in hs], "kind": "*", "failures": d[:3], "chunk": True})
        return out
    for h in chunk:
        t_any = False
        for kind in KINDS:
            r = run_history(list(h), kind, env)
            out["evals"] += r["evals"]
            out["runs"] += 1
            t_any = t_any or r["touched"]
            for name, st in zip(h, r["statuses"]):
                _count(out["status"], name, st)
            _drain(env, out, {"history": list(h), "kind": kind})
            if r["failures"]:
                out["failures"].append({"history": list(h), "kind": kind, "failures": r["failures"][:3]})
                env = _ENV = Env()
        out["touched"].append(t_any)
    d = env.check(-1, set(), full=True)
    if d:
        # something changed that the per-step comparison of the involved operators did not see
        env = _ENV = Env()
        found = False
        for h in chunk:
            for kind in KINDS:
                e2 = Env()
                r = run_history(list(h), kind, e2, full_end=True)
                if r["failures"]:
                    out["failures"].append({"history": list(h), "kind": kind, "failures": r["failures"][:3]})
                    found = True
        if not found:
            out["failures"].append({"history": [list(h) for h in chunk], "kind": "*", "failures": d[:3], "chunk": True})
    return out


def _stratum(o):
    for k, v in STRATA.items():
        if o in v:
            return k
    return "other"


def all_histories(ctx):
    rng = random.Random(ctx.seed)
    A = SHORT_ALPHABET
    hs = [(a,) for a in A] + list(itertools.product(A, A))
    hs += [(h,) for h in HEAVY] + [(h, x) for h in HEAVY for x in HEAVY_FOLLOW]
    hs += [(h,) + f for h in STATEFUL for f in STATEFUL_FOLLOW]
    hs += [h for h in KWARGS_REGRESSION if h not in hs]
    hs += DEVICE_MOVES
    n_ex2 = len(hs)
    if ctx.thorough:
        l3 = list(itertools.product(A, A, A))      # EXHAUSTIVE: every history of length <= 3 over the short alphabet
    else:
        # stratified: one history for every ordered triple of operation KINDS (7^3 = 343), the representative of each kind
        # drawn at random; every operation of the alphabet is forced to occur in each of the three positions at least once
        ks = sorted(STRATA)
        l3 = {tuple(rng.choice(STRATA[k]) for k in kt) for kt in itertools.product(ks, ks, ks)}
        for pos in range(3):
            for o in A:
                if not any(h[pos] == o for h in l3):
                    h = [rng.choice(A) for _ in range(3)]
                    h[pos] = o
                    l3.add(tuple(h))
        l3 = sorted(l3)
    n_long = 1500 if ctx.thorough else 60
    longs = [tuple(rng.choice(LONG_ALPHABET) for _ in range(rng.randint(4, 8))) for _ in range(n_long)]
    return hs, l3, longs, n_ex2


def shrink(history, kind, what):
    """delete operations while the same kind of failure persists"""
    def fails(h):
        r = run_history(list(h), kind, Env(), full_end=True)
        return [f for f in r["failures"] if f["what"] == what]
    cur = list(history)
    f0 = fails(cur)
    if not f0:
        return cur, None
    changed = True
    while changed and len(cur) > 1:
        changed = False
        for i in range(len(cur)):
            cand = cur[:i] + cur[i + 1:]
            f = fails(cand)
            if f:
                cur, f0, changed = cand, f, True
                break
    return cur, f0[0]


def part_a(ctx, cov):
    hs, l3, longs, n_ex2 = all_histories(ctx)
    allh = hs + l3 + longs
    # long histories are slower: small chunks, shuffled for balance
    heavy = [h for h in allh if any(o in HEAVY for o in h)]
    light = [h for h in allh if not any(o in HEAVY for o in h)]
    trees = []
    if ctx.thorough:
        # exhaustive length 3: one task per prefix (a, b) with all 32 continuations, the prefix evaluated once (run_tree)
        l3set = set(l3)
        light = [h for h in light if not (len(h) == 3 and h in l3set)]
        for a in SHORT_ALPHABET:
            for b in SHORT_ALPHABET:
                trees.append(("tree", (a, b), tuple(SHORT_ALPHABET)))
    chunks = [light[i:i + 6] for i in range(0, len(light), 6)] + trees
    random.Random(ctx.seed).shuffle(chunks)
    chunks = [[h] for h in heavy] + chunks     # slow ones first, one per task
    t0 = time.time()
    agg = {"evals": 0, "runs": 0, "status": {}, "failures": [], "surprises": [], "n_surprises": 0, "lib_changes": {}}
    touched = {}
    with mp.get_context("fork").Pool(min(16, os.cpu_count() or 1)) as pool:
        for chunk, out in zip(chunks, pool.imap(_work, chunks, chunksize=1)):
            agg["evals"] += out["evals"]
            agg["runs"] += out["runs"]
            for k, v in out["status"].items():
                d = agg["status"].setdefault(k, [0, 0, 0, 0])
                for i in range(4):
                    d[i] += v[i]
            agg["n_surprises"] += out["n_surprises"]
            agg["surprises"].extend(out["surprises"][:max(0, 12 - len(agg["surprises"]))])
            for k, v in out["lib_changes"].items():
                agg["lib_changes"][k] = agg["lib_changes"].get(k, 0) + v
            agg["failures"].extend(out["failures"])
            hs_of_chunk = [tuple(chunk[1]) + (c,) for c in chunk[2]] if chunk and chunk[0] == "tree" else chunk
            for h, t in zip(hs_of_chunk, out["touched"]):
                touched[h] = touched.get(h, False) or t
    distinct = {h for h in allh}
    nontrivial = {h for h in distinct if len(h) >= 2 and touched.get(h)}
    cov.update({
        "evaluations": agg["evals"],
        "runs_history_x_kind": agg["runs"],
        "distinct_histories": len(distinct),
        "distinct_nontrivial": len(nontrivial),
        "rule": "distinct operation sequences of length >= 2 in which, on at least one pool kind, an applicable operation "
                "(one that did not raise) was handed at least one caller-owned array (right-hand side, x0, start vector, "
                "index array, or the array result of an earlier step)",
        "exhaustive": bool(ctx.thorough),
        "exhaustive_detail": {"alphabet": len(SHORT_ALPHABET), "length_1": len(SHORT_ALPHABET), "length_2": len(SHORT_ALPHABET) ** 2,
                              "length_3": len(l3), "length_3_all": bool(ctx.thorough), "length_3_total": len(SHORT_ALPHABET) ** 3,
                              "length_3_kind_triples_covered": len({tuple(_stratum(o) for o in h) for h in l3}),
                              "length_3_kind_triples_total": len(STRATA) ** 3},
        "explanation": ("thorough: EXHAUSTIVE over all histories of length <= 3 of the 32-operation alphabet (32 + 32^2 + 32^3), each on "
                        "every pool kind" if ctx.thorough else
                        "quick: exhaustive for length <= 2; length 3 is a STRATIFIED sample: one history per ordered triple of operation "
                        "kinds (apply / algebra / convert / index / reduce / solve / krylov: 7^3 = 343 triples, all covered), and every "
                        "operation occurs in every position; the thorough tier is exhaustive for length <= 3"),
        "random_long": {"count": len(longs), "length": "4..8", "alphabet": len(LONG_ALPHABET)},
        "alphabet": SHORT_ALPHABET,
        "long_alphabet_extra": [o for o in LONG_ALPHABET if o not in SHORT_ALPHABET],
        "pool_kinds": KINDS,
        "pool_classes": sorted({type(o).__name__.split("[")[0] for o in Env().pool.values()}),
        "caller_owned_arrays": len(make_arrays()),
        "applicable": {k: {"ok": v[0], "raised_as_predicted": v[1], "unpredicted": v[2], "not_applied_by_generator": v[3],
                           "success_rate": round(v[0] / max(1, v[0] + v[1] + v[2]), 4)} for k, v in sorted(agg["status"].items())},
        "applicable_rule": "per operation, over every (history position x pool kind) it was applied to: ok = returned; raised_as_predicted = "
                           "ended in exactly the exception class `predict` derives from the operand before the call; unpredicted = any "
                           "other outcome (reported, see unpredicted_outcomes); not_applied_by_generator = size limit of kron / kronsum. "
                           "Every operation outside EXPECTED_RAISING must reach success_rate >= 0.9, else the check fails",
        "expected_raising": EXPECTED_RAISING,
        "unpredicted_outcomes": {"count": agg["n_surprises"], "samples": agg["surprises"][:12]},
        "library_owned_state_changes": dict(sorted(agg["lib_changes"].items())),
        "ownership": "caller-owned (compared after every operation, nothing excluded): the arrays of the environment, pool operators and "
                     "partners, Algorithm objects (fields by value and identity, incl. x0 / start_vector / preconditioner P / Auto "
                     "namespaces); library-owned (excluded from the snapshot of an operator cola RETURNED, each hidden difference "
                     "counted in library_owned_state_changes): only `info` of IterativeOperatorWInfo / LanczosUnary / ArnoldiUnary; a "
                     "returned operator's other attributes (incl. `kwargs`) and its flatten() leaves must not change when it is used",
        "samples": [list(h) for h in (hs[40:43] + l3[:2] + longs[:2])],
        "compare": "bytes (tobytes of every caller-owned array after every operation; class/shape/dtype/annotations/device, "
                   "deep attribute snapshot and to_dense bytes of every operator the history touched after every operation, of "
                   "every pool operator at the end of each chunk of 6 histories; first call repeated at the end)",
        "part_a_wall_s": round(time.time() - t0, 1),
    })
    # failures -> shrink -> violation
    seen = set()
    for f in agg["failures"]:
        if len(seen) >= 6:
            break
        if f.get("chunk"):
            common.violation(ctx, {"what": "pool changed during a chunk of histories", "histories": f["history"],
                                   "failure": f["failures"]})
            seen.add("chunk")
            continue
        first = f["failures"][0]
        small, ff = shrink(f["history"], f["kind"], first["what"])
        key = (tuple(small), f["kind"] if len(small) > 1 else "", first["what"], first.get("array") or first.get("operator"))
        key2 = (tuple(small), first["what"], first.get("array") or first.get("operator"))
        if key2 in seen:
            continue
        seen.add(key2)
        common.violation(ctx, {"history": small, "kind": f["kind"], "failure": ff or first, "original_history": f["history"],
                               "replay": "./check C18 quick --replay <this file>"})
    # exceptions are observations: an outcome `predict` did not name means the stream no longer exercises what it claims (or the
    # library changed); so does an operation that mostly raises.  Neither is a mutated input, hence no_input.
    if not ctx.violations:
        low = {k: {"ok": v[0], "raised": v[1] + v[2]} for k, v in sorted(agg["status"].items())
               if k not in EXPECTED_RAISING and v[0] + v[1] + v[2] > 0 and v[0] < 0.9 * (v[0] + v[1] + v[2])}
        if agg["n_surprises"]:
            common.violation(ctx, {"broken": "operations ended in an outcome the harness model (`predict`) does not name; the byte "
                                             "comparison found no modified input", "count": agg["n_surprises"],
                                   "samples": agg["surprises"][:6]}, no_input=True)
        elif low:
            common.violation(ctx, {"broken": "operations succeed on fewer than 90 % of the operators they are applied to: the history "
                                             "stream no longer exercises them; the byte comparison found no modified input",
                                   "operations": low}, no_input=True)
    return agg


def replay(ctx):
    spec = json.load(open(ctx.replay))
    if "child_spec" in spec:
        part_bc(ctx, {}, specs=[spec["child_spec"]])
        return
    r = run_history(spec["history"], spec["kind"], Env(), full_end=True)
    print(json.dumps({"history": spec["history"], "kind": spec["kind"], "statuses": r["statuses"], "failures": r["failures"]},
                     indent=1, default=str)[:4000])
    if r["failures"]:
        common.violation(ctx, {"history": spec["history"], "kind": spec["kind"], "failure": r["failures"][0]})


# =============================================================================================
# (b) flatten / unflatten round trip and leaf substitution
# =============================================================================================
def _children_sorted(v):
    """the pytree children of a value in optree order"""
    if isinstance(v, LinearOperator):
        return [x for _k, x in sorted(vars(v).items())]
    if isinstance(v, (tuple, list)):
        return list(v)
    if isinstance(v, dict):
        return [v[k] for k in sorted(v)]
    return None


def arrays_of(v, out=None):
    """every array reachable from an operator through attributes, containers and nested operators:
    the operator's array parameters, in pytree order"""
    out = [] if out is None else out
    if isinstance(v, np.ndarray):
        out.append(v)
    else:
        ch = _children_sorted(v)
        for x in ch or []:
            arrays_of(x, out)
    return out


def own_verdict(value):
    """what LinearOperator.__setattr__ would decide for this value now"""
    from cola.ops.operator_base import definitely_dynamic, is_array
    from cola.backends import np_fns
    return bool(definitely_dynamic(value) or any(map(is_array, np_fns.tree_flatten(value)[0])))


def own_table(cls):
    """does the class have a `_dynamic` table OF ITS OWN (the copy AutoRegisteringPyTree.__init__ makes per class)?  The recorded
    finding first-instance-representative is about exactly this situation: the verdict was reached on an earlier instance of the
    SAME (parametrised) class.  A table shared with another class (a base class, the un-parametrised kind, a sibling) is a
    different defect and is never matched to the recorded finding."""
    tab = vars(cls).get("_dynamic")
    if tab is None:
        return False
    seen = [LinearOperator]
    todo = [LinearOperator]
    while todo:
        c = todo.pop()
        for d in c.__subclasses__():
            if d not in seen:
                seen.append(d)
                todo.append(d)
    return not any(c is not cls and vars(c).get("_dynamic") is tab for c in seen)


def attr_mismatches(A, seen=None, path=""):
    """(class, attribute, registry verdict, this instance's verdict) wherever they differ, for the
    operator and every operator nested in it: the clause `first-instance-representative`"""
    seen = set() if seen is None else seen
    out = []
    if id(A) in seen:
        return out
    seen.add(id(A))
    for k, v in sorted(vars(A).items()):
        reg = type(A)._dynamic.get(k)
        mine = own_verdict(v)
        if reg != mine:
            out.append({"class": type(A).__name__, "attr": path + k, "registry": reg, "instance": mine,
                        "own_table": own_table(type(A))})
        stack = [v]
        while stack:
            x = stack.pop()
            if isinstance(x, LinearOperator):
                out.extend(attr_mismatches(x, seen, path + k + "."))
            elif isinstance(x, (tuple, list)):
                stack.extend(x)
            elif isinstance(x, dict):
                stack.extend(x.values())
    return out


def _perturb(x):
    if x.dtype.kind in "iu":
        return np.array(x[::-1] if x.ndim else x + 1, dtype=x.dtype)
    return np.array(x + 1, dtype=x.dtype)


def roundtrip_issues(name, A):
    """-> list of issues {type: roundtrip|substitution|leaves, ...} for one operator"""
    issues = []
    with warnings.catch_warnings(), np.errstate(all="ignore"):
        warnings.simplefilter("ignore")
        before = snap_op(A)
        leaves, unflatten = A.flatten()
        B = unflatten(leaves)
        after_A = snap_op(A)
        sB = snap_op(B)
        if after_A != before:
            issues.append({"type": "roundtrip", "op": name, "what": "flatten/unflatten changed the operator itself", "field": _explain(before, after_A)})
        if type(B) is not type(A) or sB != before:
            issues.append({"type": "roundtrip", "op": name, "what": "unflatten(flatten(A)) differs from A",
                           "field": "class" if type(B) is not type(A) else _explain(before, sB)})
        # leaves vs array parameters
        params = arrays_of(A)
        leaf_arrays = [x for x in leaves if isinstance(x, np.ndarray)]
        non_arrays = [x for x in leaves if not isinstance(x, np.ndarray)]
        missing = [i for i, p in enumerate(params) if not any(p is x for x in leaf_arrays)]
        extra = [i for i, x in enumerate(leaf_arrays) if not any(p is x for p in params)]
        if missing or extra or non_arrays:
            mm = attr_mismatches(A)
            issues.append({"type": "leaves", "op": name, "class": type(A).__name__, "n_leaves": len(leaves), "n_array_params": len(params),
                           "array_params_missing_from_leaves": len(missing), "leaves_not_array_params": len(extra),
                           "non_array_leaves": [type(x).__name__ for x in non_arrays][:8], "attr_mismatch": mm})
        # substituting leaf i changes precisely that leaf (and, through it, precisely that parameter)
        for i, x in enumerate(leaves):
            if not isinstance(x, np.ndarray):
                continue
            new = _perturb(x)
            l2 = list(leaves)
            l2[i] = new
            try:
                C = unflatten(l2)
                lc = C.flatten()[0]
            except Exception as ex:
                issues.append({"type": "substitution", "op": name, "leaf": i, "what": f"unflatten with a substituted leaf raised {type(ex).__name__}: {ex}"[:200]})
                continue
            ok = len(lc) == len(leaves) and all((y is new) if j == i else (y is leaves[j] or (not isinstance(y, np.ndarray) and y == leaves[j]))
                                                 for j, y in enumerate(lc))
            pc = arrays_of(C)
            positional = len(leaves) == len(params) and all(p is q for p, q in zip(params, leaves))
            okp = (len(pc) == len(params) and all((q is new) if j == i else (q is params[j]) for j, q in enumerate(pc))) \
                if positional else True
            static_same = struct_static(C) == struct_static(A)
            if not (ok and okp and static_same and type(C) is type(A)):
                issues.append({"type": "substitution", "op": name, "leaf": i,
                               "what": "substituting one leaf changed something else", "leaves_ok": ok, "params_ok": okp, "static_ok": static_same})
    return issues


def struct_static(A):
    """the deep attribute snapshot with every array replaced by its dtype/shape (what a leaf substitution must keep)"""
    def strip(t):
        if isinstance(t, tuple):
            if t and t[0] == "a":
                return ("a", t[1], t[2])
            return tuple(strip(x) for x in t)
        return t
    return strip(struct_snap(A))


# first-instance variants: built BEFORE the pool in a fresh interpreter
VARIANTS = {
    "sliced_by_index_first": lambda a: Dense(a["M6"])[a["i6"], :],
    "sliced_by_slice_first": lambda a: Dense(a["M6"])[0:2, :],
    "sliced_both_index_first": lambda a: Dense(a["M6"])[a["i6"], a["j6"]],
    "sliced_positional_index": lambda a: Sliced(Dense(a["M6"]), (a["i6"], a["j6"])),
    "sliced_positional_slice": lambda a: Sliced(Dense(a["M6"]), (slice(0, 4), slice(0, 4))),
    "kron_of_sliced_identity_slices": lambda a: Kronecker(Sliced(Identity((6, 6), np.float64), (slice(0, 2), slice(0, 2))), Identity((2, 2), np.float64)),
    "kron_of_sliced_identity_arrays": lambda a: Kronecker(Sliced(Identity((6, 6), np.float64), (a["i6"][:2], a["j6"][:2])), Identity((2, 2), np.float64)),
    "scalar_from_array": lambda a: ScalarMul(np.array(2.5), (4, 4), dtype=np.float64),
    "scalar_from_float": lambda a: ScalarMul(2.5, (4, 4), dtype=np.float64),
    "bdiag_multiplicities_array": lambda a: BlockDiag(Dense(a["M2"]), Dense(a["N2"]), multiplicities=np.array([1, 1])),
    "house_beta_array": lambda a: Householder(a["w4"], beta=np.array(2.0)),
    "product_of_identities": lambda a: Product(Identity((4, 4), np.float64), Identity((4, 4), np.float64)),
    "sum_dense_dense": lambda a: Sum(Dense(a["M4"]), Dense(a["M4"])),
    "transpose_of_identity": lambda a: Transpose(Identity((4, 4), np.float64)),
    "lanczos_unary_with_start": lambda a: cola.exp(cola.PSD(Dense(a["M4"])), cola.Lanczos(start_vector=a["v4"], max_iters=3)),
    "lanczos_unary_without_start": lambda a: cola.exp(cola.PSD(Dense(a["M4"])), cola.Lanczos(max_iters=3)),
    "inv_cg_with_x0": lambda a: cola.inv(cola.PSD(Dense(a["M4"])), cola.CG(x0=a["x04"])),
}


# ---------------------------------------------------------------------------- recorder (child only)
class Recorder:
    """records every `self.attr = value` on a LinearOperator and every subclass creation, in the event
    language of lean/DriverC18.lean.  The wrappers delegate to the original functions unchanged."""
    BASE = {"xnp": 0, "shape": 1, "dtype": 2, "device": 3, "annotations": 4}

    def __init__(self):
        self.log, self.keep = [], []
        self.cls_ids, self.attr_ids, self.obj_ids, self.arr_ids, self.atom_ids = {LinearOperator: 0}, dict(self.BASE), {}, {}, {}

    def cid(self, c):
        if c not in self.cls_ids:
            parent = next(b for b in c.__mro__[1:] if isinstance(b, type) and issubclass(b, LinearOperator))
            p = self.cid(parent)
            self.cls_ids[c] = len(self.cls_ids)
            self.log.append(["sub", self.cls_ids[c], p])
        return self.cls_ids[c]

    def _id(self, table, x):
        k = id(x)
        if k not in table:
            table[k] = len(table)
            self.keep.append(x)
        return table[k]

    def enc(self, v):
        if isinstance(v, np.ndarray):
            return ["a", self._id(self.arr_ids, v)]
        if isinstance(v, LinearOperator):
            return ["obj", self._id(self.obj_ids, v)]
        if v is None:
            return ["tup", []]
        if isinstance(v, (tuple, list)) and not hasattr(v, "_fields"):
            return ["tup", [self.enc(x) for x in v]]
        if isinstance(v, dict):
            return ["tup", [self.enc(v[k]) for k in sorted(v)]]
        return ["t", self._id(self.atom_ids, v)]

    def install(self):
        from cola.backends.backends import AutoRegisteringPyTree
        rec = self
        # classes that exist already (import time): parents first
        todo = [LinearOperator]
        while todo:
            c = todo.pop(0)
            rec.cid(c)
            todo.extend(c.__subclasses__())
        orig_set = LinearOperator.__setattr__
        orig_init = AutoRegisteringPyTree.__init__

        def setattr_rec(self, name, value):
            c = rec.cid(type(self))
            a = rec.attr_ids.setdefault(name, len(rec.attr_ids))
            rec.log.append(["set", c, rec._id(rec.obj_ids, self), a, rec.enc(value)])
            return orig_set(self, name, value)

        def init_rec(cls, *args, **kwargs):
            orig_init(cls, *args, **kwargs)
            rec.cid(cls)

        LinearOperator.__setattr__ = setattr_rec
        AutoRegisteringPyTree.__init__ = init_rec


def child_main(spec):
    rec = Recorder()
    rec.install()
    a = make_arrays(spec.get("variant", 0))
    objs = {}
    for name in spec.get("pre", []):
        objs["pre:" + name] = VARIANTS[name](a)
    for k in spec["order"]:
        objs[k] = BUILDERS[k](a)
    for name in spec.get("post", []):
        objs["post:" + name] = VARIANTS[name](a)
    issues, real = [], {}
    nlog = len(rec.log)
    for name, A in objs.items():
        try:
            leaves = A.flatten()[0]
            real[name] = {"obj": rec._id(rec.obj_ids, A), "leaves": [rec.enc(x) if isinstance(x, np.ndarray) else ["t", rec._id(rec.atom_ids, x)]
                                                                      for x in leaves],
                          "class": type(A).__name__, "mismatch": attr_mismatches(A)}
        except Exception as ex:
            issues.append({"type": "crash", "op": name, "what": f"flatten raised {type(ex).__name__}: {ex}"[:300]})
    log = rec.log[:nlog]
    for name, A in objs.items():
        try:
            issues.extend(roundtrip_issues(name, A))
        except Exception as ex:
            issues.append({"type": "crash", "op": name, "what": f"{type(ex).__name__}: {ex}"[:300]})
    names = sorted(rec.attr_ids, key=lambda k: k)
    rank = [0] * len(rec.attr_ids)
    for r, nm in enumerate(names):
        rank[rec.attr_ids[nm]] = r
    print("C18CHILD " + json.dumps({"spec": spec, "issues": issues, "real": real, "log": log, "rank": rank}))


def run_children(specs):
    env = dict(os.environ)
    env["PYTHONPATH"] = os.path.dirname(HERE) + os.pathsep + env.get("PYTHONPATH", "")
    procs = []
    out = []
    for i in range(0, len(specs), 16):
        batch = [(s, subprocess.Popen([PY, os.path.abspath(__file__), "--child", json.dumps(s)], stdout=subprocess.PIPE,
                                      stderr=subprocess.PIPE, text=True, env=env)) for s in specs[i:i + 16]]
        for s, p in batch:
            so, se = p.communicate(timeout=600)
            line = [ln for ln in so.splitlines() if ln.startswith("C18CHILD ")]
            if p.returncode != 0 or not line:
                out.append({"spec": s, "error": (se or so)[-1500:], "issues": []})
            else:
                out.append(json.loads(line[-1][len("C18CHILD "):]))
    return out


def child_specs(ctx):
    rng = random.Random(ctx.seed + 1)
    specs = [{"order": list(KINDS), "pre": [], "post": list(VARIANTS)},
             {"order": list(reversed(KINDS)), "pre": [], "post": list(reversed(list(VARIANTS)))}]
    names = list(VARIANTS)
    n = 60 if ctx.thorough else 10
    for i in range(n):
        order = list(KINDS)
        rng.shuffle(order)
        pre = rng.sample(names, rng.randint(1, 5))
        post = [v for v in names if v not in pre]
        rng.shuffle(post)
        specs.append({"order": order, "pre": pre, "post": post, "variant": i % 3})
    # the two orders of the Lean witness, isolated
    specs.append({"order": ["sliced_s", "sliced_a"], "pre": [], "post": []})
    specs.append({"order": ["sliced_a", "sliced_s"], "pre": [], "post": []})
    return specs


def part_bc(ctx, cov, specs=None):
    import oracle
    t0 = time.time()
    known = dict(common.known_clauses(ctx.prop))
    specs = specs or child_specs(ctx)
    results = run_children(specs)
    # in-process (this interpreter, pool order) as one more history
    inproc = []
    e = Env()
    for k, A in e.pool.items():
        inproc.extend(roundtrip_issues(k, A))
    results.append({"spec": {"order": list(KINDS), "in_process": True}, "issues": inproc, "real": {}, "log": []})
    n_checked = 0
    viol = 0
    leaf_sig = {}
    known_hits = []
    # correspondence of the registry model first: Lean's leaves = the real leaves, object by object
    cases = [{"id": ri, "log": res["log"], "rank": res.get("rank", []), "query": [r["obj"] for r in res["real"].values()]}
             for ri, res in enumerate(results) if res.get("log") and not res.get("error")]
    ans = {}
    if cases:
        # never crash on a changed tree: a registry model that no longer builds / runs is "the model no longer covers the code"
        try:
            rc, out = common.lake_build(["ColaVerif.Model.Registry"])
            if rc != 0:
                raise RuntimeError("Model/Registry.lean (imported by DriverC18.lean) does not build:\n" + out[-1500:])
            ans = oracle.run_driver(cases, driver="DriverC18.lean", nproc=min(8, len(cases)))
        except Exception as ex:  # noqa: BLE001
            cov["registry_model_driver_error"] = f"{type(ex).__name__}: {str(ex)[-800:]}"
            ans = {}
    model_checked = model_bad = 0
    model_ok = set()       # (result index, operator name) on which model and real flatten agree
    for ri, res in enumerate(results):
        if ri not in ans:
            continue
        if "error" in ans[ri]:
            common.violation(ctx, {"broken": "DriverC18 error", "error": ans[ri]["error"], "child_spec": res["spec"]}, no_input=True)
            model_bad += 1
            continue
        by_obj = {o["obj"]: o for o in ans[ri]["objs"]}
        for name, r in res["real"].items():
            m = by_obj[r["obj"]]
            model_checked += 1
            top_mismatch = [x for x in r["mismatch"] if "." not in x["attr"]]
            if m["leaves"] != r["leaves"] or bool(m["clauses"]) != bool(top_mismatch):
                model_bad += 1
                # real != code model: does the real code contradict the SPEC (leaves = array parameters) here?  If so this
                # construction order is the failing input
                contradicts = bool(r["mismatch"])
                if model_bad <= 3:
                    common.violation(ctx, {"broken": "registry model and real flatten disagree", "operator": name, "class": r["class"],
                                           "real_leaves": r["leaves"], "model_leaves": m["leaves"], "model_clauses": m["clauses"],
                                           "real_mismatch": r["mismatch"], "child_spec": res["spec"],
                                           "replay": "./check C18 quick --replay <this file>"}, no_input=not contradicts)
            else:
                model_ok.add((ri, name))
    for ri, res in enumerate(results):
        if res.get("error"):
            common.violation(ctx, {"child_spec": res["spec"], "error": res["error"]}, no_input=True)
            viol += 1
            continue
        for name, r in res.get("real", {}).items():
            n_checked += 1
            sig = (len(r["leaves"]), sum(1 for x in r["leaves"] if x[0] == "t"))
            leaf_sig.setdefault(name.split(":")[-1], set()).add(sig)
        bad = []
        for it in res["issues"]:
            if it["type"] == "leaves":
                own = bool(it.get("attr_mismatch")) and all(x.get("own_table") for x in it["attr_mismatch"])
                if own and ((ri, it["op"]) in model_ok or not res.get("log")):
                    # real = code model != spec on an input of exactly the recorded class: the verdict of the operator's OWN class
                    # table, reached on an earlier instance of that same class, differs from this instance's (where the run was
                    # recorded, the Lean registry model reproduces leaves and clause object by object: model_ok)
                    known_hits.append((res["spec"], it))
                elif it.get("attr_mismatch") and not own:
                    bad.append(dict(it, what="registry verdict comes from a `_dynamic` table SHARED with another class — not the "
                                             "recorded finding first-instance-representative (per-class table fixed by its own first instance)"))
                elif it.get("attr_mismatch"):
                    pass                                      # reported above (model disagreement)
                elif it["array_params_missing_from_leaves"] == 0 and it["leaves_not_array_params"] == 0:
                    # non-array leaves inside an attribute that also holds arrays, e.g. slices = (index_array, slice(None)):
                    # the attribute IS array-valued (C18_leaves is stated attribute by attribute); counted, not an issue
                    cov["mixed_container_leaves"] = cov.get("mixed_container_leaves", 0) + 1
                else:
                    bad.append(it)
            else:
                bad.append(it)
        if bad and viol < 4:
            common.violation(ctx, {"child_spec": res["spec"], "issues": bad[:5], "replay": "./check C18 quick --replay <this file>"})
            viol += 1
    # known / provisional clause
    if known_hits:
        clause = "first-instance-representative"
        spec0, it0 = known_hits[0]
        what = (known.get(clause) or {}).get("what") or "(not recorded)"
        if clause in known or clause in PROVISIONAL_KNOWN:
            common.known_finding(ctx, clause, f"{what} [e.g. {it0['op']} ({it0['class']}): {it0['attr_mismatch'][0]} in construction order "
                                             f"pre={spec0.get('pre')} order={spec0.get('order')[:4]}...]")
        else:
            common.violation(ctx, {"child_spec": spec0, "issues": [it0]})
    cov.update({
        "fresh_interpreters": len(specs),
        "operators_flattened": n_checked,
        "history_dependent_kinds": sorted(k for k, v in leaf_sig.items() if len(v) > 1),
        "leaf_signatures": {k: sorted(map(list, v)) for k, v in sorted(leaf_sig.items()) if len(v) > 1},
        "clause_hits_first_instance_representative": len(known_hits),
        "registry_model_objects_compared": model_checked,
        "registry_model_disagreements": model_bad,
        "variants": list(VARIANTS),
        "part_bc_wall_s": round(time.time() - t0, 1),
    })
    return model_bad


# =============================================================================================
# (d) translator + Lean gate, and the driver of the whole check
# =============================================================================================
def run_translator(cov):
    sys.path.insert(0, os.path.dirname(TRANSLATOR))
    import scan_inplace_sites as tr
    sys.setrecursionlimit(20000)
    res = tr.run(quiet=True)
    from collections import Counter
    lib = [r for r in res["sites"] if r["scope"] == "library"]
    cov["sites_total"] = len(res["sites"])
    cov["sites_by_scope"] = dict(Counter(r["scope"] for r in res["sites"]))
    cov["library_sites_by_provenance"] = dict(Counter(r["cls"] for r in lib))
    cov["library_sites_by_kind"] = dict(Counter(r["kind"] for r in lib))
    need = [r for r in lib if r["cls"] in ("param", "unknown")]
    cov["library_sites_needing_a_reason"] = len(need)
    cov["library_sites_by_established_reason"] = dict(Counter(r.get("reason", "none") for r in need))
    cov["library_reason_programs"] = {"caller_slices_ending_in_call": sum(len(r.get("reason_progs", [])) for r in need
                                                                          if r.get("reason") in ("privateHelper", "primitive")),
                                      "field_definition_slices": sum(len(r.get("reason_progs", [])) for r in need if r.get("reason") == "ownedField")}
    cov["library_sites_without_reason"] = [{k: r[k] for k in ("file", "line", "func", "target", "reason", "reason_detail")}
                                           for r in need if not site_reason_ok(r)]
    cov["cola_dir_scanned"] = res["base"]
    cov["site_table_changed_by_this_run"] = res["changed"]
    return res


def site_reason_ok(r):
    """Python mirror of Heap.Reason.holds (evidence only; Lean decides)"""
    import scan_inplace_sites as tr
    k = r.get("reason", "none")
    if k in ("privateHelper", "primitive", "ownedField"):
        return bool(r["reason_progs"]) and all(tr.py_writes_only_fresh(pr) for pr in r["reason_progs"])
    if k == "writeOnlyField":
        return r["reason_reads"] == 0
    return k == "classLevel"


def failing_theorems(gate_err):
    """names of the theorems at the error positions of a lake / lean output (`error: file:line:col: …` or
    `file:line:col: error …`).  common.lean_gate keeps only the tail of the build output, so the build of the property module
    is repeated here (cached apart from the failing files) to read the complete list of errors."""
    import re
    text = gate_err or ""
    try:
        _rc, full = common.lake_build([MODULE])
        text = full + "\n" + text
    except Exception:  # noqa: BLE001
        pass
    names = []
    pat = r"(?:error:\s*(?:\./)*(ColaVerif/[\w/]+\.lean):(\d+):(\d+))|(?:(ColaVerif/[\w/]+\.lean):(\d+):(\d+):\s*error)"
    for m in re.finditer(pat, text):
        rel, line = (m.group(1), int(m.group(2))) if m.group(1) else (m.group(4), int(m.group(5)))
        try:
            src = open(os.path.join(common.LEAN_DIR, rel)).read().split("\n")
        except OSError:
            continue
        for k in range(min(line, len(src)) - 1, -1, -1):
            t = re.match(r"\s*(?:private\s+)?(?:theorem|lemma|def|example)\s+(\S+)?", src[k])
            if t:
                nm = f"{t.group(1) or 'example'} ({rel}:{line})"
                if nm not in names:
                    names.append(nm)
                break
    return names


def module_gate(ctx):
    """common.lean_gate restricted to the C18 module (build, re-elaboration, #print axioms audit, source scan)"""
    import re
    rc, out = common.lake_build([MODULE])
    if rc != 0:
        raise common.LeanGateError("lake build failed:\n" + out[-3000:])
    path = os.path.join("ColaVerif", *MODULE.split(".")[1:]) + ".lean"
    rc, so, se = common.sh(["lake", "env", "lean", path], cwd=common.LEAN_DIR, timeout=3000)
    if rc != 0:
        raise common.LeanGateError(f"{path} does not elaborate:\n" + (so + se)[-3000:])
    theorems = {}
    txt = so.replace("\n  ", " ")
    for m in re.finditer(r"'([^']+)' depends on axioms: \[([^\]]*)\]", txt):
        theorems[m.group(1)] = [a.strip() for a in m.group(2).split(",") if a.strip()]
    for m in re.finditer(r"'([^']+)' does not depend on any axioms", txt):
        theorems[m.group(1)] = []
    if not theorems:
        raise common.LeanGateError(f"{path}: no '#print axioms' output found")
    bad = {k: v for k, v in theorems.items() if not set(v) <= common.ALLOWED_AXIOMS}
    hits = common.scan_sources()
    if hits:
        raise common.LeanGateError("forbidden tokens in Lean sources:\n" + "\n".join(hits[:20]))
    return {"obligations": len(theorems), "discharged": len(theorems) - len(bad), "theorems": sorted(theorems), "bad_axioms": bad,
            "checker_cmd": f"cd lean && lake build {MODULE} && lake env lean {path}   # kernel re-check + #print axioms audit"}


def run(ctx):
    if ctx.replay:
        replay(ctx)
        return
    cov = {}
    translator_error = None
    try:
        tr = run_translator(cov)
    except Exception:  # noqa: BLE001  (a module of the changed tree the scanner cannot analyse)
        import traceback
        translator_error = traceback.format_exc()[-2500:]
        tr = {"sites": [], "base": None, "changed": False}
        cov["translator_error"] = translator_error
    gate = None
    gate_error = None
    try:
        gate = common.lean_gate(ctx, MODULE)
    except common.LeanGateError as ex:
        gate_error = str(ex)
        if "forbidden tokens" not in gate_error:
            # the whole-library build may have broken in a module of another property (agents work concurrently, generated
            # tables of other checks change): check C18's own module and its imports alone, same audit.  If C18's module is
            # what is broken, this fails as well.
            try:
                gate = module_gate(ctx)
                cov["gate_scope"] = "ColaVerif.Properties.C18 and its imports only; the whole-library build failed elsewhere: " \
                    + gate_error.strip().splitlines()[-1][:200]
                gate_error = None
            except common.LeanGateError as ex2:
                gate_error = str(ex2)
    if gate_error is not None:
        print("Lean gate failed (the site table or a proof no longer checks); searching a failing history by byte comparison:\n"
              + gate_error[-1500:], flush=True)
    agg = part_a(ctx, cov)
    model_bad = part_bc(ctx, cov)
    for what, err in (("the translator scan_inplace_sites.py failed on the current tree: the site table (hypothesis of C18_sites) could "
                       "not be regenerated", translator_error),
                      ("DriverC18.lean (registry model) is unavailable: real flatten was not compared with the model",
                       cov.get("registry_model_driver_error"))):
        if err and not ctx.violations:
            common.violation(ctx, {"broken": what + "; the byte-comparison search found no failing history", "error": err}, no_input=True)
    if gate_error is not None:
        bad_sites = [r for r in tr["sites"] if r["scope"] == "library" and r["cls"] in ("param", "unknown") and not site_reason_ok(r)]
        cov["gate_error"] = gate_error[-600:]
        unchecked = failing_theorems(gate_error)
        cov["theorems_that_no_longer_check"] = unchecked
        if not ctx.violations:
            common.violation(ctx, {"broken": "Lean gate of ColaVerif.Properties.C18 failed (the property is no longer shown to hold: "
                                             + (", ".join(unchecked) or "see error") + ") and the byte-comparison search found no failing history",
                                   "theorems_that_no_longer_check": unchecked,
                                   "error": gate_error[-1500:],
                                   "library_sites_without_discipline_or_checked_reason":
                                       [{k: r.get(k) for k in ("file", "line", "func", "target", "cls", "chain", "reason", "reason_detail")} for r in bad_sites]},
                             no_input=True)
    assumptions = [
        "C18_safe is about the buffer-event IR; the slice of each function (reaching definitions, loop states resolved through the init "
        "functions, call results through return expressions) is produced by the AST translator, which is trusted and cross-checked by the "
        "byte comparison of part (a); the list of allocating / view-returning backend functions (FRESH_FNS, VIEW_FNS) describes the NumPy backend",
        "`A @ x` is a fresh array or (a view of) x: assumed for every _matmat of cola (Identity returns x); operands that are parameters "
        "annotated LinearOperator are operators, not buffers",
        "registry model: classes and attribute names are numbers, tree_flatten's sorted(vars) is modelled by insertion order, "
        "find_device(fields) or fields['device'] is fields['device'] (NumPy: one device)",
        "known clause first-instance-representative (known_findings.json): leaves = array parameters only when the first instance of the "
        "(parametrised) class had arrays in the same attributes; matched only when the mismatching verdict sits in the class's OWN "
        "`_dynamic` table (a table shared between classes is reported as a violation)",
        "identity-to-mutates-receiver (Identity.to stored the device into the receiver) was repaired in /repo aef9931; `to_dev` is kept as a regression operation",
        "a private helper = a top-level function that is not decorated @export, not in __all__, never imported by name, and referenced "
        "only as the callee of direct calls in its own module (Python has no privacy: a user can still import it from its module)",
        "ownership: caller-owned = the arrays, pool operators, partners and Algorithm objects (x0, start_vector, preconditioner P, Auto "
        "namespaces; by value and identity) the caller created — compared after every operation with NOTHING excluded; library-owned "
        "= only the `info` dict (log of the last run, wall-clock timings) of IterativeOperatorWInfo / LanczosUnary / ArnoldiUnary inside an "
        "operator cola RETURNED, and only while that dict is not itself a caller object; every difference the exclusion hides is "
        "counted in coverage.library_owned_state_changes.  Everything else of a returned operator — its attributes including `kwargs`, "
        "and its flatten() leaves as recorded at the moment of return — must not change when the operator is used (the former "
        "`kwargs.pop('start_vector')` of LanczosUnary / ArnoldiUnary._matmat was repaired in /repo 7ca2ac5; KWARGS_REGRESSION histories)",
        "generator: Lanczos / CG routines get a truthfully annotated operand built from the focus operator (A itself when PSD-annotated, "
        "not member-distributing and well posed, else PSD(A^H A + M)); solve / GMRES get A or the regularised A^H A + M when A is "
        "numerically singular or its Krylov space is exhausted inside the iteration budget (the recorded breakdown defects of "
        "C06/C09/C13/C14 are not this property's subject); the op `PSD` only declares what is true; every remaining exception is "
        "compared with the class `predict` derives from the operand, anything else fails the check",
        "use_householder=True raises ValueError on every input of the NumPy backend (run_householder_arnoldi permutes a 2-D array "
        "with 3 axes) — an observation outside the 20 properties; the operation arnoldi_hh runs up to that exception (class compared), "
        "gmres_tri is defined but NOT scheduled in any history; to_dev raises RuntimeError for every operator with an "
        "array leaf (NumPy backend has no devices); Identity.to(device, dtype) raises TypeError (its signature lacks dtype)",
    ]
    common.write_evidence(ctx, gate, cov, assumptions)
    print(f"C18 {ctx.tier} seed={ctx.seed}: {cov['runs_history_x_kind']} runs, {cov['evaluations']} operations, "
          f"{cov['distinct_nontrivial']} non-trivial sequences, {cov['fresh_interpreters']} fresh interpreters, "
          f"sites {cov['library_sites_by_provenance']}, violations={len(ctx.violations)}, wall={ctx.wall():.0f}s", flush=True)


if __name__ == "__main__":
    if len(sys.argv) >= 3 and sys.argv[1] == "--child":
        child_main(json.loads(sys.argv[2]))
